// Package fw is the small framework shared by all property checks: sharded
// worker processes, violation aggregation by cause key, known-findings lookup,
// evidence files and the VIOLATION / KNOWN-FINDING protocol.
package fw

import (
	"bufio"
	"crypto/sha256"
	"encoding/hex"
	"encoding/json"
	"fmt"
	"hash/fnv"
	"os"
	"os/exec"
	"path/filepath"
	"sort"
	"strconv"
	"strings"
	"sync"
	"sync/atomic"
	"time"
)

// Violation is one cause class of property violations found by a run.
type Violation struct {
	Key    string          `json:"key"`    // cause key (finding identity)
	Detail string          `json:"detail"` // human readable description of the first case
	Case   json.RawMessage `json:"case"`   // replayable case (property specific)
	Count  int64           `json:"count"`  // number of violating cases with this key
	Size   int             `json:"size"`   // size of the recorded case (smaller is kept)
}

// Result is what one worker reports.
type Result struct {
	Evaluations int64                 `json:"evaluations"`
	Nontrivial  int64                 `json:"nontrivial"`
	Violations  map[string]*Violation `json:"violations"`
	Samples     []json.RawMessage     `json:"samples"`
	Counters    map[string]int64      `json:"counters"`
	Distinct    map[string][]uint64   `json:"distinct"`
	Notes       []string              `json:"notes"`
	Caps        []string              `json:"caps"`
	HarnessErr  []string              `json:"harness_errors"`
}

// Ctx is handed to a property's worker body.
type Ctx struct {
	Prop     string
	Tier     string
	Shard    int
	N        int
	Seed     int64
	Deadline time.Time
	res      Result
	idx      int64
	distinct map[string]map[uint64]struct{}
	timedOut bool
}

func (c *Ctx) Quick() bool    { return c.Tier == "quick" }
func (c *Ctx) Thorough() bool { return c.Tier == "thorough" }

// Mine advances the global case counter and reports whether the calling worker
// owns this case. Call it exactly once per enumerated case, in every worker.
func (c *Ctx) Mine() bool {
	i := c.idx
	c.idx++
	return int(i%int64(c.N)) == c.Shard
}

// Index is the number of cases enumerated so far (across all shards).
func (c *Ctx) Index() int64 { return c.idx }

// Eval counts one executed case.
func (c *Ctx) Eval() { c.res.Evaluations++; beat.Add(1) }

// beat is bumped whenever a worker finishes a case; the stall watchdog reads it.
var beat atomic.Int64

// StallLimit is how long a worker may go without finishing a single case
// before it gives up with a harness error (never a verdict).
var StallLimit = 300 * time.Second

func stallWatchdog(id string) {
	last, since := beat.Load(), time.Now()
	for {
		time.Sleep(5 * time.Second)
		if b := beat.Load(); b != last {
			last, since = b, time.Now()
			continue
		}
		if time.Since(since) > StallLimit {
			fmt.Fprintf(os.Stderr, "worker stalled: %s finished no case for %s after %d cases (unmodelled non-termination)\n", id, StallLimit, last)
			os.Exit(4)
		}
	}
}

// EvalN counts n executed cases.
func (c *Ctx) EvalN(n int64) { c.res.Evaluations += n; beat.Add(1) }

// Nontrivial counts one distinct non-trivial case.
func (c *Ctx) Nontrivial() { c.res.Nontrivial++ }

// Count adds to a named counter (summed over workers).
func (c *Ctx) Count(name string, n int64) {
	if c.res.Counters == nil {
		c.res.Counters = map[string]int64{}
	}
	c.res.Counters[name] += n
}

// DistinctAdd records a member of a named set whose cardinality is reported
// (union over workers).
func (c *Ctx) DistinctAdd(set string, member string) {
	h := fnv.New64a()
	h.Write([]byte(member))
	if c.distinct == nil {
		c.distinct = map[string]map[uint64]struct{}{}
	}
	m := c.distinct[set]
	if m == nil {
		m = map[uint64]struct{}{}
		c.distinct[set] = m
	}
	m[h.Sum64()] = struct{}{}
}

// Sample records an example case (only the first few per worker are kept).
func (c *Ctx) Sample(v any) {
	if len(c.res.Samples) >= 3 {
		return
	}
	b, err := json.Marshal(v)
	if err == nil {
		c.res.Samples = append(c.res.Samples, b)
	}
}

// WantSample reports whether another sample would be kept.
func (c *Ctx) WantSample() bool { return len(c.res.Samples) < 3 }

// Note records a free-text note for the evidence file.
func (c *Ctx) Note(format string, a ...any) {
	c.res.Notes = append(c.res.Notes, fmt.Sprintf(format, a...))
}

// Cap records that an enumeration was truncated.
func (c *Ctx) Cap(format string, a ...any) {
	c.res.Caps = append(c.res.Caps, fmt.Sprintf(format, a...))
}

// HarnessError records a defect of the harness itself (never a violation).
func (c *Ctx) HarnessError(format string, a ...any) {
	if len(c.res.HarnessErr) < 20 {
		c.res.HarnessErr = append(c.res.HarnessErr, fmt.Sprintf(format, a...))
	}
}

// Expired reports whether the worker's internal deadline passed. Enumerations
// poll it between cases; when it fires the run is reported as not exhaustive.
// Poisoned reports that the process can no longer be trusted to explore (the
// scheduler's watchdog fired: threads of an abandoned execution may still be
// alive). Every loop that polls Expired then winds down; the run ends as a
// harness error, never as a verdict.
var Poisoned = func() bool { return false }

func (c *Ctx) Expired() bool {
	if c.timedOut {
		return true
	}
	if Poisoned() {
		c.timedOut = true
		c.HarnessError("an execution hit the scheduler's watchdog: this worker stopped exploring (threads of the abandoned execution may still be alive)")
		return true
	}
	if !c.Deadline.IsZero() && time.Now().After(c.Deadline) {
		c.timedOut = true
		c.Cap("internal deadline reached after %d enumerated cases", c.idx)
	}
	return c.timedOut
}

// Violation records a violating case under its cause key.
func (c *Ctx) Violation(key string, detail string, cas any) {
	if c.res.Violations == nil {
		c.res.Violations = map[string]*Violation{}
	}
	v := c.res.Violations[key]
	if v != nil && v.Count >= 1 {
		v.Count++
		// keep the smallest case
		b, err := json.Marshal(cas)
		if err == nil && len(b) < v.Size {
			v.Case, v.Size, v.Detail = b, len(b), detail
		}
		return
	}
	b, _ := json.Marshal(cas)
	c.res.Violations[key] = &Violation{Key: key, Detail: detail, Case: b, Count: 1, Size: len(b)}
}

// HasViolation reports whether key has been recorded already by this worker
// (lets expensive detail rendering be skipped).
func (c *Ctx) HasViolation(key string) bool {
	_, ok := c.res.Violations[key]
	return ok
}

// Prop describes one property check.
type Prop struct {
	ID          string
	Level       string // exploration | model_checking
	Rule        string
	Assumptions []string
	Explain     string
	// Run is the worker body.
	Run func(c *Ctx)
	// Replay re-executes one recorded case and returns a printable observation
	// and whether the case (still) violates the property.
	Replay func(raw json.RawMessage) (string, bool, error)
	// Workers is the number of worker processes (default 16).
	Workers func(tier string) int
	// Budget is the internal wall-clock budget per tier (0 = none).
	Budget func(tier string) time.Duration
	// Finish lets a property post-process merged counters into coverage keys.
	Finish func(tier string, merged *Result, coverage map[string]any)
}

var registry = map[string]*Prop{}

func Register(p *Prop) { registry[p.ID] = p }

func Lookup(id string) *Prop { return registry[id] }

func IDs() []string {
	var ids []string
	for id := range registry {
		ids = append(ids, id)
	}
	sort.Strings(ids)
	return ids
}

// ---------------------------------------------------------------------------
// worker side

// WorkerMain runs one shard and prints the result as one JSON line.
func WorkerMain(id, tier string, shard, n int, seed int64, deadline time.Time) int {
	p := Lookup(id)
	if p == nil {
		fmt.Fprintf(os.Stderr, "unknown property %s\n", id)
		return 2
	}
	c := &Ctx{Prop: id, Tier: tier, Shard: shard, N: n, Seed: seed, Deadline: deadline}
	go stallWatchdog(id)
	p.Run(c)
	if c.distinct != nil {
		c.res.Distinct = map[string][]uint64{}
		for k, m := range c.distinct {
			l := make([]uint64, 0, len(m))
			for h := range m {
				l = append(l, h)
			}
			c.res.Distinct[k] = l
		}
	}
	w := bufio.NewWriter(os.Stdout)
	b, err := json.Marshal(&c.res)
	if err != nil {
		fmt.Fprintf(os.Stderr, "marshal: %v\n", err)
		return 2
	}
	w.WriteString("RESULT ")
	w.Write(b)
	w.WriteString("\n")
	w.Flush()
	return 0
}

// ---------------------------------------------------------------------------
// parent side

type knownFile struct {
	Findings []knownFinding `json:"findings"`
	Fixed    []string       `json:"fixed"`
}

type knownFinding struct {
	Property string `json:"property"`
	Key      string `json:"key"`
	What     string `json:"what"`
	Replay   string `json:"replay,omitempty"`
}

func loadKnown(root string) (map[string]knownFinding, error) {
	out := map[string]knownFinding{}
	b, err := os.ReadFile(filepath.Join(root, "known-findings.json"))
	if err != nil {
		if os.IsNotExist(err) {
			return out, nil
		}
		return nil, err
	}
	var kf knownFile
	if err := json.Unmarshal(b, &kf); err != nil {
		return nil, fmt.Errorf("known-findings.json: %w", err)
	}
	for _, f := range kf.Findings {
		out[f.Property+"\x00"+f.Key] = f
	}
	return out, nil
}

func keyFile(key string) string {
	h := sha256.Sum256([]byte(key))
	s := strings.Map(func(r rune) rune {
		switch {
		case r >= 'a' && r <= 'z', r >= 'A' && r <= 'Z', r >= '0' && r <= '9', r == '-', r == '_', r == '.':
			return r
		}
		return '_'
	}, key)
	if len(s) > 60 {
		s = s[:60]
	}
	return s + "-" + hex.EncodeToString(h[:4]) + ".json"
}

// ReplayFile is the on-disk format of a replayable case.
type ReplayFile struct {
	Property string          `json:"property"`
	Key      string          `json:"key"`
	Detail   string          `json:"detail"`
	Case     json.RawMessage `json:"case"`
}

// RunMain is the parent: it spawns the workers, merges, applies the known
// findings, writes evidence and replay files, prints the protocol lines and
// returns the exit code.
func RunMain(root, id, tier string, self string) int {
	p := Lookup(id)
	if p == nil {
		fmt.Fprintf(os.Stderr, "unknown property %s\n", id)
		return 2
	}
	start := time.Now()
	seed := int64(0)
	if s := os.Getenv("VERIF_SEED"); s != "" {
		if v, err := strconv.ParseInt(s, 10, 64); err == nil {
			seed = v
		}
	}
	n := 16
	if p.Workers != nil {
		n = p.Workers(tier)
	}
	if s := os.Getenv("VERIF_WORKERS"); s != "" {
		if v, err := strconv.Atoi(s); err == nil && v > 0 {
			n = v
		}
	}
	var deadline time.Time
	if p.Budget != nil {
		if d := p.Budget(tier); d > 0 {
			deadline = start.Add(d)
		}
	}
	results := make([]*Result, n)
	errs := make([]string, n)
	var wg sync.WaitGroup
	for i := 0; i < n; i++ {
		wg.Add(1)
		go func(i int) {
			defer wg.Done()
			args := []string{"worker", id, tier, strconv.Itoa(i), strconv.Itoa(n), strconv.FormatInt(seed, 10)}
			if !deadline.IsZero() {
				args = append(args, strconv.FormatInt(deadline.UnixNano(), 10))
			}
			cmd := exec.Command(self, args...)
			cmd.Env = append(os.Environ(), "GOMAXPROCS=1")
			var stderr strings.Builder
			cmd.Stderr = &tailWriter{b: &stderr, max: 8000}
			out, err := cmd.StdoutPipe()
			if err != nil {
				errs[i] = err.Error()
				return
			}
			if err := cmd.Start(); err != nil {
				errs[i] = err.Error()
				return
			}
			sc := bufio.NewReaderSize(out, 1<<20)
			for {
				line, rerr := sc.ReadString('\n')
				if strings.HasPrefix(line, "RESULT ") {
					var r Result
					if jerr := json.Unmarshal([]byte(line[7:]), &r); jerr == nil {
						results[i] = &r
					} else {
						errs[i] = "bad worker result: " + jerr.Error()
					}
				}
				if rerr != nil {
					break
				}
			}
			werr := cmd.Wait()
			if results[i] == nil && errs[i] == "" {
				errs[i] = fmt.Sprintf("worker %d/%d died without a result (%v): %s", i, n, werr, stderr.String())
			}
		}(i)
	}
	wg.Wait()

	merged := &Result{Violations: map[string]*Violation{}, Counters: map[string]int64{}}
	distinct := map[string]map[uint64]struct{}{}
	var harnessErrs []string
	for i, r := range results {
		if r == nil {
			harnessErrs = append(harnessErrs, errs[i])
			continue
		}
		merged.Evaluations += r.Evaluations
		merged.Nontrivial += r.Nontrivial
		for k, v := range r.Counters {
			merged.Counters[k] += v
		}
		for k, v := range r.Violations {
			m := merged.Violations[k]
			if m == nil {
				cp := *v
				merged.Violations[k] = &cp
			} else {
				m.Count += v.Count
				if v.Size < m.Size {
					m.Case, m.Size, m.Detail = v.Case, v.Size, v.Detail
				}
			}
		}
		for k, l := range r.Distinct {
			m := distinct[k]
			if m == nil {
				m = map[uint64]struct{}{}
				distinct[k] = m
			}
			for _, h := range l {
				m[h] = struct{}{}
			}
		}
		if len(merged.Samples) < 6 {
			merged.Samples = append(merged.Samples, r.Samples...)
		}
		for _, s := range r.Notes {
			if !contains(merged.Notes, s) {
				merged.Notes = append(merged.Notes, s)
			}
		}
		for _, s := range r.Caps {
			if !contains(merged.Caps, s) {
				merged.Caps = append(merged.Caps, s)
			}
		}
		harnessErrs = append(harnessErrs, r.HarnessErr...)
	}
	for k, m := range distinct {
		merged.Counters["distinct_"+k] = int64(len(m))
	}

	known, kerr := loadKnown(root)
	if kerr != nil {
		harnessErrs = append(harnessErrs, kerr.Error())
	}

	// classify violations
	keys := make([]string, 0, len(merged.Violations))
	for k := range merged.Violations {
		keys = append(keys, k)
	}
	sort.Strings(keys)
	newViol := 0
	knownSeen := 0
	os.RemoveAll(filepath.Join(root, "replays", id))
	os.MkdirAll(filepath.Join(root, "replays", id), 0o755)
	for _, k := range keys {
		v := merged.Violations[k]
		rel := filepath.Join("replays", id, keyFile(k))
		rf := ReplayFile{Property: id, Key: k, Detail: v.Detail, Case: v.Case}
		b, _ := json.MarshalIndent(&rf, "", " ")
		if kf, ok := known[id+"\x00"+k]; ok {
			knownSeen++
			fmt.Printf("KNOWN-FINDING: property=%s %s [key=%s cases=%d]\n", id, kf.What, k, v.Count)
			continue
		}
		os.WriteFile(filepath.Join(root, rel), append(b, '\n'), 0o644)
		newViol++
		fmt.Printf("VIOLATION property=%s replay=%s key=%q cases=%d detail=%s\n", id, rel, k, v.Count, oneLine(v.Detail, 400))
	}

	exhaustive := len(merged.Caps) == 0 && len(harnessErrs) == 0
	cov := map[string]any{
		"evaluations":         merged.Evaluations,
		"distinct_nontrivial": merged.Nontrivial,
		"rule":                p.Rule,
		"exhaustive":          exhaustive,
		"workers":             n,
	}
	var samples []any
	for _, s := range merged.Samples {
		var x any
		if json.Unmarshal(s, &x) == nil {
			samples = append(samples, x)
		}
	}
	if len(samples) == 0 {
		samples = append(samples, "no case was executed")
	}
	cov["samples"] = samples
	for k, v := range merged.Counters {
		cov[k] = v
	}
	if len(merged.Caps) > 0 {
		cov["caps_hit"] = merged.Caps
	}
	if len(merged.Notes) > 0 {
		cov["notes"] = merged.Notes
	}
	if len(harnessErrs) > 0 {
		cov["harness_errors"] = harnessErrs
	}
	if p.Explain != "" {
		cov["explanation"] = p.Explain
	}
	cov["violation_keys_new"] = newViol
	cov["violation_keys_known"] = knownSeen
	if p.Finish != nil {
		p.Finish(tier, merged, cov)
	}
	ev := map[string]any{
		"property_id": id,
		"tier":        tier,
		"seed":        seed,
		"level":       p.Level,
		"coverage":    cov,
		"assumptions": p.Assumptions,
		"wall_s":      time.Since(start).Seconds(),
		"violations":  newViol,
	}
	b, _ := json.MarshalIndent(ev, "", " ")
	os.MkdirAll(filepath.Join(root, "evidence"), 0o755)
	if err := os.WriteFile(filepath.Join(root, "evidence", id+".json"), append(b, '\n'), 0o644); err != nil {
		fmt.Fprintf(os.Stderr, "evidence: %v\n", err)
	}
	fmt.Printf("SUMMARY property=%s tier=%s evaluations=%d nontrivial=%d new_violation_keys=%d known_finding_keys=%d exhaustive=%v wall=%.1fs\n",
		id, tier, merged.Evaluations, merged.Nontrivial, newViol, knownSeen, exhaustive, time.Since(start).Seconds())
	for _, e := range harnessErrs {
		fmt.Printf("HARNESS-ERROR property=%s %s\n", id, oneLine(e, 600))
	}
	if newViol > 0 {
		return 1
	}
	if len(harnessErrs) > 0 {
		// A harness defect is not a violation; it is reported loudly and makes
		// the run non-exhaustive, and exits with a distinct code.
		return 3
	}
	return 0
}

// ReplayMain re-executes a replay file.
func ReplayMain(path string) int {
	b, err := os.ReadFile(path)
	if err != nil {
		fmt.Fprintln(os.Stderr, err)
		return 2
	}
	var rf ReplayFile
	if err := json.Unmarshal(b, &rf); err != nil {
		fmt.Fprintln(os.Stderr, err)
		return 2
	}
	p := Lookup(rf.Property)
	if p == nil || p.Replay == nil {
		fmt.Fprintf(os.Stderr, "no replay for property %s\n", rf.Property)
		return 2
	}
	first := ""
	viol := false
	for i := 0; i < 5; i++ {
		obs, v, err := p.Replay(rf.Case)
		if err != nil {
			fmt.Fprintln(os.Stderr, err)
			return 2
		}
		if i == 0 {
			first, viol = obs, v
		} else if obs != first || v != viol {
			fmt.Printf("REPLAY-NONDETERMINISTIC run0=%q run%d=%q\n", first, i, obs)
			return 3
		}
	}
	fmt.Printf("REPLAY property=%s key=%q runs=5 identical=true violates=%v\n%s\n", rf.Property, rf.Key, viol, first)
	if viol {
		fmt.Printf("VIOLATION property=%s replay=%s\n", rf.Property, path)
		return 1
	}
	return 0
}

type tailWriter struct {
	b   *strings.Builder
	max int
}

func (t *tailWriter) Write(p []byte) (int, error) {
	t.b.Write(p)
	if t.b.Len() > 2*t.max {
		s := t.b.String()
		t.b.Reset()
		t.b.WriteString(s[len(s)-t.max:])
	}
	return len(p), nil
}

func contains(l []string, s string) bool {
	for _, x := range l {
		if x == s {
			return true
		}
	}
	return false
}

func oneLine(s string, max int) string {
	s = strings.ReplaceAll(s, "\n", " | ")
	s = strings.Map(func(r rune) rune {
		if r < 0x20 || r == 0x7f {
			return '?'
		}
		return r
	}, s)
	if len(s) > max {
		s = s[:max] + "..."
	}
	return s
}

// Aux commands are helper sub-commands a property registers (e.g. the
// sacrificial parser subprocess of C06).
var auxRegistry = map[string]func(args []string) int{}

func RegisterAux(name string, f func(args []string) int) { auxRegistry[name] = f }

func Aux(name string) func(args []string) int { return auxRegistry[name] }
