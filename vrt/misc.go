package vrt

import (
	"fmt"
	"math/rand"
	"sort"
	"time"
)

// BudgetExceeded is the panic value raised when a loop exceeds its iteration
// budget between two scheduling/transport operations.
type BudgetExceeded struct {
	Site string
}

func (b BudgetExceeded) Error() string { return "loop budget exceeded at " + b.Site }

var (
	seqTicks  int64
	SeqBudget int64 = 200000
	// seqAllowance grows with the input delivered to the code under test in the
	// current case: work that is linear in the input (closing two million nested
	// arrays after the last byte was read) is not a spin.
	seqAllowance int64
)

// SeqDelivered tells the budget that n more input bytes were handed over.
func SeqDelivered(n int) { seqAllowance += 64 * int64(n) }

// ResetSeqAllowance starts a new sequential case.
func ResetSeqAllowance() { seqAllowance = 0 }

// ResetRand puts the global math/rand source into a fixed state: repository
// code that draws from it (cursor jitter, sampling) then behaves the same in
// every execution and every replay.
func ResetRand() { rand.Seed(1) } //nolint:staticcheck // the deprecated call is exactly what is needed here

// ResetTicks is called by the sequential harness at each transport call.
func ResetTicks() { seqTicks = 0 }

// Tick is inserted at the top of every loop body.
func Tick(site string) {
	e := cur
	if e == nil {
		seqTicks++
		if seqTicks > SeqBudget+seqAllowance {
			seqTicks = 0
			panic(BudgetExceeded{Site: site})
		}
		return
	}
	if e.aborting || e.running == nil {
		return
	}
	e.ticks++
	if e.ticks > e.opt.TickBudget {
		e.ticks = 0
		panic(BudgetExceeded{Site: site})
	}
	if e.opt.FineLoops {
		e.point("loop " + site)
	}
}

// Now replaces time.Now in instrumented code.
func Now() time.Time {
	e := cur
	if e == nil {
		if !seqClock.IsZero() {
			return seqClock
		}
		return time.Now()
	}
	return e.clock
}

var seqClock time.Time

// SetSeqClock fixes the clock seen by instrumented code outside executions
// (zero = real time).
func SetSeqClock(t time.Time) { seqClock = t }

// Advance moves the logical clock of the active execution.
func Advance(d time.Duration) {
	if e := cur; e != nil {
		e.clock = e.clock.Add(d)
	} else if !seqClock.IsZero() {
		seqClock = seqClock.Add(d)
	}
}

var seqUUID uint64

// NewUUID replaces uuid.New in instrumented code: deterministic, unique.
func NewUUID() [16]byte {
	var n uint64
	if e := cur; e != nil {
		e.uuidCtr++
		n = e.uuidCtr
	} else {
		seqUUID++
		n = seqUUID
	}
	var u [16]byte
	for i := 0; i < 8; i++ {
		u[15-i] = byte(n >> (8 * uint(i)))
	}
	u[6] = 0x40 // version 4 marker
	u[8] = 0x80
	return u
}

// Alloc records an input-derived allocation request and returns n unchanged.
func Alloc(n int, site string) int {
	if n > MaxAlloc {
		MaxAlloc = n
		MaxAllocSite = site
	}
	return n
}

var (
	MaxAlloc     int
	MaxAllocSite string
)

// MapOrder, when set, permutes the order in which Keys returns the (sorted)
// keys of a ranged map: the harness enumerates it as an environment answer.
var MapOrder func(site string, n int) []int

// Keys returns the keys of m in a deterministic order (sorted by printed
// form), optionally permuted by MapOrder / an environment choice point.
func Keys[K comparable, V any](m map[K]V, site string) []K {
	keys := make([]K, 0, len(m))
	for k := range m {
		keys = append(keys, k)
	}
	if len(keys) > 1 {
		strs := make([]string, len(keys))
		for i, k := range keys {
			strs[i] = fmt.Sprint(k)
		}
		idx := make([]int, len(keys))
		for i := range idx {
			idx[i] = i
		}
		sort.Slice(idx, func(a, b int) bool { return strs[idx[a]] < strs[idx[b]] })
		sorted := make([]K, len(keys))
		for i, j := range idx {
			sorted[i] = keys[j]
		}
		keys = sorted
		if MapOrder != nil {
			if perm := MapOrder(site, len(keys)); len(perm) == len(keys) {
				p := make([]K, len(keys))
				for i, j := range perm {
					p[i] = keys[j]
				}
				keys = p
			}
		} else if len(keys) <= 3 {
			if c := EnvChoice("map-order", factorial(len(keys))); c > 0 {
				perm := nthPerm(len(keys), c)
				p := make([]K, len(keys))
				for i, j := range perm {
					p[i] = keys[j]
				}
				keys = p
			}
		}
	}
	return keys
}

func factorial(n int) int {
	f := 1
	for i := 2; i <= n; i++ {
		f *= i
	}
	return f
}

// nthPerm returns the k-th permutation of 0..n-1 in lexicographic order.
func nthPerm(n, k int) []int {
	avail := make([]int, n)
	for i := range avail {
		avail[i] = i
	}
	out := make([]int, 0, n)
	for i := n; i > 0; i-- {
		f := factorial(i - 1)
		j := k / f
		k %= f
		out = append(out, avail[j])
		avail = append(avail[:j], avail[j+1:]...)
	}
	return out
}

// NthPerm is exported for harnesses that enumerate map orders themselves.
func NthPerm(n, k int) []int { return nthPerm(n, k) }

// Factorial is exported for harnesses.
func Factorial(n int) int { return factorial(n) }
