package vrt

import (
	"fmt"
	"sort"
	"unsafe"
)

// vclock is a vector clock indexed by thread id.
type vclock struct {
	c []uint32
}

func newVC() vclock { return vclock{} }

func (v *vclock) get(i int) uint32 {
	if i < len(v.c) {
		return v.c[i]
	}
	return 0
}

func (v *vclock) set(i int, x uint32) {
	for len(v.c) <= i {
		v.c = append(v.c, 0)
	}
	v.c[i] = x
}

func (v *vclock) tick(i int) { v.set(i, v.get(i)+1) }

func (v *vclock) join(o vclock) {
	for i, x := range o.c {
		if x > v.get(i) {
			v.set(i, x)
		}
	}
}

func (v *vclock) copyFrom(o vclock) {
	v.c = append(v.c[:0], o.c...)
}

// acquire: running thread's clock joins obj's clock.
func (e *Exec) acquire(obj *vclock) {
	if e == nil || e.races == nil || e.running == nil {
		return
	}
	e.running.vc.join(*obj)
}

// release: obj's clock becomes the running thread's clock; thread ticks.
func (e *Exec) release(obj *vclock) {
	if e == nil || e.races == nil || e.running == nil {
		return
	}
	t := e.running
	obj.copyFrom(t.vc)
	t.vc.tick(t.id)
}

// releaseMerge: obj's clock joins the running thread's clock; thread ticks.
func (e *Exec) releaseMerge(obj *vclock) {
	if e == nil || e.races == nil || e.running == nil {
		return
	}
	t := e.running
	obj.join(t.vc)
	t.vc.tick(t.id)
}

// Race is an unordered pair of access sites on one location, at least one a write.
type Race struct {
	Loc   string // location class (Type.field)
	SiteA string
	SiteB string
	Kind  string // "write-write" | "read-write"
}

type access_ struct {
	tid   int
	clock uint32
	site  string
}

type shadow struct {
	w     access_
	hasW  bool
	reads []access_ // last read per thread not ordered before a later write
}

type raceState struct {
	shadow map[shadowKey]*shadow
	found  map[string]Race
	keep   []unsafe.Pointer // keep instrumented objects alive so addresses are not reused
}

func newRaceState() *raceState {
	return &raceState{shadow: map[shadowKey]*shadow{}, found: map[string]Race{}}
}

func (r *raceState) list() []Race {
	out := make([]Race, 0, len(r.found))
	for _, x := range r.found {
		out = append(out, x)
	}
	sort.Slice(out, func(i, j int) bool {
		if out[i].Loc != out[j].Loc {
			return out[i].Loc < out[j].Loc
		}
		if out[i].SiteA != out[j].SiteA {
			return out[i].SiteA < out[j].SiteA
		}
		return out[i].SiteB < out[j].SiteB
	})
	return out
}

func (r *raceState) report(loc string, a, b access_, kind string) {
	sa, sb := a.site, b.site
	if sb < sa {
		sa, sb = sb, sa
	}
	key := loc + "|" + sa + "|" + sb
	if _, ok := r.found[key]; !ok {
		r.found[key] = Race{Loc: loc, SiteA: sa, SiteB: sb, Kind: kind}
	}
}

// Access records a memory access by the running thread (see access).
func Access(p unsafe.Pointer, loc string, site string, write bool) {
	access(p, 0, loc, site, write, true)
}

type shadowKey struct {
	addr uintptr
	sub  int
}

// access records an access to location (p, sub). loc names the location class
// (e.g. "Server.portListener"), site the access site ("Server.portListener@close").
// If point is set and the class is in the racy set the access is also a
// scheduling point, taken before the access.
func access(p unsafe.Pointer, sub int, loc string, site string, write bool, point bool) {
	e := cur
	if e == nil || e.aborting || e.running == nil || p == nil {
		return
	}
	if point && e.opt.Racy != nil && e.opt.Racy[loc] {
		if write {
			e.point("W " + site)
		} else {
			e.point("R " + site)
		}
	}
	rs := e.races
	if rs == nil {
		return
	}
	t := e.running
	key := shadowKey{uintptr(p), sub}
	sh := rs.shadow[key]
	if sh == nil {
		sh = &shadow{}
		rs.shadow[key] = sh
		rs.keep = append(rs.keep, p)
	}
	me := access_{tid: t.id, clock: t.vc.get(t.id), site: site}
	if sh.hasW && sh.w.tid != t.id && sh.w.clock > t.vc.get(sh.w.tid) {
		k := "read-write"
		if write {
			k = "write-write"
		}
		rs.report(loc, sh.w, me, k)
	}
	if write {
		for _, rd := range sh.reads {
			if rd.tid != t.id && rd.clock > t.vc.get(rd.tid) {
				rs.report(loc, rd, me, "read-write")
			}
		}
		sh.w, sh.hasW = me, true
		sh.reads = sh.reads[:0]
		return
	}
	for i := range sh.reads {
		if sh.reads[i].tid == t.id {
			sh.reads[i] = me
			return
		}
	}
	sh.reads = append(sh.reads, me)
}

// AccessFn is the form the instrumenter emits: addr is evaluated inside a
// closure so that a nil dereference while computing the address (which the
// original statement may have guarded against) is ignored.
func AccessFn(addr func() unsafe.Pointer, loc string, site string, write bool) {
	e := cur
	if e == nil || e.aborting || e.running == nil {
		return
	}
	var p unsafe.Pointer
	func() {
		defer func() { recover() }()
		p = addr()
	}()
	if p == nil {
		return
	}
	Access(p, loc, site, write)
}

func (r Race) String() string {
	return fmt.Sprintf("%s: %s ⟂ %s (%s)", r.Loc, r.SiteA, r.SiteB, r.Kind)
}

// R records a read of *p and returns p (expression-level instrumentation).
func R[T any](p *T, loc, site string) *T {
	if cur != nil {
		access(unsafe.Pointer(p), 0, loc, site, false, true)
	}
	return p
}

// RM records a read of the map-typed field *p and of the map's contents.
func RM[T any](p *T, loc, site string) *T {
	if cur != nil {
		access(unsafe.Pointer(p), 0, loc, site, false, true)
		access(unsafe.Pointer(p), 1, loc+"[]", loc+"[]@"+siteFunc(site), false, false)
	}
	return p
}

// RMs records a read of the contents of the map held by field *p (statement form).
func RMs[T any](p *T, loc, site string) {
	if cur != nil {
		access(unsafe.Pointer(p), 1, loc, site, false, true)
	}
}

// Pre is placed before a statement that stores to loc: a scheduling point when
// loc is in the racy set.
func Pre(loc, site string) {
	e := cur
	if e == nil || e.aborting || e.running == nil {
		return
	}
	if e.opt.Racy != nil && e.opt.Racy[loc] {
		e.point("W " + site)
	}
}

// W records a store to *p; it is placed after the storing statement.
func W[T any](p *T, loc, site string) {
	if cur != nil {
		access(unsafe.Pointer(p), 0, loc, site, true, false)
	}
}

// WM records a store into the contents of the map held by field *p.
func WM[T any](p *T, loc, site string) {
	if cur != nil {
		access(unsafe.Pointer(p), 1, loc, site, true, false)
	}
}

// mapID returns the identity of a map value (the pointer to its header).
func mapID[M any](m M) unsafe.Pointer {
	if unsafe.Sizeof(m) != unsafe.Sizeof(uintptr(0)) {
		return nil
	}
	return *(*unsafe.Pointer)(unsafe.Pointer(&m))
}

// MC records a read of the contents of map m and returns m. The location is
// the map itself, so it is the same whichever copy of the header is used.
func MC[M any](m M, loc, site string) M {
	if cur != nil {
		access(mapID(m), 1, loc, site, false, true)
	}
	return m
}

// MCs is the statement form of MC (before a range over m).
func MCs[M any](m M, loc, site string) {
	if cur != nil {
		access(mapID(m), 1, loc, site, false, true)
	}
}

// MW records a store into (or a delete from) map m; placed after the statement.
func MW[M any](m M, loc, site string) {
	if cur != nil {
		access(mapID(m), 1, loc, site, true, false)
	}
}

// SA is wrapped around the first operand of append: with spare capacity the
// appended element is stored into the array s points into (a write to that slot,
// whichever variable holds the header); without, every element is copied (reads).
func SA[S ~[]E, E any](s S, loc, site string) S {
	if cur != nil && cap(s) > 0 {
		if len(s) < cap(s) {
			access(unsafe.Pointer(&s[:len(s)+1][len(s)]), 3, loc, site, true, false)
		} else {
			for i := range s {
				access(unsafe.Pointer(&s[i]), 3, loc, site, false, false)
			}
		}
	}
	return s
}

// SR is wrapped around the operand of a value range over a slice: every element is read.
func SR[S ~[]E, E any](s S, loc, site string) S {
	if cur != nil {
		for i := range s {
			access(unsafe.Pointer(&s[i]), 3, loc, site, false, false)
		}
	}
	return s
}

func siteFunc(site string) string {
	for i := len(site) - 1; i >= 0; i-- {
		if site[i] == '@' {
			return site[i+1:]
		}
	}
	return site
}
