// Package vrt is the runtime the instrumented repository code calls into.
//
// Outside an execution (no controller installed) every entry point is a
// pass-through to the real sync / net / time primitive, plus a loop-iteration
// budget. Inside an execution started with Run, all managed goroutines are
// cooperative threads holding a baton: exactly one runs at a time, and a
// switch can happen only at a scheduling point (a synchronisation or transport
// operation, or an access to a location in the racy set). The sequence of
// choices made at those points is the schedule; Run replays a prefix of
// choices and then always takes choice 0 (keep running the current thread if
// it is enabled, else the lowest enabled id).
//
// The package uses the standard library only.
package vrt

import (
	"fmt"
	"runtime"
	"runtime/debug"
	"strings"
	"sync"
	"time"
	"unsafe"
)

// ---------------------------------------------------------------------------

// Point is one recorded choice point of an execution.
type Point struct {
	Enabled        []int  // thread ids in canonical order (running first if enabled)
	Chosen         int    // index into Enabled
	RunningEnabled bool   // true if Enabled[0] is the thread that was running
	Kind           string // what the running thread was about to do
	Env            bool   // environment choice (not a thread choice)
}

// ThreadInfo is the final state of a thread.
type ThreadInfo struct {
	ID       int
	Name     string
	Finished bool
	Parked   string // what it is parked on ("" if finished)
	Panic    string // non-empty if the thread ended by an escaped panic
	Stack    string
}

// Event is one entry of the execution log.
type Event struct {
	Step   int
	Thread int
	What   string
}

// Options configure one execution.
type Options struct {
	Choices       []int           // choice prefix to replay
	MaxSteps      int             // step cap (default 100000)
	Racy          map[string]bool // location names whose accesses are scheduling points
	LogEvents     bool
	RaceDetect    bool
	TickBudget    int64           // loop-iteration budget between scheduling points (default 2e6)
	FineReads     bool            // every connection Read is a scheduling point (no burst reduction)
	FineLoops     bool            // every loop iteration of instrumented code is a scheduling point (for code that shares state without any synchronization operation)
	EnvDeviations map[string]bool // enabled kinds of environment choice points
	Start         time.Time       // logical clock origin
}

// Result of one execution.
type Result struct {
	Points   []Point
	Threads  []ThreadInfo
	Events   []Event
	Steps    int
	StepCap  bool
	Diverged string // non-empty: the prefix could not be replayed (harness error)
	Races    []Race
	Deadline bool // watchdog fired (harness error)
}

type thread struct {
	id           int
	name         string
	wake         chan struct{}
	finished     bool
	started      bool
	blocked      func() bool // nil = runnable
	parkWhat     string
	wantQuiet    bool // enabled only when nothing else is
	orQuiet      bool // blocked on a predicate OR quiescence
	lastReadConn *Conn
	quietHit     bool
	panicMsg     string
	stack        string
	vc           vclock
	exited       chan struct{}
}

// Exec is one controlled execution.
type Exec struct {
	opt        Options
	threads    []*thread
	running    *thread
	points     []Point
	pos        int // index of next choice
	events     []Event
	steps      int
	stepCap    bool
	diverged   string
	aborting   bool
	quiesced   chan struct{}
	world      *world
	clock      time.Time
	uuidCtr    uint64
	ticks      int64
	inTimers   bool
	timers     []*vtimer
	timerSeq   int
	ticksFired int
	chans      map[unsafe.Pointer]*mchan
	atomics    map[unsafe.Pointer]*vclock
	races      *raceState
	mu         sync.Mutex // protects nothing under the baton; used by the watchdog only
}

var cur *Exec

// watchdogTimeout bounds one execution in real time; it only fires when a managed
// thread blocks on something vrt does not model. It is a harness error, never a verdict.
var watchdogTimeout = 120 * time.Second

// After the watchdog has fired once in this process the cause (something the
// runtime does not model) will most likely strike again: later executions get
// a short leash so that a broken build fails fast instead of after hours. The
// long first timeout keeps a machine that is merely overloaded from being
// mistaken for a blocked thread.
var watchdogAfterFirst = 10 * time.Second
var watchdogFired bool

// WatchdogFired reports whether an execution of this process was abandoned.
func WatchdogFired() bool { return watchdogFired }

// Active reports whether a controlled execution is in progress.
func Active() bool { return cur != nil }

type exitSignal struct{}

// Run executes body as thread 0 under the controller and returns when the
// system is quiescent (no thread enabled) or all threads finished. The
// optional atQuiescence callback runs in the caller's goroutine after
// quiescence while all threads are still parked; vrt operations it performs
// are executed directly (no scheduling).
func Run(opt Options, body func(), atQuiescence func(e *Exec)) *Result {
	if cur != nil {
		panic("vrt: nested Run")
	}
	if opt.MaxSteps == 0 {
		opt.MaxSteps = 100000
	}
	if opt.TickBudget == 0 {
		opt.TickBudget = 2000000
	}
	e := &Exec{opt: opt, quiesced: make(chan struct{}, 1), world: newWorld()}
	e.clock = opt.Start
	if e.clock.IsZero() {
		e.clock = time.Unix(1700000000, 0)
	}
	if opt.RaceDetect {
		e.races = newRaceState()
	}
	cur = e
	defer func() { cur = nil }()
	ResetRand()
	t0 := e.newThread("harness", nil)
	e.running = t0
	t0.started = true
	go e.threadMain(t0, body)

	limit := watchdogTimeout
	if watchdogFired {
		limit = watchdogAfterFirst
	}
	watchdog := time.NewTimer(limit)
	defer watchdog.Stop()
	deadline := false
	select {
	case <-e.quiesced:
	case <-watchdog.C:
		deadline = true
		watchdogFired = true
	}
	res := &Result{}
	if !deadline {
		e.running = nil
		if atQuiescence != nil {
			atQuiescence(e)
		}
	}
	res.Points = e.points
	res.Steps = e.steps
	res.StepCap = e.stepCap
	res.Diverged = e.diverged
	res.Events = e.events
	res.Deadline = deadline
	if e.races != nil {
		res.Races = e.races.list()
	}
	for _, t := range e.threads {
		ti := ThreadInfo{ID: t.id, Name: t.name, Finished: t.finished, Panic: t.panicMsg, Stack: t.stack}
		if !t.finished {
			ti.Parked = t.parkWhat
			if !t.started {
				ti.Parked = "not-started"
			}
		}
		res.Threads = append(res.Threads, ti)
	}
	if !deadline {
		e.abort()
	}
	return res
}

// abort terminates all parked threads (their deferred functions run with every
// vrt operation turned into a no-op).
func (e *Exec) abort() {
	e.aborting = true
	for _, t := range e.threads {
		if t.finished {
			continue
		}
		t.wake <- struct{}{}
		<-t.exited
	}
}

func (e *Exec) newThread(name string, parent *thread) *thread {
	t := &thread{id: len(e.threads), name: name, wake: make(chan struct{}, 1), exited: make(chan struct{})}
	if e.races != nil {
		t.vc = newVC()
		if parent != nil {
			t.vc.join(parent.vc)
			parent.vc.tick(parent.id)
		}
		t.vc.tick(t.id)
	}
	e.threads = append(e.threads, t)
	return t
}

func (e *Exec) threadMain(t *thread, body func()) {
	defer close(t.exited)
	defer func() {
		if e.aborting {
			// unwinding after abort: swallow whatever happens
			recover()
			return
		}
		if r := recover(); r != nil {
			if _, ok := r.(exitSignal); !ok {
				t.panicMsg = fmt.Sprint(r)
				t.stack = trimStack(string(debug.Stack()))
				e.log("PANIC " + t.panicMsg)
			}
		}
		t.finished = true
		e.log("exit")
		e.scheduleAway(t)
	}()
	body()
}

func trimStack(s string) string {
	lines := strings.Split(s, "\n")
	var out []string
	for _, l := range lines {
		if strings.Contains(l, "go-redis/") && !strings.Contains(l, "/vrt/") && !strings.Contains(l, "go-redis/vrt.") && !strings.HasPrefix(l, "\t") {
			l = strings.TrimSpace(l)
			if i := strings.Index(l, "("); i > 0 {
				l = l[:i]
			}
			out = append(out, l)
		}
	}
	if len(out) > 8 {
		out = out[:8]
	}
	return strings.Join(out, " <- ")
}

func (e *Exec) log(what string) {
	if e.opt.LogEvents {
		id := -1
		if e.running != nil {
			id = e.running.id
		}
		e.events = append(e.events, Event{Step: e.steps, Thread: id, What: what})
	}
}

// Log lets harness code add an entry to the execution log.
func Log(format string, a ...any) {
	if e := cur; e != nil && e.opt.LogEvents {
		e.log(fmt.Sprintf(format, a...))
	}
}

// Go starts f as a new managed thread (or a plain goroutine outside an execution).
func Go(site string, f func()) {
	e := cur
	if e == nil {
		passLive.Add(1)
		go func() {
			defer passLive.Add(-1)
			f()
		}()
		return
	}
	if e.aborting {
		return
	}
	if e.running == nil {
		panic("vrt.Go outside a managed thread during an execution")
	}
	t := e.newThread(site, e.running)
	e.log("go " + site)
	go func() {
		<-t.wake
		if e.aborting {
			close(t.exited)
			return
		}
		t.started = true
		e.threadMain(t, f)
	}()
}

func (e *Exec) enabledList() []*thread {
	var out []*thread
	r := e.running
	if r != nil && !r.finished && r.blocked == nil && !r.wantQuiet {
		out = append(out, r)
	}
	for _, t := range e.threads {
		if (t == r && r.blocked == nil) || t.finished || t.wantQuiet {
			continue // (a running thread that has just blocked is judged by its predicate like the others: a timer may satisfy it)
		}
		if t.blocked != nil && !t.blocked() {
			continue
		}
		out = append(out, t)
	}
	if len(out) == 0 && !e.inTimers && e.fireDueTimer() {
		// nothing can run: logical time jumped to the earliest pending timer
		e.inTimers = true
		out = e.enabledList()
		e.inTimers = false
		return out
	}
	if len(out) == 0 {
		// quiescence-waiters become enabled when nothing else is
		for _, t := range e.threads {
			if !t.finished && (t.wantQuiet || t.orQuiet) {
				out = append(out, t)
				break
			}
		}
	}
	return out
}

// choose picks the next thread among enabled per the prefix / default.
func (e *Exec) choose(enabled []*thread, kind string) *thread {
	if len(enabled) == 1 {
		return enabled[0]
	}
	idx := 0
	if e.pos < len(e.opt.Choices) {
		idx = e.opt.Choices[e.pos]
		if idx < 0 || idx >= len(enabled) {
			if e.diverged == "" {
				e.diverged = fmt.Sprintf("choice %d at point %d out of range (%d enabled, %s)", idx, e.pos, len(enabled), kind)
			}
			idx = 0
		}
	}
	e.pos++
	ids := make([]int, len(enabled))
	for i, t := range enabled {
		ids[i] = t.id
	}
	e.points = append(e.points, Point{Enabled: ids, Chosen: idx, RunningEnabled: enabled[0] == e.running, Kind: kind})
	return enabled[idx]
}

// EnvChoice is an environment choice point with n alternatives (0 = default).
// It does not count as a preemption.
func EnvChoice(kind string, n int) int {
	e := cur
	if e == nil || e.aborting || n <= 1 || e.running == nil {
		return 0
	}
	if kind != "select" && (e.opt.EnvDeviations == nil || !e.opt.EnvDeviations[kind]) {
		return 0 // (the choice among ready select clauses is always a choice point)
	}
	idx := 0
	if e.pos < len(e.opt.Choices) {
		idx = e.opt.Choices[e.pos]
		if idx < 0 || idx >= n {
			if e.diverged == "" {
				e.diverged = fmt.Sprintf("env choice %d at point %d out of range (%d, %s)", idx, e.pos, n, kind)
			}
			idx = 0
		}
	}
	e.pos++
	ids := make([]int, n)
	for i := range ids {
		ids[i] = -1 - i
	}
	e.points = append(e.points, Point{Enabled: ids, Chosen: idx, Kind: kind, Env: true})
	return idx
}

// point is a scheduling point executed by the running thread before a visible
// operation.
func (e *Exec) point(kind string) {
	if e.aborting {
		return
	}
	t := e.running
	if t == nil {
		return // driver context (after quiescence)
	}
	e.steps++
	e.ticks = 0
	t.lastReadConn = nil
	if e.steps > e.opt.MaxSteps {
		e.stepCap = true
		e.endExecution(t)
		return
	}
	next := e.choose(e.enabledList(), kind)
	if next != t {
		e.switchTo(t, next)
	}
}

// switchTo hands the baton from t (which stays runnable or blocked) to next
// and parks t until it is chosen again.
func (e *Exec) switchTo(t, next *thread) {
	e.running = next
	next.blocked = nil
	next.wake <- struct{}{}
	<-t.wake
	if e.aborting {
		runtime.Goexit()
	}
}

// block parks the running thread until pred holds (and the scheduler picks it).
func (e *Exec) block(pred func() bool, what string) {
	if e.aborting {
		panic("vrt: block while aborting (operation must check Aborting first)")
	}
	t := e.running
	if t == nil {
		panic("vrt: blocking operation (" + what + ") in driver context would deadlock")
	}
	t.blocked = pred
	t.parkWhat = what
	e.log("park " + what)
	e.scheduleAway(t)
	if t.finished {
		return
	}
	t.blocked = nil
	t.parkWhat = ""
}

// scheduleAway is called when the running thread cannot continue (blocked or
// finished): hand over to another enabled thread or end the execution.
func (e *Exec) scheduleAway(t *thread) {
	e.steps++
	e.ticks = 0
	enabled := e.enabledList()
	if len(enabled) == 0 {
		e.endExecution(t)
		return
	}
	next := e.choose(enabled, "switch")
	if next.wantQuiet || (next.orQuiet && next.blocked != nil && !next.blocked()) {
		next.quietHit = true
		next.wantQuiet = false
	}
	if t.finished {
		e.running = next
		next.blocked = nil
		next.wake <- struct{}{}
		return
	}
	if next == t {
		return
	}
	e.switchTo(t, next)
}

// endExecution signals the driver and parks the calling thread for good.
func (e *Exec) endExecution(t *thread) {
	e.running = nil
	select {
	case e.quiesced <- struct{}{}:
	default:
	}
	if t.finished {
		return
	}
	<-t.wake
	if e.aborting {
		runtime.Goexit()
	}
	panic("vrt: thread woken after the end of the execution")
}

// Yield is an explicit scheduling point for harness code.
func Yield(kind string) {
	if e := cur; e != nil {
		e.point(kind)
	}
}

// WaitQuiet parks the calling harness thread until no other thread is enabled.
func WaitQuiet() {
	e := cur
	if e == nil || e.running == nil || e.aborting {
		return
	}
	t := e.running
	e.steps++
	t.wantQuiet = true
	t.parkWhat = "wait-quiet"
	e.scheduleAway(t)
	t.wantQuiet = false
	t.quietHit = false
	t.parkWhat = ""
}

// ThreadID returns the id of the running managed thread (-1 outside).
func ThreadID() int {
	if e := cur; e != nil && e.running != nil {
		return e.running.id
	}
	return -1
}

// ParkedThreads lists "name:what" of threads that are parked (driver context).
func (e *Exec) ParkedThreads() []string {
	var out []string
	for _, t := range e.threads {
		if !t.finished {
			out = append(out, fmt.Sprintf("%d:%s:%s", t.id, t.name, t.parkWhat))
		}
	}
	return out
}

// ThreadStates reports the state of every thread (harness or driver context).
func (e *Exec) ThreadStates() []ThreadInfo {
	var out []ThreadInfo
	for _, t := range e.threads {
		ti := ThreadInfo{ID: t.id, Name: t.name, Finished: t.finished, Panic: t.panicMsg}
		if !t.finished {
			ti.Parked = t.parkWhat
			if !t.started {
				ti.Parked = "not-started"
			}
		}
		out = append(out, ti)
	}
	return out
}

// Step returns the number of scheduling steps executed so far (a logical clock).
func Step() int64 {
	if e := cur; e != nil {
		return int64(e.steps)
	}
	return 0
}
