package vrt

import (
	"time"
	"unsafe"
)

// Channels. The instrumenter rewrites every channel operation of the
// repository into a call below (make is left alone: the real channel value
// is only used as an identity and for its capacity). Outside an execution
// the calls perform the real operation. Inside an execution the channel is
// modelled here: buffer, closed flag and the queues of parked senders and
// receivers live in the controller, every operation is a scheduling point,
// blocking is visible to the scheduler, and the choice among several ready
// select cases is an environment choice point ("select").
//
// Happens-before for the race oracle: a send (or close) happens before the
// receive that observes it; on an unbuffered channel the receive also happens
// before the send completes.
//
// Channels that are only ever operated on by code that is not instrumented
// (timer channels, context.Done()) are "foreign": they are polled with a real
// non-blocking operation whenever the scheduler evaluates whether the waiting
// thread is enabled.

type mchan struct {
	cap    int
	buf    []chanItem
	closed bool
	vc     vclock   // released by close
	slots  []vclock // per buffer slot: released by the receive that frees it, acquired by the send that refills it
	sent   int
	rcvd   int
	sendq  []*chanWaiter
	recvq  []*chanWaiter
	native bool // created or first touched by instrumented code inside this execution
}

type chanItem struct {
	val any
	vc  vclock
}

type chanWaiter struct {
	val  any
	ok   bool
	done bool
	vc   vclock // the parked thread's clock when it parked
	peer vclock // clock handed over by the thread that completed this waiter
	sel  *selState
	idx  int
}

type selState struct {
	done bool
	idx  int
}

func chanPtr[T any](ch chan T) unsafe.Pointer    { return *(*unsafe.Pointer)(unsafe.Pointer(&ch)) }
func chanPtrS[T any](ch chan<- T) unsafe.Pointer { return *(*unsafe.Pointer)(unsafe.Pointer(&ch)) }
func chanPtrR[T any](ch <-chan T) unsafe.Pointer { return *(*unsafe.Pointer)(unsafe.Pointer(&ch)) }

func (e *Exec) mchanOf(p unsafe.Pointer, capacity int) *mchan {
	if e.chans == nil {
		e.chans = map[unsafe.Pointer]*mchan{}
	}
	c := e.chans[p]
	if c == nil {
		c = &mchan{cap: capacity}
		e.chans[p] = c
	}
	return c
}

// MakeChan marks a channel created by instrumented code (inside an execution
// such a channel is never touched for real).
func MakeChan[T any](ch chan T) chan T {
	if e := in(); e != nil && ch != nil {
		e.mchanOf(chanPtr(ch), cap(ch)).native = true
	}
	return ch
}

func (w *chanWaiter) live() bool { return !w.done && (w.sel == nil || !w.sel.done) }

func firstLive(q []*chanWaiter) *chanWaiter { return firstLiveExcl(q, nil) }

// firstLiveExcl skips the waiters of the select statement st itself (a select
// cannot communicate with its own clauses).
func firstLiveExcl(q []*chanWaiter, st *selState) *chanWaiter {
	for _, w := range q {
		if w.live() && (st == nil || w.sel != st) {
			return w
		}
	}
	return nil
}

func dropWaiter(q []*chanWaiter, w *chanWaiter) []*chanWaiter {
	for i, x := range q {
		if x == w {
			return append(q[:i:i], q[i+1:]...)
		}
	}
	return q
}

func (c *mchan) prune() {
	keep := c.sendq[:0]
	for _, w := range c.sendq {
		if w.live() {
			keep = append(keep, w)
		}
	}
	c.sendq = keep
	keep = c.recvq[:0]
	for _, w := range c.recvq {
		if w.live() {
			keep = append(keep, w)
		}
	}
	c.recvq = keep
}

func (w *chanWaiter) complete() {
	w.done = true
	if w.sel != nil {
		w.sel.done = true
		w.sel.idx = w.idx
	}
}

// handOver returns a copy of the running thread's clock and ticks it (a release).
func (e *Exec) handOver() vclock {
	var out vclock
	if e.races == nil || e.running == nil {
		return out
	}
	t := e.running
	out.copyFrom(t.vc)
	t.vc.tick(t.id)
	return out
}

func (e *Exec) takeOver(v vclock) {
	if e.races == nil || e.running == nil {
		return
	}
	e.running.vc.join(v)
}

// ---- readiness (no side effects) ----

func (c *mchan) canSend() bool { return c.canSendExcl(nil) }
func (c *mchan) canRecv() bool { return c.canRecvExcl(nil) }

func (c *mchan) canSendExcl(st *selState) bool {
	return c.closed || len(c.buf) < c.cap || firstLiveExcl(c.recvq, st) != nil
}

func (c *mchan) canRecvExcl(st *selState) bool {
	return len(c.buf) > 0 || c.closed || firstLiveExcl(c.sendq, st) != nil
}

// ---- the operations, performed by the running thread when ready ----

func (c *mchan) slot(n int) *vclock {
	if c.cap == 0 {
		return nil
	}
	if c.slots == nil {
		c.slots = make([]vclock, c.cap)
	}
	return &c.slots[n%c.cap]
}

func (e *Exec) doSend(c *mchan, v any) {
	if c.closed {
		panic("send on closed channel")
	}
	if sl := c.slot(c.sent); sl != nil {
		e.takeOver(*sl) // the receive that freed this slot happens before this send
	}
	c.sent++
	if r := firstLive(c.recvq); r != nil {
		// direct hand-off to a parked receiver
		r.val, r.ok = v, true
		r.peer = e.handOver()
		if c.cap == 0 {
			e.takeOver(r.vc) // unbuffered: the receive happens before the send completes
		} else {
			c.slot(c.rcvd).copyFrom(r.vc)
		}
		c.rcvd++
		r.complete()
		c.prune()
		return
	}
	c.buf = append(c.buf, chanItem{val: v, vc: e.handOver()})
}

func (e *Exec) doRecv(c *mchan) (any, bool) {
	if len(c.buf) > 0 {
		it := c.buf[0]
		c.buf = c.buf[1:]
		e.takeOver(it.vc)
		freed := e.handOver()
		c.slot(c.rcvd).copyFrom(freed)
		c.rcvd++
		// a sender parked on the full buffer moves its value in
		if s := firstLive(c.sendq); s != nil {
			c.buf = append(c.buf, chanItem{val: s.val, vc: s.vc})
			c.sent++
			s.peer = freed
			s.complete()
			c.prune()
		}
		return it.val, true
	}
	if s := firstLive(c.sendq); s != nil {
		v := s.val
		e.takeOver(s.vc)
		s.peer = e.handOver() // unbuffered: the receive happens before the send completes
		c.sent++
		c.rcvd++
		s.complete()
		c.prune()
		return v, true
	}
	if c.closed {
		e.takeOver(c.vc)
		return nil, false
	}
	panic("vrt: doRecv on a channel that is not ready")
}

func (e *Exec) sendBlocking(c *mchan, v any, what string) {
	e.point(what)
	if c.canSend() {
		e.doSend(c, v)
		return
	}
	w := &chanWaiter{val: v, vc: e.handOver()}
	c.sendq = append(c.sendq, w)
	e.block(func() bool { return w.done || c.closed }, what)
	if !w.done {
		c.sendq = dropWaiter(c.sendq, w)
		panic("send on closed channel")
	}
	e.takeOver(w.peer)
}

func (e *Exec) recvBlocking(c *mchan, what string) (any, bool) {
	e.point(what)
	if c.canRecv() {
		return e.doRecv(c)
	}
	w := &chanWaiter{vc: e.handOver()}
	c.recvq = append(c.recvq, w)
	e.block(func() bool { return w.done || c.canRecv() }, what)
	if w.done {
		e.takeOver(w.peer)
		return w.val, w.ok
	}
	c.recvq = dropWaiter(c.recvq, w)
	return e.doRecv(c)
}

func zeroOr[T any](v any) T {
	if v == nil {
		var z T
		return z
	}
	return v.(T)
}

// ---- foreign channels: polled for real ----

type foreignRecv[T any] struct {
	ch  <-chan T
	got bool
	val T
	ok  bool
}

func (f *foreignRecv[T]) poll() bool {
	if f.got {
		return true
	}
	select {
	case v, ok := <-f.ch:
		f.got, f.val, f.ok = true, v, ok
	default:
	}
	return f.got
}

// ---- entry points used by instrumented code ----

// Send is `ch <- v`.
func Send[T any](ch chan<- T, v T, site string) {
	e := in()
	if e == nil {
		if cur != nil {
			return // unwinding
		}
		ch <- v
		return
	}
	if ch == nil {
		e.point("chan send (nil)")
		e.block(func() bool { return false }, "send on nil channel "+site)
		return
	}
	c := e.mchanOf(chanPtrS(ch), cap(ch))
	if !c.native {
		// foreign: try for real at every evaluation
		e.point("chan send (foreign)")
		sent := false
		try := func() bool {
			if sent {
				return true
			}
			select {
			case ch <- v:
				sent = true
			default:
			}
			return sent
		}
		if !try() {
			e.block(try, "send on foreign channel "+site)
		}
		return
	}
	e.sendBlocking(c, v, "chan send "+site)
}

// Recv1 is `<-ch`.
func Recv1[T any](ch <-chan T, site string) T {
	v, _ := Recv2(ch, site)
	return v
}

// Recv2 is `v, ok := <-ch`.
func Recv2[T any](ch <-chan T, site string) (T, bool) {
	var zero T
	e := in()
	if e == nil {
		if cur != nil {
			return zero, false // unwinding
		}
		v, ok := <-ch
		return v, ok
	}
	if ch == nil {
		e.point("chan recv (nil)")
		e.block(func() bool { return false }, "receive from nil channel "+site)
		return zero, false
	}
	c := e.mchanOf(chanPtrR(ch), cap(ch))
	if !c.native {
		e.point("chan recv (foreign)")
		f := &foreignRecv[T]{ch: ch}
		if !f.poll() {
			e.block(f.poll, "receive from foreign channel "+site)
		}
		return f.val, f.ok
	}
	v, ok := e.recvBlocking(c, "chan recv "+site)
	return zeroOr[T](v), ok
}

// Close is close(ch).
func Close[T any](ch chan<- T, site string) {
	e := in()
	if e == nil {
		if cur != nil {
			return
		}
		close(ch)
		return
	}
	if ch == nil {
		panic("close of nil channel")
	}
	c := e.mchanOf(chanPtrS(ch), cap(ch))
	if !c.native {
		close(ch)
		return
	}
	e.point("chan close " + site)
	if c.closed {
		panic("close of closed channel")
	}
	c.closed = true
	c.vc = e.handOver()
	// parked receivers complete with the zero value; parked senders wake up and panic
	for _, r := range c.recvq {
		if r.live() && len(c.buf) == 0 {
			r.val, r.ok = nil, false
			r.peer.copyFrom(c.vc)
			r.complete()
		}
	}
	c.prune()
}

// ChanLen is len(ch).
func ChanLen[T any](ch chan T) int {
	e := in()
	if e == nil || ch == nil {
		return len(ch)
	}
	c := e.mchanOf(chanPtr(ch), cap(ch))
	if !c.native {
		return len(ch)
	}
	return len(c.buf)
}

// ---- select ----

// SelCase is one communication clause of a select statement.
type SelCase interface {
	ready(e *Exec, st *selState) bool
	consumed() bool // readiness was established by really performing the operation (foreign channel)
	tryReal() bool
	fire(e *Exec)
	enqueue(e *Exec, st *selState, idx int)
	dequeue(e *Exec)
	collect(e *Exec)
}

// RecvC is a receive clause.
type RecvC[T any] struct {
	ch  <-chan T
	c   *mchan
	w   *chanWaiter
	f   *foreignRecv[T]
	val T
	ok  bool
}

// SendC is a send clause.
type SendC[T any] struct {
	ch   chan<- T
	v    T
	c    *mchan
	w    *chanWaiter
	sent bool
}

// RecvCase builds the descriptor of `case ... <-ch`.
func RecvCase[T any](ch <-chan T) *RecvC[T] { return &RecvC[T]{ch: ch} }

// SendCase builds the descriptor of `case ch <- v`.
func SendCase[T any](ch chan<- T, v T) *SendC[T] { return &SendC[T]{ch: ch, v: v} }

// Val is the received value of the clause that fired.
func (r *RecvC[T]) Val() T { return r.val }

// Get is the received value and the ok flag of the clause that fired.
func (r *RecvC[T]) Get() (T, bool) { return r.val, r.ok }

func (r *RecvC[T]) bind(e *Exec) {
	if r.ch != nil && r.c == nil {
		r.c = e.mchanOf(chanPtrR(r.ch), cap(r.ch))
		if !r.c.native {
			r.f = &foreignRecv[T]{ch: r.ch}
		}
	}
}

func (r *RecvC[T]) ready(e *Exec, st *selState) bool {
	if r.ch == nil {
		return false
	}
	r.bind(e)
	if r.f != nil {
		return r.f.poll()
	}
	return r.c.canRecvExcl(st)
}

func (r *RecvC[T]) consumed() bool { return r.f != nil && r.f.got }

func (r *RecvC[T]) tryReal() bool {
	if r.ch == nil {
		return false
	}
	select {
	case v, ok := <-r.ch:
		r.val, r.ok = v, ok
		return true
	default:
		return false
	}
}

func (r *RecvC[T]) fire(e *Exec) {
	if r.f != nil {
		r.val, r.ok = r.f.val, r.f.ok
		return
	}
	v, ok := e.doRecv(r.c)
	r.val, r.ok = zeroOr[T](v), ok
}

func (r *RecvC[T]) enqueue(e *Exec, st *selState, idx int) {
	if r.ch == nil || r.f != nil {
		return
	}
	r.w = &chanWaiter{vc: e.handOver(), sel: st, idx: idx}
	r.c.recvq = append(r.c.recvq, r.w)
}

func (r *RecvC[T]) dequeue(e *Exec) {
	if r.w != nil {
		r.c.recvq = dropWaiter(r.c.recvq, r.w)
	}
}

func (r *RecvC[T]) collect(e *Exec) {
	e.takeOver(r.w.peer)
	r.val, r.ok = zeroOr[T](r.w.val), r.w.ok
}

func (s *SendC[T]) bind(e *Exec) {
	if s.ch != nil && s.c == nil {
		s.c = e.mchanOf(chanPtrS(s.ch), cap(s.ch))
	}
}

func (s *SendC[T]) ready(e *Exec, st *selState) bool {
	if s.ch == nil {
		return false
	}
	s.bind(e)
	if !s.c.native {
		return s.tryReal()
	}
	return s.c.canSendExcl(st)
}

func (s *SendC[T]) consumed() bool { return s.sent }

func (s *SendC[T]) tryReal() bool {
	if s.ch == nil {
		return false
	}
	if !s.sent {
		select {
		case s.ch <- s.v:
			s.sent = true
		default:
		}
	}
	return s.sent
}

func (s *SendC[T]) fire(e *Exec) {
	if !s.c.native {
		return
	}
	e.doSend(s.c, s.v)
}

func (s *SendC[T]) enqueue(e *Exec, st *selState, idx int) {
	if s.ch == nil || !s.c.native {
		return
	}
	s.w = &chanWaiter{val: s.v, vc: e.handOver(), sel: st, idx: idx}
	s.c.sendq = append(s.c.sendq, s.w)
}

func (s *SendC[T]) dequeue(e *Exec) {
	if s.w != nil {
		s.c.sendq = dropWaiter(s.c.sendq, s.w)
	}
}

func (s *SendC[T]) collect(e *Exec) { e.takeOver(s.w.peer) }

// SelectInterrupted is the panic value of a blocking select that was reached
// while its (aborted) thread unwinds; nothing can be communicated any more.
func SelectInterrupted() string { return "vrt: select reached while the thread unwinds" }

// Select performs a select statement over cases and returns the index of the
// clause that fired, or -1 for the default clause.
func Select(site string, hasDefault bool, cases ...SelCase) int {
	e := in()
	if e == nil {
		if cur != nil {
			if hasDefault {
				return -1
			}
			// unwinding: nothing can be communicated any more
			return -2
		}
		return realSelect(hasDefault, cases)
	}
	what := "select " + site
	e.point(what)
	for {
		var ready []int
		for i, c := range cases {
			if c.ready(e, nil) {
				if c.consumed() {
					c.fire(e)
					return i
				}
				ready = append(ready, i)
			}
		}
		if len(ready) > 0 {
			k := 0
			if len(ready) > 1 {
				k = EnvChoice("select", len(ready))
			}
			cases[ready[k]].fire(e)
			return ready[k]
		}
		if hasDefault {
			return -1
		}
		st := &selState{}
		for i, c := range cases {
			c.enqueue(e, st, i)
		}
		e.block(func() bool {
			if st.done {
				return true
			}
			for _, c := range cases {
				if c.ready(e, st) {
					return true
				}
			}
			return false
		}, what)
		for _, c := range cases {
			c.dequeue(e)
		}
		if st.done {
			cases[st.idx].collect(e)
			return st.idx
		}
		// a case became ready without a peer completing us: take it on the next round
	}
}

// realSelect is the pass-through used outside executions: a polling loop over
// real non-blocking operations (the instrumented build is never used in
// production; fairness and latency do not matter here).
func realSelect(hasDefault bool, cases []SelCase) int {
	for spin := 0; ; spin++ {
		for i, c := range cases {
			if c.tryReal() {
				return i
			}
		}
		if hasDefault {
			return -1
		}
		d := time.Duration(spin) * 20 * time.Microsecond
		if d > 2*time.Millisecond {
			d = 2 * time.Millisecond
		}
		time.Sleep(d)
	}
}
