package vrt

import (
	"errors"
	"io"
	"net"
	"os"
	"strings"
	"syscall"
	"time"
)

// world is the in-memory network of one execution.
type world struct {
	ports     map[string]*Listener
	listeners []*Listener
	conns     []*Conn
}

func newWorld() *world { return &world{ports: map[string]*Listener{}} }

func portOf(addr string) string {
	if i := strings.LastIndexByte(addr, ':'); i >= 0 {
		return addr[i+1:]
	}
	return addr
}

var errClosed = net.ErrClosed

type memAddr struct{ s string }

func (a memAddr) Network() string { return "tcp" }
func (a memAddr) String() string  { return a.s }

// Listener is an in-memory net.Listener.
type Listener struct {
	e       *Exec
	addr    string
	port    string
	closed  bool
	queue   []*Conn
	vc      vclock // dial -> accept
	closeVC vclock // close -> accept error
	Accepts int
}

// Listen replaces net.Listen in instrumented code.
func Listen(network, addr string) (net.Listener, error) {
	e := in()
	if e == nil {
		if cur != nil {
			return nil, errors.New("vrt: listen while aborting")
		}
		return net.Listen(network, addr)
	}
	e.point("Listen")
	port := portOf(addr)
	if l := e.world.ports[port]; l != nil {
		return nil, &net.OpError{Op: "listen", Net: network, Addr: memAddr{addr}, Err: syscall.EADDRINUSE}
	}
	l := &Listener{e: e, addr: addr, port: port}
	e.world.ports[port] = l
	e.world.listeners = append(e.world.listeners, l)
	e.log("listen " + port)
	return l, nil
}

func (l *Listener) Accept() (net.Conn, error) {
	e := in()
	if e == nil || e != l.e {
		return nil, errClosed
	}
	e.point("Accept")
	for {
		if l.closed {
			e.acquire(&l.closeVC)
			return nil, &net.OpError{Op: "accept", Net: "tcp", Addr: memAddr{l.addr}, Err: errClosed}
		}
		if len(l.queue) > 0 {
			c := l.queue[0]
			l.queue = l.queue[1:]
			l.Accepts++
			e.acquire(&l.vc)
			e.log("accept " + c.name)
			return c, nil
		}
		e.block(func() bool { return l.closed || len(l.queue) > 0 }, "Accept:"+l.port)
	}
}

func (l *Listener) Close() error {
	e := in()
	if e == nil || e != l.e {
		return nil
	}
	e.point("Listener.Close")
	if l.closed {
		return &net.OpError{Op: "close", Net: "tcp", Addr: memAddr{l.addr}, Err: errClosed}
	}
	l.closed = true
	e.release(&l.closeVC)
	if e.world.ports[l.port] == l {
		delete(e.world.ports, l.port)
	}
	// connections still in the backlog are reset
	for _, c := range l.queue {
		c.closed = true
		c.peer.reset = true
	}
	l.queue = nil
	e.log("listener-close " + l.port)
	return nil
}

func (l *Listener) Addr() net.Addr { return memAddr{l.addr} }

// Closed reports whether the listener was closed (driver/harness use).
func (l *Listener) Closed() bool { return l.closed }

// Conn is one end of an in-memory connection.
type Conn struct {
	e          *Exec
	name       string
	peer       *Conn
	rbuf       []byte
	rvc        vclock    // write -> read
	closeVC    vclock    // peer close -> EOF/err
	closed     bool      // closed locally
	peerClosed bool      // peer sent FIN
	peerShut   bool      // the peer shut down its sending side (CloseWrite): reads end with EOF, the connection is still open
	shut       bool      // this end shut down its sending side
	reset      bool      // peer reset the connection
	rdl, wdl   time.Time // deadlines, judged against the execution's logical clock (zero: none)
	Capacity   int       // >0: the peer's Write parks when this end holds that many unread bytes
	CloseErr   error     // non-nil: Close on this end closes the connection but reports this error (a TLS close notification that could not be sent)
	ReadCalls  int
	WriteCalls int
	CloseCalls int
	server     bool
}

// Dial connects a harness client to the in-memory listener bound to addr.
func Dial(addr string) (*Conn, error) {
	e := in()
	if e == nil {
		return nil, errors.New("vrt.Dial outside an execution")
	}
	e.point("Dial")
	port := portOf(addr)
	l := e.world.ports[port]
	if l == nil || l.closed {
		return nil, &net.OpError{Op: "dial", Net: "tcp", Addr: memAddr{addr}, Err: syscall.ECONNREFUSED}
	}
	n := len(e.world.conns) / 2
	c := &Conn{e: e, name: "c" + itoa(n)}
	s := &Conn{e: e, name: "s" + itoa(n), server: true}
	c.peer, s.peer = s, c
	e.world.conns = append(e.world.conns, c, s)
	l.queue = append(l.queue, s)
	e.releaseMerge(&l.vc)
	e.log("dial " + c.name)
	return c, nil
}

// Pipe creates a connected pair without a listener (client end, server end).
func Pipe() (*Conn, *Conn) {
	e := in()
	if e == nil {
		panic("vrt.Pipe outside an execution")
	}
	n := len(e.world.conns) / 2
	c := &Conn{e: e, name: "c" + itoa(n)}
	s := &Conn{e: e, name: "s" + itoa(n), server: true}
	c.peer, s.peer = s, c
	e.world.conns = append(e.world.conns, c, s)
	return c, s
}

func itoa(n int) string {
	if n == 0 {
		return "0"
	}
	var b []byte
	for n > 0 {
		b = append([]byte{byte('0' + n%10)}, b...)
		n /= 10
	}
	return string(b)
}

func (c *Conn) opErr(op string, err error) error {
	return &net.OpError{Op: op, Net: "tcp", Addr: memAddr{c.name}, Err: err}
}

func (c *Conn) Read(p []byte) (int, error) {
	e := in()
	if e == nil || e != c.e {
		return 0, errClosed
	}
	if len(p) == 0 {
		return 0, nil
	}
	// A read that continues a burst (the thread's previous operation was a
	// read of this connection, no other thread ran since, bytes are still
	// buffered) is not a scheduling point: it commutes with every operation
	// of the other threads except a close of this very connection, and the
	// parser under test reads byte by byte (see DESIGN.md, SCHED reductions).
	if t := e.running; t != nil && t.lastReadConn == c && len(c.rbuf) > 0 && !c.closed && !e.opt.FineReads {
		e.ticks = 0
	} else {
		e.point("Read " + c.name)
	}
	c.ReadCalls++
	for {
		if c.closed {
			return 0, c.opErr("read", errClosed)
		}
		if len(c.rbuf) > 0 {
			n := copy(p, c.rbuf)
			c.rbuf = c.rbuf[n:]
			e.acquire(&c.rvc)
			if e.running != nil {
				e.running.lastReadConn = c
			}
			return n, nil
		}
		if c.reset {
			e.acquire(&c.closeVC)
			return 0, c.opErr("read", syscall.ECONNRESET)
		}
		if c.peerClosed || c.peerShut {
			e.acquire(&c.closeVC)
			return 0, io.EOF
		}
		if c.expired(c.rdl) {
			return 0, c.opErr("read", os.ErrDeadlineExceeded)
		}
		e.block(func() bool {
			return c.closed || len(c.rbuf) > 0 || c.reset || c.peerClosed || c.peerShut || c.expired(c.rdl)
		}, "Read:"+c.name)
	}
}

// ReadOrQuiet is Read for harness clients: it returns quiet=true instead of
// parking forever when the whole system is quiescent and no data arrived.
func (c *Conn) ReadOrQuiet(p []byte) (n int, quiet bool, err error) {
	e := in()
	if e == nil || e != c.e {
		return 0, false, errClosed
	}
	e.point("Read " + c.name)
	c.ReadCalls++
	for {
		if c.closed {
			return 0, false, c.opErr("read", errClosed)
		}
		if len(c.rbuf) > 0 {
			n := copy(p, c.rbuf)
			c.rbuf = c.rbuf[n:]
			e.acquire(&c.rvc)
			return n, false, nil
		}
		if c.reset {
			e.acquire(&c.closeVC)
			return 0, false, c.opErr("read", syscall.ECONNRESET)
		}
		if c.peerClosed || c.peerShut {
			e.acquire(&c.closeVC)
			return 0, false, io.EOF
		}
		t := e.running
		t.wantQuiet = false
		t.blocked = func() bool { return c.closed || len(c.rbuf) > 0 || c.reset || c.peerClosed || c.peerShut }
		t.parkWhat = "Read:" + c.name
		t.orQuiet = true
		e.log("park Read:" + c.name)
		e.scheduleAway(t)
		t.orQuiet = false
		t.blocked = nil
		t.parkWhat = ""
		if t.quietHit {
			t.quietHit = false
			return 0, true, nil
		}
	}
}

func (c *Conn) Write(p []byte) (int, error) {
	e := in()
	if e == nil || e != c.e {
		return 0, errClosed
	}
	e.point("Write " + c.name)
	c.WriteCalls++
	for {
		if c.closed || c.shut {
			return 0, c.opErr("write", errClosed)
		}
		if c.reset {
			return 0, c.opErr("write", syscall.ECONNRESET)
		}
		if c.peer.closed {
			return 0, c.opErr("write", syscall.EPIPE)
		}
		if c.expired(c.wdl) {
			return 0, c.opErr("write", os.ErrDeadlineExceeded)
		}
		if c.peer.Capacity > 0 && len(c.peer.rbuf) >= c.peer.Capacity {
			e.block(func() bool {
				return c.closed || c.reset || c.peer.closed || len(c.peer.rbuf) < c.peer.Capacity || c.expired(c.wdl)
			}, "Write:"+c.name)
			continue
		}
		break
	}
	c.peer.rbuf = append(c.peer.rbuf, p...)
	e.releaseMerge(&c.peer.rvc)
	return len(p), nil
}

func (c *Conn) Close() error {
	e := in()
	if e == nil || e != c.e {
		return nil
	}
	e.point("Close " + c.name)
	c.CloseCalls++
	if c.closed {
		return c.opErr("close", errClosed)
	}
	c.closed = true
	c.peer.peerClosed = true
	e.releaseMerge(&c.peer.closeVC)
	e.log("close " + c.name)
	if c.CloseErr != nil {
		return c.opErr("close", c.CloseErr)
	}
	return nil
}

// CloseWrite shuts down the sending side of this end, as (*net.TCPConn).CloseWrite and
// (*tls.Conn).CloseWrite do: the peer's reads end with EOF, this end can still read, the
// connection stays open until Close.
func (c *Conn) CloseWrite() error {
	e := in()
	if e == nil || e != c.e {
		return nil
	}
	e.point("CloseWrite " + c.name)
	if c.closed {
		return c.opErr("close", errClosed)
	}
	c.shut = true
	c.peer.peerShut = true
	e.releaseMerge(&c.peer.closeVC)
	e.log("closewrite " + c.name)
	return nil
}

// Reset closes this end abruptly: the peer's reads fail with ECONNRESET.
func (c *Conn) Reset() {
	e := in()
	if e == nil || e != c.e {
		return
	}
	e.point("Reset " + c.name)
	c.closed = true
	c.peer.reset = true
	c.peer.rbuf = nil
	e.releaseMerge(&c.peer.closeVC)
	e.log("reset " + c.name)
}

func (c *Conn) LocalAddr() net.Addr  { return memAddr{c.name} }
func (c *Conn) RemoteAddr() net.Addr { return memAddr{c.peer.name} }

// Deadlines are kept and judged against the logical clock (vrt.Now / vrt.Advance): an
// operation started at or after its deadline fails with a timeout error, as on a net.Conn.
func (c *Conn) SetDeadline(t time.Time) error      { c.rdl, c.wdl = t, t; return nil }
func (c *Conn) SetReadDeadline(t time.Time) error  { c.rdl = t; return nil }
func (c *Conn) SetWriteDeadline(t time.Time) error { c.wdl = t; return nil }

func (c *Conn) expired(dl time.Time) bool {
	return !dl.IsZero() && c.e != nil && !c.e.clock.Before(dl)
}

// Name identifies the connection end ("c3" client / "s3" server).
func (c *Conn) Name() string { return c.name }

// ClosedLocally reports whether Close was called on this end.
func (c *Conn) ClosedLocally() bool { return c.closed }

// PeerClosed reports whether the other end closed or reset the connection.
func (c *Conn) PeerClosed() bool { return c.peerClosed || c.reset }

// Peer returns the other end.
func (c *Conn) Peer() *Conn { return c.peer }

// Buffered is the number of unread bytes waiting at this end.
func (c *Conn) Buffered() int { return len(c.rbuf) }

// World inspection for oracles (driver context).

// PortBound reports whether an unclosed listener holds the port.
func (e *Exec) PortBound(port string) bool { return e.world.ports[port] != nil }

// ServerConns returns the server ends of all connections created so far.
func (e *Exec) ServerConns() []*Conn {
	var out []*Conn
	for _, c := range e.world.conns {
		if c.server {
			out = append(out, c)
		}
	}
	return out
}

// Backlog returns the number of dialled-but-not-accepted connections on port.
func (e *Exec) Backlog(port string) int {
	if l := e.world.ports[port]; l != nil {
		return len(l.queue)
	}
	return 0
}

// Cur returns the active execution (nil outside).
func Cur() *Exec { return cur }
