package vrt

import (
	"sort"
	"time"
)

// Virtual time. The instrumenter maps time.Sleep / After / AfterFunc /
// NewTimer / NewTicker / Tick / Since / Until and the types time.Timer and
// time.Ticker onto this file. Outside an execution they are the real thing.
// Inside an execution time is logical: the clock only moves when no thread is
// enabled, and then jumps to the earliest pending timer, which fires (discrete
// event simulation). A timeout therefore fires exactly when the system would
// otherwise be stuck or idle - "eventually", as a timeout promises - and never
// races with activity that is still in progress (that race is not explored;
// DESIGN.md section 0). Timers further than TimerHorizon in the logical future
// (idle timeouts, periodic housekeeping) do not fire within an execution.

// TimerHorizon bounds how far the logical clock may jump to fire a timer.
var TimerHorizon = 30 * time.Second

type vtimer struct {
	when   time.Time
	active bool
	seq    int
	period time.Duration // ticker
	ch     chan time.Time
	fn     func()
	sleep  *bool // Sleep: set to true when the time has come
}

// Timer replaces time.Timer.
type Timer struct {
	C    <-chan time.Time
	real *time.Timer
	v    *vtimer
}

// Ticker replaces time.Ticker.
type Ticker struct {
	C    <-chan time.Time
	real *time.Ticker
	v    *vtimer
}

func (e *Exec) addTimer(d time.Duration, v *vtimer) *vtimer {
	if d < 0 {
		d = 0
	}
	e.timerSeq++
	v.when, v.active, v.seq = e.clock.Add(d), true, e.timerSeq
	e.timers = append(e.timers, v)
	return v
}

// fireDueTimer is called by the scheduler when no thread is enabled: the
// earliest active timer within the horizon fires. It reports whether one did.
func (e *Exec) fireDueTimer() bool {
	var live []*vtimer
	for _, v := range e.timers {
		if v.active {
			live = append(live, v)
		}
	}
	e.timers = live
	if len(live) == 0 {
		return false
	}
	sort.SliceStable(live, func(i, j int) bool {
		if !live[i].when.Equal(live[j].when) {
			return live[i].when.Before(live[j].when)
		}
		return live[i].seq < live[j].seq
	})
	v := live[0]
	if v.when.Sub(e.clock) > TimerHorizon {
		return false
	}
	if v.when.After(e.clock) {
		e.clock = v.when
	}
	if v.period > 0 {
		v.when = v.when.Add(v.period)
		// a ticker keeps firing: bound the number of ticks per execution
		e.ticksFired++
		if e.ticksFired > 64 {
			v.active = false
		}
	} else {
		v.active = false
	}
	e.log("timer fires")
	switch {
	case v.sleep != nil:
		*v.sleep = true
	case v.fn != nil:
		e.spawnDetached("timer", v.fn)
	case v.ch != nil:
		c := e.mchanOf(chanPtr(v.ch), cap(v.ch))
		c.native = true
		if r := firstLive(c.recvq); r != nil {
			r.val, r.ok = e.clock, true
			r.complete()
			c.prune()
		} else if len(c.buf) < c.cap {
			c.buf = append(c.buf, chanItem{val: e.clock})
		}
	}
	return true
}

// spawnDetached creates a managed thread from scheduler context.
func (e *Exec) spawnDetached(name string, f func()) {
	t := e.newThread(name, nil)
	go func() {
		<-t.wake
		if e.aborting {
			close(t.exited)
			return
		}
		t.started = true
		e.threadMain(t, f)
	}()
}

// Sleep replaces time.Sleep.
func Sleep(d time.Duration) {
	e := in()
	if e == nil {
		if cur != nil {
			return
		}
		time.Sleep(d)
		return
	}
	if e.running == nil {
		return
	}
	woken := false
	e.addTimer(d, &vtimer{sleep: &woken})
	e.point("Sleep")
	for !woken {
		e.block(func() bool { return woken }, "Sleep")
	}
}

// After replaces time.After.
func After(d time.Duration) <-chan time.Time {
	e := in()
	if e == nil {
		return time.After(d)
	}
	ch := MakeChan(make(chan time.Time, 1))
	e.addTimer(d, &vtimer{ch: ch})
	return ch
}

// NewTimer replaces time.NewTimer.
func NewTimer(d time.Duration) *Timer {
	e := in()
	if e == nil {
		rt := time.NewTimer(d)
		return &Timer{C: rt.C, real: rt}
	}
	ch := MakeChan(make(chan time.Time, 1))
	return &Timer{C: ch, v: e.addTimer(d, &vtimer{ch: ch})}
}

// AfterFunc replaces time.AfterFunc.
func AfterFunc(d time.Duration, f func()) *Timer {
	e := in()
	if e == nil {
		return &Timer{real: time.AfterFunc(d, f)}
	}
	return &Timer{v: e.addTimer(d, &vtimer{fn: f})}
}

// Stop prevents the timer from firing; it reports whether it was still pending.
func (t *Timer) Stop() bool {
	if t.real != nil {
		return t.real.Stop()
	}
	if t.v == nil {
		return false
	}
	was := t.v.active
	t.v.active = false
	return was
}

// Reset re-arms the timer.
func (t *Timer) Reset(d time.Duration) bool {
	if t.real != nil {
		return t.real.Reset(d)
	}
	e := in()
	if e == nil || t.v == nil {
		return false
	}
	was := t.v.active
	t.v.active = false
	nv := *t.v
	t.v = e.addTimer(d, &nv)
	return was
}

// NewTicker replaces time.NewTicker.
func NewTicker(d time.Duration) *Ticker {
	e := in()
	if e == nil {
		rt := time.NewTicker(d)
		return &Ticker{C: rt.C, real: rt}
	}
	if d <= 0 {
		panic("non-positive interval for NewTicker")
	}
	ch := MakeChan(make(chan time.Time, 1))
	return &Ticker{C: ch, v: e.addTimer(d, &vtimer{ch: ch, period: d})}
}

// TimeTick replaces time.Tick.
func TimeTick(d time.Duration) <-chan time.Time {
	if d <= 0 {
		return nil
	}
	return NewTicker(d).C
}

// Stop turns the ticker off.
func (t *Ticker) Stop() {
	if t.real != nil {
		t.real.Stop()
		return
	}
	if t.v != nil {
		t.v.active = false
	}
}

// Reset changes the ticker's period.
func (t *Ticker) Reset(d time.Duration) {
	if t.real != nil {
		t.real.Reset(d)
		return
	}
	e := in()
	if e == nil || t.v == nil {
		return
	}
	t.v.active = false
	nv := *t.v
	nv.period = d
	t.v = e.addTimer(d, &nv)
}

// Since replaces time.Since (the logical clock inside an execution).
func Since(t time.Time) time.Duration { return Now().Sub(t) }

// Until replaces time.Until.
func Until(t time.Time) time.Duration { return t.Sub(Now()) }
