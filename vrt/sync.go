package vrt

import (
	"fmt"
	"sync"
	"sync/atomic"
	"unsafe"
)

// in reports the active execution if the caller must go through the
// controller; nil means pass-through (no execution, or unwinding after abort).
func in() *Exec {
	e := cur
	if e == nil || e.aborting {
		return nil
	}
	return e
}

// Solo mode (SEQ runs): the harness drives the code under test on one
// goroutine outside any execution, where the shims pass through to the real
// primitives. A lock that is not available there can never become available -
// the only goroutine that could release it is the one asking - unless the code
// has started goroutines of its own (counted by Go). Such a self-deadlock is
// turned into a panic the harness reports, instead of a hang.
var (
	solo     atomic.Bool
	passLive atomic.Int32
)

// SoloDeadlock is the panic value of a self-deadlock detected in solo mode.
type SoloDeadlock struct{ Op string }

func (d SoloDeadlock) Error() string {
	return "vrt: deadlock: " + d.Op + " would block forever (the lock is held and this is the only goroutine)"
}

// Solo switches solo mode on or off and returns the previous setting.
func Solo(on bool) bool { return solo.Swap(on) }

func soloStuck(op string) {
	if solo.Load() && passLive.Load() == 0 {
		panic(SoloDeadlock{Op: op})
	}
}

// Mutex replaces sync.Mutex in instrumented code.
type Mutex struct {
	mu      sync.Mutex
	held    bool
	vc      vclock
	virtual bool
}

func (m *Mutex) Lock() {
	e := in()
	if e == nil {
		if cur != nil {
			return // unwinding: no-op
		}
		if !m.mu.TryLock() {
			soloStuck("Mutex.Lock")
			m.mu.Lock()
		}
		return
	}
	e.point("Mutex.Lock")
	for m.held {
		e.block(func() bool { return !m.held }, "Mutex.Lock")
	}
	m.held = true
	e.acquire(&m.vc)
}

func (m *Mutex) TryLock() bool {
	e := in()
	if e == nil {
		if cur != nil {
			return true
		}
		return m.mu.TryLock()
	}
	e.point("Mutex.TryLock")
	if m.held {
		return false
	}
	m.held = true
	e.acquire(&m.vc)
	return true
}

func (m *Mutex) Unlock() {
	e := in()
	if e == nil {
		if cur != nil {
			return
		}
		m.mu.Unlock()
		return
	}
	// a release is a left mover (it never blocks and only enables others): no
	// scheduling point is needed before it, the next point of this thread follows it
	if !m.held {
		panic("sync: unlock of unlocked mutex")
	}
	e.release(&m.vc)
	m.held = false
}

// RWMutex replaces sync.RWMutex in instrumented code.
type RWMutex struct {
	mu      sync.RWMutex
	writer  bool
	wwait   int // writers parked in Lock: as in sync.RWMutex they exclude NEW readers
	readers int
	wvc     vclock // released by writers, acquired by everyone
	rvc     vclock // released by readers, acquired by writers
}

func (m *RWMutex) Lock() {
	e := in()
	if e == nil {
		if cur != nil {
			return
		}
		if !m.mu.TryLock() {
			soloStuck("RWMutex.Lock")
			m.mu.Lock()
		}
		return
	}
	e.point("RWMutex.Lock")
	if m.writer || m.readers > 0 {
		m.wwait++
		for m.writer || m.readers > 0 {
			e.block(func() bool { return !m.writer && m.readers == 0 }, "RWMutex.Lock")
		}
		m.wwait--
	}
	m.writer = true
	e.acquire(&m.wvc)
	e.acquire(&m.rvc)
}

func (m *RWMutex) Unlock() {
	e := in()
	if e == nil {
		if cur != nil {
			return
		}
		m.mu.Unlock()
		return
	}
	// a release is a left mover (it never blocks and only enables others): no
	// scheduling point is needed before it, the next point of this thread follows it
	if !m.writer {
		panic("sync: Unlock of unlocked RWMutex")
	}
	e.release(&m.wvc)
	m.writer = false
}

func (m *RWMutex) RLock() {
	e := in()
	if e == nil {
		if cur != nil {
			return
		}
		if !m.mu.TryRLock() {
			soloStuck("RWMutex.RLock")
			m.mu.RLock()
		}
		return
	}
	e.point("RWMutex.RLock")
	// "If any goroutine calls Lock while the lock is already held by one or more readers,
	// concurrent calls to RLock will block until the writer has acquired (and released) the
	// lock" - which is what makes recursive read locking a deadlock
	for m.writer || m.wwait > 0 {
		e.block(func() bool { return !m.writer && m.wwait == 0 }, "RWMutex.RLock")
	}
	m.readers++
	e.acquire(&m.wvc)
}

func (m *RWMutex) RUnlock() {
	e := in()
	if e == nil {
		if cur != nil {
			return
		}
		m.mu.RUnlock()
		return
	}
	// a release is a left mover (it never blocks and only enables others): no
	// scheduling point is needed before it, the next point of this thread follows it
	if m.readers <= 0 {
		panic("sync: RUnlock of unlocked RWMutex")
	}
	e.releaseMerge(&m.rvc)
	m.readers--
}

func (m *RWMutex) RLocker() sync.Locker { return (*rlocker)(m) }

type rlocker RWMutex

func (r *rlocker) Lock()   { (*RWMutex)(r).RLock() }
func (r *rlocker) Unlock() { (*RWMutex)(r).RUnlock() }

// Map replaces sync.Map in instrumented code. Storage is a real sync.Map;
// under the controller every operation is a scheduling point and carries the
// per-key happens-before edges sync.Map documents.
type Map struct {
	m   sync.Map
	kvc sync.Map // key -> *vclock (only touched under the baton)
}

func (m *Map) keyVC(key any) *vclock {
	v, _ := m.kvc.LoadOrStore(key, &vclock{})
	return v.(*vclock)
}

func (m *Map) pre(kind string, key any) *Exec {
	e := in()
	if e == nil {
		return nil
	}
	e.point(kind)
	return e
}

func (m *Map) Load(key any) (any, bool) {
	if e := m.pre("Map.Load", key); e != nil && e.races != nil {
		defer e.acquire(m.keyVC(key))
	}
	return m.m.Load(key)
}

func (m *Map) Store(key, value any) {
	if e := m.pre("Map.Store", key); e != nil && e.races != nil {
		e.releaseMerge(m.keyVC(key))
	}
	m.m.Store(key, value)
}

func (m *Map) LoadOrStore(key, value any) (any, bool) {
	if e := m.pre("Map.LoadOrStore", key); e != nil && e.races != nil {
		e.acquire(m.keyVC(key))
		e.releaseMerge(m.keyVC(key))
	}
	return m.m.LoadOrStore(key, value)
}

func (m *Map) LoadAndDelete(key any) (any, bool) {
	if e := m.pre("Map.LoadAndDelete", key); e != nil && e.races != nil {
		e.acquire(m.keyVC(key))
		e.releaseMerge(m.keyVC(key))
	}
	return m.m.LoadAndDelete(key)
}

func (m *Map) Delete(key any) {
	if e := m.pre("Map.Delete", key); e != nil && e.races != nil {
		e.releaseMerge(m.keyVC(key))
	}
	m.m.Delete(key)
}

func (m *Map) Swap(key, value any) (any, bool) {
	if e := m.pre("Map.Swap", key); e != nil && e.races != nil {
		e.acquire(m.keyVC(key))
		e.releaseMerge(m.keyVC(key))
	}
	return m.m.Swap(key, value)
}

func (m *Map) CompareAndSwap(key, old, new any) bool {
	if e := m.pre("Map.CompareAndSwap", key); e != nil && e.races != nil {
		e.acquire(m.keyVC(key))
		e.releaseMerge(m.keyVC(key))
	}
	return m.m.CompareAndSwap(key, old, new)
}

func (m *Map) CompareAndDelete(key, old any) bool {
	if e := m.pre("Map.CompareAndDelete", key); e != nil && e.races != nil {
		e.acquire(m.keyVC(key))
		e.releaseMerge(m.keyVC(key))
	}
	return m.m.CompareAndDelete(key, old)
}

// Range visits the entries in a deterministic order under the controller
// (sorted by the printed key), so that iteration order is not a hidden source
// of nondeterminism.
func (m *Map) Range(f func(key, value any) bool) {
	e := m.pre("Map.Range", nil)
	type kv struct {
		k, v any
		s    string
	}
	var all []kv
	m.m.Range(func(k, v any) bool {
		all = append(all, kv{k, v, fmt.Sprint(k)})
		return true
	})
	sortSlice(len(all), func(i, j int) bool { return all[i].s < all[j].s }, func(i, j int) { all[i], all[j] = all[j], all[i] })
	for _, x := range all {
		if e != nil && e.races != nil {
			e.acquire(m.keyVC(x.k))
		}
		if !f(x.k, x.v) {
			break
		}
	}
}

func (m *Map) Clear() {
	m.pre("Map.Clear", nil)
	m.m.Range(func(k, _ any) bool {
		m.m.Delete(k)
		return true
	})
}

func sortSlice(n int, less func(i, j int) bool, swap func(i, j int)) {
	// insertion sort: n is tiny
	for i := 1; i < n; i++ {
		for j := i; j > 0 && less(j, j-1); j-- {
			swap(j, j-1)
		}
	}
}

// WaitGroup replaces sync.WaitGroup in instrumented code.
type WaitGroup struct {
	wg      sync.WaitGroup
	n       int
	waiters int
	vc      vclock
}

func (w *WaitGroup) Add(delta int) {
	e := in()
	if e == nil {
		if cur != nil {
			return
		}
		w.wg.Add(delta)
		return
	}
	e.point("WaitGroup.Add")
	w.n += delta
	if w.n < 0 {
		panic("sync: negative WaitGroup counter")
	}
	if delta > 0 && w.n == delta {
		// The first increment must be synchronized with Wait. As the Go race detector
		// does, it is modelled as a read of a location that a blocking Wait writes
		// (several concurrent first increments do not race with each other).
		access(unsafe.Pointer(w), 1, "sync.WaitGroup(Add from zero / Wait)", "WaitGroup.Add(first)", false, false)
	}
	if w.n == 0 {
		w.waiters = 0
	}
	if delta < 0 {
		e.releaseMerge(&w.vc)
	}
}

func (w *WaitGroup) Done() { w.Add(-1) }

func (w *WaitGroup) Wait() {
	e := in()
	if e == nil {
		if cur != nil {
			return
		}
		w.wg.Wait()
		return
	}
	e.point("WaitGroup.Wait")
	if w.n > 0 {
		if w.waiters == 0 {
			access(unsafe.Pointer(w), 1, "sync.WaitGroup(Add from zero / Wait)", "WaitGroup.Wait", true, false)
		}
		w.waiters++
	}
	for w.n > 0 {
		e.block(func() bool { return w.n <= 0 }, "WaitGroup.Wait")
	}
	e.acquire(&w.vc)
}

// Once replaces sync.Once in instrumented code.
type Once struct {
	once sync.Once
	done bool
	busy bool
	vc   vclock
}

func (o *Once) Do(f func()) {
	e := in()
	if e == nil {
		if cur != nil {
			if !o.done {
				o.done = true
				f()
			}
			return
		}
		o.once.Do(f)
		return
	}
	e.point("Once.Do")
	for o.busy {
		e.block(func() bool { return !o.busy }, "Once.Do")
	}
	if o.done {
		e.acquire(&o.vc)
		return
	}
	o.busy = true
	defer func() {
		o.done = true
		o.busy = false
		e.release(&o.vc)
	}()
	f()
}

// Cond replaces sync.Cond in instrumented code.
type Cond struct {
	L       sync.Locker
	real    *sync.Cond
	waiters []*condWaiter
	vc      vclock
}

type condWaiter struct{ signalled bool }

// NewCond replaces sync.NewCond.
func NewCond(l sync.Locker) *Cond { return &Cond{L: l, real: sync.NewCond(l)} }

func (c *Cond) Wait() {
	e := in()
	if e == nil {
		if cur != nil {
			return
		}
		c.real.Wait()
		return
	}
	w := &condWaiter{}
	c.waiters = append(c.waiters, w)
	c.L.Unlock()
	e.point("Cond.Wait")
	for !w.signalled {
		e.block(func() bool { return w.signalled }, "Cond.Wait")
	}
	e.acquire(&c.vc)
	c.L.Lock()
}

func (c *Cond) Signal() {
	e := in()
	if e == nil {
		if cur != nil {
			return
		}
		c.real.Signal()
		return
	}
	e.point("Cond.Signal")
	e.releaseMerge(&c.vc)
	if len(c.waiters) > 0 {
		c.waiters[0].signalled = true
		c.waiters = c.waiters[1:]
	}
}

func (c *Cond) Broadcast() {
	e := in()
	if e == nil {
		if cur != nil {
			return
		}
		c.real.Broadcast()
		return
	}
	e.point("Cond.Broadcast")
	e.releaseMerge(&c.vc)
	for _, w := range c.waiters {
		w.signalled = true
	}
	c.waiters = nil
}

// A wraps the receiver (or the pointer argument) of a sync/atomic operation:
// the operation that follows is a scheduling point and, for the race oracle,
// an acquire and a release on the word it touches.
func A[T any](p *T, site string) *T {
	if e := in(); e != nil && e.running != nil {
		e.point("atomic " + site)
		if e.races != nil {
			if e.atomics == nil {
				e.atomics = map[unsafe.Pointer]*vclock{}
			}
			vc := e.atomics[unsafe.Pointer(p)]
			if vc == nil {
				vc = &vclock{}
				e.atomics[unsafe.Pointer(p)] = vc
			}
			e.acquire(vc)
			e.releaseMerge(vc)
		}
	}
	return p
}
