package srv

import (
	"crypto/tls"
	"fmt"
	"runtime/debug"
	"strings"
	"time"

	"github.com/cybergarage/go-redis/redis"
	"github.com/cybergarage/go-redis/vrt"
	"verif/seq"
)

// Outcome is what one single-connection run through the real connection loop
// produced.
type Outcome struct {
	Reply     []byte
	Panic     string // non-empty: a panic escaped the connection loop (process abort in production)
	PanicSite string // first repository frame of the panic stack
	Spin      string // non-empty: loop budget exceeded (site)
	Deadlock  string // non-empty: the loop would block forever on a lock it holds itself (operation)
	Err       string // error returned by the loop
	Returned  bool   // the loop returned (normally or by panic)
	Closes    int
	ClosedAt  int
	// EndSeenAtClose: the server closed the connection only after the end of the
	// stream had been reported to it
	EndSeenAtClose bool
	Writes         int
	ConnsLeft      int // Server.Conns() after the loop returned
}

// FixedClock is the instant instrumented code sees as time.Now() in SEQ runs.
var FixedClock = time.Unix(1700000000, 0)

// RunConn drives one scripted connection through server.VerifServeConn.
func RunConn(server *redis.Server, conn *seq.Conn) (out Outcome) {
	return RunConnTLS(server, conn, nil)
}

// NoRegistryProbe makes RunConn leave the server's registry alone after the
// run (Outcome.ConnsLeft stays 0): for checks in which the application must not
// look at the registry between two connections.
var NoRegistryProbe bool

// RunConnTLS is RunConn for a connection the server takes for a TLS one:
// tlsState (non-nil) is what the accept path would have obtained from the
// finished handshake.
func RunConnTLS(server *redis.Server, conn *seq.Conn, tlsState *tls.ConnectionState) (out Outcome) {
	vrt.SetSeqClock(FixedClock)
	vrt.ResetRand()
	vrt.ResetTicks()
	vrt.ResetSeqAllowance()
	inner := conn.OnRead
	conn.OnRead = func(delivered int, starving bool) {
		if !starving {
			vrt.ResetTicks()
		}
		if inner != nil {
			inner(delivered, starving)
		}
	}
	func() {
		defer func() {
			if r := recover(); r != nil {
				if be, ok := r.(vrt.BudgetExceeded); ok {
					out.Spin = be.Site
					return
				}
				if d, ok := r.(vrt.SoloDeadlock); ok {
					out.Deadlock = d.Op
				}
				out.Panic = firstLine(fmt.Sprint(r))
				out.PanicSite = PanicSite(string(debug.Stack()))
			}
		}()
		defer vrt.Solo(vrt.Solo(true))
		err := server.VerifServeConn(conn, tlsState)
		if err != nil {
			out.Err = err.Error()
		}
	}()
	out.Returned = true
	out.Reply = conn.Out
	out.Closes = conn.Closes
	out.ClosedAt = conn.ClosedAt
	out.EndSeenAtClose = conn.EndSeenAtClose
	out.Writes = conn.Writes
	if NoRegistryProbe {
		return out
	}
	func() {
		defer func() { recover() }()
		out.ConnsLeft = len(server.Conns())
	}()
	return out
}

func firstLine(s string) string {
	if i := strings.IndexByte(s, '\n'); i >= 0 {
		s = s[:i]
	}
	if len(s) > 200 {
		s = s[:200]
	}
	return s
}

// PanicSite extracts the first frame inside the repository from a stack dump,
// as a function name without line numbers (stable under unrelated edits).
func PanicSite(stack string) string {
	lines := strings.Split(stack, "\n")
	for _, l := range lines {
		if strings.HasPrefix(l, "\t") {
			continue
		}
		if !strings.Contains(l, "cybergarage/go-redis/") || strings.Contains(l, "go-redis/vrt.") {
			continue
		}
		if strings.Contains(l, "VerifServeConn") {
			continue
		}
		l = strings.TrimSpace(l)
		if i := strings.LastIndex(l, "("); i > 0 {
			l = l[:i]
		}
		l = strings.TrimPrefix(l, "github.com/cybergarage/go-redis/")
		return l
	}
	return "?"
}

// NewServer returns a framework server with the given handler installed.
func NewServer(h redis.UserCommandHandler) *redis.Server {
	s := redis.NewServer()
	s.SetCommandHandler(h)
	return s
}
