package srv

import (
	"context"
	"fmt"

	"github.com/cybergarage/go-tracing/tracer"
	"github.com/cybergarage/go-tracing/tracer/common"
)

// SpanEvent is one start/finish event recorded by the tracer double.
type SpanEvent struct {
	Kind   string // "start" | "finish"
	ID     int
	Parent int // -1 for roots
	Name   string
}

// Tracer is a recording tracer.Tracer whose contexts are the library's own
// span-stack contexts (common.NewSpanContextWith) around recording spans.
type Tracer struct {
	Events []SpanEvent
	n      int
}

func NewTracer() *Tracer { return &Tracer{} }

type recSpan struct {
	t      *Tracer
	id     int
	parent int
	name   string
}

func (t *Tracer) newSpan(name string, parent int) *recSpan {
	s := &recSpan{t: t, id: t.n, parent: parent, name: name}
	t.n++
	t.Events = append(t.Events, SpanEvent{Kind: "start", ID: s.id, Parent: parent, Name: name})
	return s
}

func (s *recSpan) SetTag(key string, value any) {}
func (s *recSpan) Finish() {
	s.t.Events = append(s.t.Events, SpanEvent{Kind: "finish", ID: s.id, Parent: s.parent, Name: s.name})
}
func (s *recSpan) Context() context.Context { return context.Background() }
func (s *recSpan) StartSpan(name string) tracer.Context {
	return common.NewSpanContextWith(s.t.newSpan(name, s.id))
}

func (t *Tracer) SetPackageName(name string)  {}
func (t *Tracer) SetServiceName(name string)  {}
func (t *Tracer) SetEndpoint(endpoint string) {}
func (t *Tracer) PackageName() string         { return "verif" }
func (t *Tracer) ServiceName() string         { return "verif" }
func (t *Tracer) Endpoint() string            { return "" }
func (t *Tracer) Start() error                { return nil }
func (t *Tracer) Stop() error                 { return nil }
func (t *Tracer) StartSpan(name string) tracer.Context {
	return common.NewSpanContextWith(t.newSpan(name, -1))
}

var _ tracer.Tracer = (*Tracer)(nil)

// CheckSpans replays the event log against the span discipline. It returns
// "" if balanced, else (clause, detail). roots is the number of root spans.
func CheckSpans(ev []SpanEvent) (clause, detail string, roots int) {
	type st struct {
		started, finished bool
		parent            int
		name              string
		openChildren      int
	}
	spans := map[int]*st{}
	openRoot := -1
	for i, e := range ev {
		switch e.Kind {
		case "start":
			spans[e.ID] = &st{started: true, parent: e.Parent, name: e.Name}
			if e.Parent < 0 {
				roots++
				if openRoot >= 0 {
					return "root-overlap", fmt.Sprintf("event %d: root span #%d started while root #%d (%s) is still open", i, e.ID, openRoot, spans[openRoot].name), roots
				}
				openRoot = e.ID
			} else {
				p := spans[e.Parent]
				if p == nil || !p.started {
					return "child-before-parent", fmt.Sprintf("event %d: span %s starts under a parent that has not started", i, e.Name), roots
				}
				if p.finished {
					return "child-after-parent-finished", fmt.Sprintf("event %d: span %q starts under parent %q which is already finished", i, e.Name, p.name), roots
				}
				p.openChildren++
			}
		case "finish":
			s := spans[e.ID]
			if s == nil {
				return "finish-unknown", fmt.Sprintf("event %d: unknown span finished", i), roots
			}
			if s.finished {
				return "finished-twice", fmt.Sprintf("event %d: span %q (#%d) finished twice", i, s.name, e.ID), roots
			}
			if s.openChildren > 0 {
				return "parent-finished-before-child", fmt.Sprintf("event %d: span %q (#%d) finished while %d child span(s) are open", i, s.name, e.ID, s.openChildren), roots
			}
			s.finished = true
			if s.parent >= 0 {
				spans[s.parent].openChildren--
			} else if openRoot == e.ID {
				openRoot = -1
			}
		}
	}
	for id, s := range spans {
		if !s.finished {
			return "span-left-open", fmt.Sprintf("span %q (#%d, parent #%d) was never finished", s.name, id, s.parent), roots
		}
	}
	return "", "", roots
}
