package srv

import (
	"errors"
	"strconv"

	"github.com/cybergarage/go-redis/redis"
	"github.com/cybergarage/go-redis/redis/proto"
	"verif/model"
	"verif/resp"
)

// RefStore is a UserCommandHandler whose primitive operations behave like
// Redis (they are executed by the reference model). It is the "primitive
// operations that behave like Redis" of C12 and the reference store of C16.
// One model state per database id.
type RefStore struct {
	DBs map[int]*model.State
	// Before is called before every primitive operation (a scheduling point
	// under SCHED: each primitive is one atomic step).
	Before func(op string)
	Ops    int
}

func NewRefStore() *RefStore { return &RefStore{DBs: map[int]*model.State{}} }

func (r *RefStore) db(conn *redis.Conn) *model.State {
	id := 0
	if conn != nil {
		id = int(conn.Database())
	}
	s := r.DBs[id]
	if s == nil {
		s = model.New()
		r.DBs[id] = s
	}
	return s
}

// ToMessage converts a model reply into a library message (errors become Go errors).
func ToMessage(v resp.Value) (*redis.Message, error) {
	switch v.Kind {
	case resp.Status:
		return redis.NewStringMessage(string(v.Data)), nil
	case resp.Error:
		return nil, errors.New(string(v.Data))
	case resp.Integer:
		return proto.NewMessageWithType(proto.IntegerMessage).SetBytes(append([]byte{}, v.Data...)), nil
	case resp.Bulk:
		if v.Null {
			return redis.NewNilMessage(), nil
		}
		return redis.NewBulkMessage(string(v.Data)), nil
	case resp.Array:
		if v.Null {
			return redis.NewNilMessage(), nil
		}
		m := redis.NewArrayMessage()
		for _, e := range v.Elems {
			em, err := ToMessage(e)
			if err != nil {
				em = redis.NewErrorMessage(err)
			}
			m.Append(em)
		}
		return m, nil
	}
	return nil, errors.New("bad model value")
}

func (r *RefStore) do(conn *redis.Conn, op string, args ...string) (*redis.Message, error) {
	if r.Before != nil {
		r.Before(op)
	}
	r.Ops++
	return ToMessage(r.db(conn).Apply(args))
}

func (r *RefStore) Del(conn *redis.Conn, keys []string) (*redis.Message, error) {
	return r.do(conn, "Del", append([]string{"DEL"}, keys...)...)
}
func (r *RefStore) Exists(conn *redis.Conn, keys []string) (*redis.Message, error) {
	return r.do(conn, "Exists", append([]string{"EXISTS"}, keys...)...)
}
func (r *RefStore) Expire(conn *redis.Conn, key string, opt redis.ExpireOption) (*redis.Message, error) {
	return r.do(conn, "Expire", "EXISTS", key)
}
func (r *RefStore) Keys(conn *redis.Conn, pattern string) (*redis.Message, error) {
	return r.do(conn, "Keys", "KEYS", pattern)
}
func (r *RefStore) Rename(conn *redis.Conn, key string, newkey string, opt redis.RenameOption) (*redis.Message, error) {
	if opt.NX {
		return r.do(conn, "Rename", "RENAMENX", key, newkey)
	}
	return r.do(conn, "Rename", "RENAME", key, newkey)
}
func (r *RefStore) Type(conn *redis.Conn, key string) (*redis.Message, error) {
	return r.do(conn, "Type", "TYPE", key)
}
func (r *RefStore) TTL(conn *redis.Conn, key string) (*redis.Message, error) {
	if r.Before != nil {
		r.Before("TTL")
	}
	if _, ok := r.db(conn).Keys[key]; ok {
		return redis.NewIntegerMessage(-1), nil
	}
	return redis.NewIntegerMessage(-2), nil
}
func (r *RefStore) Scan(conn *redis.Conn, cursor int, opt redis.ScanOption) (*redis.Message, error) {
	if r.Before != nil {
		r.Before("Scan")
	}
	keys := r.db(conn).Apply([]string{"KEYS", "*"})
	out := redis.NewArrayMessage()
	out.Append(redis.NewBulkMessage("0"))
	inner := redis.NewArrayMessage()
	for _, k := range keys.Elems {
		if opt.MatchPattern == nil || opt.MatchPattern.MatchString(string(k.Data)) {
			inner.Append(redis.NewBulkMessage(string(k.Data)))
		}
	}
	out.Append(inner)
	return out, nil
}

func (r *RefStore) Set(conn *redis.Conn, key string, val string, opt redis.SetOption) (*redis.Message, error) {
	switch {
	case opt.NX && !opt.GET:
		return r.do(conn, "Set", "SETNX", key, val)
	case opt.GET && !opt.NX && !opt.XX:
		return r.do(conn, "Set", "GETSET", key, val)
	}
	args := []string{"SET", key, val}
	if opt.NX {
		args = append(args, "NX")
	}
	if opt.XX {
		args = append(args, "XX")
	}
	if opt.GET {
		args = append(args, "GET")
	}
	return r.do(conn, "Set", args...)
}
func (r *RefStore) Get(conn *redis.Conn, key string) (*redis.Message, error) {
	return r.do(conn, "Get", "GET", key)
}

func (r *RefStore) HDel(conn *redis.Conn, key string, fields []string) (*redis.Message, error) {
	return r.do(conn, "HDel", append([]string{"HDEL", key}, fields...)...)
}
func (r *RefStore) HSet(conn *redis.Conn, key string, field string, val string, opt redis.HSetOption) (*redis.Message, error) {
	if opt.NX {
		return r.do(conn, "HSet", "HSETNX", key, field, val)
	}
	return r.do(conn, "HSet", "HSET", key, field, val)
}
func (r *RefStore) HGet(conn *redis.Conn, key string, field string) (*redis.Message, error) {
	return r.do(conn, "HGet", "HGET", key, field)
}
func (r *RefStore) HGetAll(conn *redis.Conn, key string) (*redis.Message, error) {
	return r.do(conn, "HGetAll", "HGETALL", key)
}

func (r *RefStore) push(conn *redis.Conn, cmd, key string, elements []string, opt redis.PushOption) (*redis.Message, error) {
	if opt.X {
		cmd += "X"
	}
	return r.do(conn, cmd, append([]string{cmd, key}, elements...)...)
}
func (r *RefStore) LPush(conn *redis.Conn, key string, elements []string, opt redis.PushOption) (*redis.Message, error) {
	return r.push(conn, "LPUSH", key, elements, opt)
}
func (r *RefStore) RPush(conn *redis.Conn, key string, elements []string, opt redis.PushOption) (*redis.Message, error) {
	return r.push(conn, "RPUSH", key, elements, opt)
}
func (r *RefStore) pop(conn *redis.Conn, cmd, key string, count int) (*redis.Message, error) {
	if count == 1 {
		return r.do(conn, cmd, cmd, key)
	}
	return r.do(conn, cmd, cmd, key, strconv.Itoa(count))
}
func (r *RefStore) LPop(conn *redis.Conn, key string, count int) (*redis.Message, error) {
	return r.pop(conn, "LPOP", key, count)
}
func (r *RefStore) RPop(conn *redis.Conn, key string, count int) (*redis.Message, error) {
	return r.pop(conn, "RPOP", key, count)
}
func (r *RefStore) LRange(conn *redis.Conn, key string, start int, stop int) (*redis.Message, error) {
	return r.do(conn, "LRange", "LRANGE", key, strconv.Itoa(start), strconv.Itoa(stop))
}
func (r *RefStore) LIndex(conn *redis.Conn, key string, index int) (*redis.Message, error) {
	return r.do(conn, "LIndex", "LINDEX", key, strconv.Itoa(index))
}
func (r *RefStore) LLen(conn *redis.Conn, key string) (*redis.Message, error) {
	return r.do(conn, "LLen", "LLEN", key)
}

func (r *RefStore) SAdd(conn *redis.Conn, key string, members []string) (*redis.Message, error) {
	return r.do(conn, "SAdd", append([]string{"SADD", key}, members...)...)
}
func (r *RefStore) SMembers(conn *redis.Conn, key string) (*redis.Message, error) {
	return r.do(conn, "SMembers", "SMEMBERS", key)
}
func (r *RefStore) SRem(conn *redis.Conn, key string, members []string) (*redis.Message, error) {
	return r.do(conn, "SRem", append([]string{"SREM", key}, members...)...)
}

func (r *RefStore) ZAdd(conn *redis.Conn, key string, members []*redis.ZSetMember, opt redis.ZAddOption) (*redis.Message, error) {
	args := []string{"ZADD", key}
	for _, o := range []struct {
		on   bool
		word string
	}{{opt.NX, "NX"}, {opt.XX, "XX"}, {opt.GT, "GT"}, {opt.LT, "LT"}, {opt.CH, "CH"}, {opt.INCR, "INCR"}} {
		if o.on {
			args = append(args, o.word)
		}
	}
	for _, m := range members {
		args = append(args, model.FmtScore(m.Score), m.Member)
	}
	return r.do(conn, "ZAdd", args...)
}
func (r *RefStore) ZRange(conn *redis.Conn, key string, start int, stop int, opt redis.ZRangeOption) (*redis.Message, error) {
	cmd := "ZRANGE"
	if opt.REV {
		cmd = "ZREVRANGE"
	}
	args := []string{cmd, key, strconv.Itoa(start), strconv.Itoa(stop)}
	if opt.WITHSCORES {
		args = append(args, "WITHSCORES")
	}
	return r.do(conn, "ZRange", args...)
}
func bnd(f float64, ex bool) string {
	s := model.FmtScore(f)
	switch s {
	case "+Inf":
		s = "+inf"
	case "-Inf":
		s = "-inf"
	}
	if ex {
		return "(" + s
	}
	return s
}
func (r *RefStore) ZRangeByScore(conn *redis.Conn, key string, min float64, max float64, opt redis.ZRangeOption) (*redis.Message, error) {
	args := []string{"ZRANGEBYSCORE", key, bnd(min, opt.MINEXCLUSIVE), bnd(max, opt.MAXEXCLUSIVE)}
	if opt.REV {
		args = []string{"ZREVRANGEBYSCORE", key, bnd(max, opt.MAXEXCLUSIVE), bnd(min, opt.MINEXCLUSIVE)}
	}
	if opt.WITHSCORES {
		args = append(args, "WITHSCORES")
	}
	if opt.Offset != 0 || opt.Count != -1 {
		args = append(args, "LIMIT", strconv.Itoa(opt.Offset), strconv.Itoa(opt.Count))
	}
	return r.do(conn, "ZRangeByScore", args...)
}
func (r *RefStore) ZRem(conn *redis.Conn, key string, members []string) (*redis.Message, error) {
	return r.do(conn, "ZRem", append([]string{"ZREM", key}, members...)...)
}
func (r *RefStore) ZScore(conn *redis.Conn, key string, member string) (*redis.Message, error) {
	return r.do(conn, "ZScore", "ZSCORE", key, member)
}
func (r *RefStore) ZIncBy(conn *redis.Conn, key string, inc float64, member string) (*redis.Message, error) {
	return r.do(conn, "ZIncBy", "ZINCRBY", key, model.FmtScore(inc), member)
}

var _ redis.UserCommandHandler = (*RefStore)(nil)
