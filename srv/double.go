// Package srv holds the server-side test doubles and the single-connection
// runner shared by the SEQ explorations.
package srv

import (
	"fmt"
	"sort"
	"strings"
	"time"

	"github.com/cybergarage/go-redis/redis"
)

// Call is one recorded handler invocation.
type Call struct {
	Method string `json:"method"`
	Args   []any  `json:"args"`
	DB     int    `json:"db"`
	Auth   bool   `json:"auth"`
	Conn   string `json:"conn,omitempty"` // identity of the *redis.Conn (pointer string)
}

func (c Call) String() string {
	var b strings.Builder
	b.WriteString(c.Method)
	b.WriteByte('(')
	for i, a := range c.Args {
		if i > 0 {
			b.WriteString(", ")
		}
		fmt.Fprintf(&b, "%#v", a)
	}
	b.WriteByte(')')
	return b.String()
}

// Key is the canonical comparison form of a call (method + args).
func (c Call) Key() string { return c.String() }

// Double is a recording UserCommandHandler. Result decides what each call
// returns (nil = a distinct bulk token per call).
type Double struct {
	Calls  []Call
	Result func(d *Double, c Call) (*redis.Message, error)
	// OnCall is invoked inside every handler call with the live connection.
	OnCall func(conn *redis.Conn, c Call)
	// ContentTokens makes the default result depend on the call's content
	// (method and arguments) instead of the call number, so that a request's
	// reply is the same alone and inside a pipeline.
	ContentTokens bool
	n             int
}

func NewDouble() *Double { return &Double{} }

func (d *Double) rec(conn *redis.Conn, method string, args ...any) (*redis.Message, error) {
	c := Call{Method: method, Args: args}
	if conn != nil {
		c.DB = int(conn.Database())
		c.Auth = conn.IsAuthrized()
		c.Conn = fmt.Sprintf("%p", conn)
	}
	d.Calls = append(d.Calls, c)
	d.n++
	if d.OnCall != nil {
		d.OnCall(conn, c)
	}
	if d.Result != nil {
		return d.Result(d, c)
	}
	if d.ContentTokens {
		return redis.NewBulkMessage("tok:" + c.Key()), nil
	}
	return redis.NewBulkMessage(fmt.Sprintf("tok%d", d.n)), nil
}

// N is the number of calls recorded so far.
func (d *Double) N() int { return d.n }

func strs(s []string) []string { return append([]string{}, s...) }

// ---- option normalisation (deterministic, comparable) ----

// Stamp is the comparable form of a time.Time: seconds and nanoseconds since the
// epoch (UnixNano would wrap for dates after 2262 and make a time that is off
// by 2^64 ns look right), Set false for the zero Time.
type Stamp struct {
	Set  bool
	Sec  int64
	Nsec int32
}

// TM converts a time.
func TM(t time.Time) Stamp {
	if t.IsZero() {
		return Stamp{}
	}
	return Stamp{Set: true, Sec: t.Unix(), Nsec: int32(t.Nanosecond())}
}

func tm(t time.Time) Stamp { return TM(t) }

// SetOpt is the comparable form of redis.SetOption.
type SetOpt struct {
	EX, PX       int64 // nanoseconds
	EXAT, PXAT   Stamp
	NX, XX       bool
	KEEPTTL, GET bool
}

func NormSet(o redis.SetOption) SetOpt {
	return SetOpt{EX: int64(o.EX), PX: int64(o.PX), EXAT: tm(o.EXAT), PXAT: tm(o.PXAT), NX: o.NX, XX: o.XX, KEEPTTL: o.KEEPTTL, GET: o.GET}
}

// ExpOpt is the comparable form of redis.ExpireOption.
type ExpOpt struct {
	Time           Stamp
	NX, XX, GT, LT bool
}

func NormExp(o redis.ExpireOption) ExpOpt {
	return ExpOpt{Time: tm(o.Time), NX: o.NX, XX: o.XX, GT: o.GT, LT: o.LT}
}

// ScanOpt is the comparable form of redis.ScanOption: the pattern is compared
// behaviourally, as the set of probe keys it matches.
type ScanOpt struct {
	Matches string
	Count   int
	Type    int
}

// ScanProbeKeys are the keys a SCAN pattern is evaluated on.
var ScanProbeKeys = []string{"", "a", "b", "ab", "ba", "abc", "a.c", "a*", "k1", "key:1", "x+y", "(a)", "a|b", "$"}

func NormScan(o redis.ScanOption) ScanOpt {
	var m []string
	if o.MatchPattern != nil {
		for _, k := range ScanProbeKeys {
			if o.MatchPattern.MatchString(k) {
				m = append(m, k)
			}
		}
	} else {
		m = []string{"<nil pattern>"}
	}
	return ScanOpt{Matches: strings.Join(m, ","), Count: o.Count, Type: int(o.Type)}
}

// ZMem is the comparable form of *redis.ZSetMember.
type ZMem struct {
	Score  float64
	Member string
}

func zmems(ms []*redis.ZSetMember) []ZMem {
	out := make([]ZMem, 0, len(ms))
	for _, m := range ms {
		if m == nil {
			out = append(out, ZMem{Member: "<nil>"})
			continue
		}
		out = append(out, ZMem{Score: m.Score, Member: m.Member})
	}
	return out
}

// ---- GenericCommandHandler ----

func (d *Double) Del(conn *redis.Conn, keys []string) (*redis.Message, error) {
	return d.rec(conn, "Del", strs(keys))
}
func (d *Double) Exists(conn *redis.Conn, keys []string) (*redis.Message, error) {
	return d.rec(conn, "Exists", strs(keys))
}
func (d *Double) Expire(conn *redis.Conn, key string, opt redis.ExpireOption) (*redis.Message, error) {
	return d.rec(conn, "Expire", key, NormExp(opt))
}
func (d *Double) Keys(conn *redis.Conn, pattern string) (*redis.Message, error) {
	return d.rec(conn, "Keys", pattern)
}
func (d *Double) Rename(conn *redis.Conn, key string, newkey string, opt redis.RenameOption) (*redis.Message, error) {
	return d.rec(conn, "Rename", key, newkey, opt)
}
func (d *Double) Type(conn *redis.Conn, key string) (*redis.Message, error) {
	return d.rec(conn, "Type", key)
}
func (d *Double) TTL(conn *redis.Conn, key string) (*redis.Message, error) {
	return d.rec(conn, "TTL", key)
}
func (d *Double) Scan(conn *redis.Conn, cursor int, opt redis.ScanOption) (*redis.Message, error) {
	return d.rec(conn, "Scan", cursor, NormScan(opt))
}

// ---- StringCommandHandler ----

func (d *Double) Set(conn *redis.Conn, key string, val string, opt redis.SetOption) (*redis.Message, error) {
	return d.rec(conn, "Set", key, val, NormSet(opt))
}
func (d *Double) Get(conn *redis.Conn, key string) (*redis.Message, error) {
	return d.rec(conn, "Get", key)
}

// ---- HashCommandHandler ----

func (d *Double) HDel(conn *redis.Conn, key string, fields []string) (*redis.Message, error) {
	return d.rec(conn, "HDel", key, strs(fields))
}
func (d *Double) HSet(conn *redis.Conn, key string, field string, val string, opt redis.HSetOption) (*redis.Message, error) {
	return d.rec(conn, "HSet", key, field, val, opt)
}
func (d *Double) HGet(conn *redis.Conn, key string, field string) (*redis.Message, error) {
	return d.rec(conn, "HGet", key, field)
}
func (d *Double) HGetAll(conn *redis.Conn, key string) (*redis.Message, error) {
	return d.rec(conn, "HGetAll", key)
}

// ---- ListCommandHandler ----

func (d *Double) LPush(conn *redis.Conn, key string, elements []string, opt redis.PushOption) (*redis.Message, error) {
	return d.rec(conn, "LPush", key, strs(elements), opt)
}
func (d *Double) RPush(conn *redis.Conn, key string, elements []string, opt redis.PushOption) (*redis.Message, error) {
	return d.rec(conn, "RPush", key, strs(elements), opt)
}
func (d *Double) LPop(conn *redis.Conn, key string, count int) (*redis.Message, error) {
	return d.rec(conn, "LPop", key, count)
}
func (d *Double) RPop(conn *redis.Conn, key string, count int) (*redis.Message, error) {
	return d.rec(conn, "RPop", key, count)
}
func (d *Double) LRange(conn *redis.Conn, key string, start int, stop int) (*redis.Message, error) {
	return d.rec(conn, "LRange", key, start, stop)
}
func (d *Double) LIndex(conn *redis.Conn, key string, index int) (*redis.Message, error) {
	return d.rec(conn, "LIndex", key, index)
}
func (d *Double) LLen(conn *redis.Conn, key string) (*redis.Message, error) {
	return d.rec(conn, "LLen", key)
}

// ---- SetCommandHandler ----

func (d *Double) SAdd(conn *redis.Conn, key string, members []string) (*redis.Message, error) {
	return d.rec(conn, "SAdd", key, strs(members))
}
func (d *Double) SMembers(conn *redis.Conn, key string) (*redis.Message, error) {
	return d.rec(conn, "SMembers", key)
}
func (d *Double) SRem(conn *redis.Conn, key string, members []string) (*redis.Message, error) {
	return d.rec(conn, "SRem", key, strs(members))
}

// ---- ZSetCommandHandler ----

func (d *Double) ZAdd(conn *redis.Conn, key string, members []*redis.ZSetMember, opt redis.ZAddOption) (*redis.Message, error) {
	return d.rec(conn, "ZAdd", key, zmems(members), opt)
}
func (d *Double) ZRange(conn *redis.Conn, key string, start int, stop int, opt redis.ZRangeOption) (*redis.Message, error) {
	return d.rec(conn, "ZRange", key, start, stop, opt)
}
func (d *Double) ZRangeByScore(conn *redis.Conn, key string, min float64, max float64, opt redis.ZRangeOption) (*redis.Message, error) {
	return d.rec(conn, "ZRangeByScore", key, min, max, opt)
}
func (d *Double) ZRem(conn *redis.Conn, key string, members []string) (*redis.Message, error) {
	return d.rec(conn, "ZRem", key, strs(members))
}
func (d *Double) ZScore(conn *redis.Conn, key string, member string) (*redis.Message, error) {
	return d.rec(conn, "ZScore", key, member)
}
func (d *Double) ZIncBy(conn *redis.Conn, key string, inc float64, member string) (*redis.Message, error) {
	return d.rec(conn, "ZIncBy", key, inc, member)
}

var _ redis.UserCommandHandler = (*Double)(nil)

// CallKeys renders a call list as sorted/unsorted key strings.
func CallKeys(calls []Call, sorted bool) []string {
	out := make([]string, len(calls))
	for i, c := range calls {
		out[i] = c.Key()
	}
	if sorted {
		sort.Strings(out)
	}
	return out
}

// Auth makes the double usable as redis.AuthCommandHandler too.
func (d *Double) Auth(conn *redis.Conn, username string, password string) (*redis.Message, error) {
	return d.rec(conn, "Auth", username, password)
}
