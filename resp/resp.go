// Package resp is an independent, deliberately strict RESP2 codec used as an
// oracle. It shares no code with github.com/cybergarage/go-redis/redis/proto.
package resp

import (
	"bytes"
	"fmt"
	"strconv"
)

// Kind of a RESP2 value.
type Kind byte

const (
	Status  Kind = '+'
	Error   Kind = '-'
	Integer Kind = ':'
	Bulk    Kind = '$'
	Array   Kind = '*'
)

// Value is a RESP2 value tree.
type Value struct {
	Kind  Kind
	Data  []byte  // line payload or bulk payload
	Null  bool    // null bulk ($-1) or null array (*-1)
	Elems []Value // array elements
}

func S(s string) Value   { return Value{Kind: Status, Data: []byte(s)} }
func E(s string) Value   { return Value{Kind: Error, Data: []byte(s)} }
func I(n int64) Value    { return Value{Kind: Integer, Data: []byte(strconv.FormatInt(n, 10))} }
func IS(s string) Value  { return Value{Kind: Integer, Data: []byte(s)} }
func B(s string) Value   { return Value{Kind: Bulk, Data: []byte(s)} }
func Nil() Value         { return Value{Kind: Bulk, Null: true} }
func A(e ...Value) Value { return Value{Kind: Array, Elems: append([]Value{}, e...)} }

// Cmd builds a command request (array of bulk strings).
func Cmd(args ...string) Value {
	v := Value{Kind: Array, Elems: make([]Value, 0, len(args))}
	for _, a := range args {
		v.Elems = append(v.Elems, B(a))
	}
	return v
}

// Encode appends the canonical encoding of v.
func (v Value) Encode(dst []byte) []byte {
	switch v.Kind {
	case Status, Error, Integer:
		dst = append(dst, byte(v.Kind))
		dst = append(dst, v.Data...)
		dst = append(dst, '\r', '\n')
	case Bulk:
		dst = append(dst, '$')
		if v.Null {
			return append(dst, '-', '1', '\r', '\n')
		}
		dst = strconv.AppendInt(dst, int64(len(v.Data)), 10)
		dst = append(dst, '\r', '\n')
		dst = append(dst, v.Data...)
		dst = append(dst, '\r', '\n')
	case Array:
		dst = append(dst, '*')
		if v.Null {
			return append(dst, '-', '1', '\r', '\n')
		}
		dst = strconv.AppendInt(dst, int64(len(v.Elems)), 10)
		dst = append(dst, '\r', '\n')
		for _, e := range v.Elems {
			dst = e.Encode(dst)
		}
	}
	return dst
}

func (v Value) Bytes() []byte { return v.Encode(nil) }

// Equal is type-strict deep equality (null vs empty distinguished).
func (v Value) Equal(o Value) bool {
	if v.Kind != o.Kind || v.Null != o.Null {
		return false
	}
	if v.Kind == Array {
		if len(v.Elems) != len(o.Elems) {
			return false
		}
		for i := range v.Elems {
			if !v.Elems[i].Equal(o.Elems[i]) {
				return false
			}
		}
		return true
	}
	return bytes.Equal(v.Data, o.Data)
}

func (v Value) IsError() bool { return v.Kind == Error }

// String renders a compact human-readable form.
func (v Value) String() string {
	switch v.Kind {
	case Array:
		if v.Null {
			return "*nil"
		}
		var b bytes.Buffer
		b.WriteByte('[')
		for i, e := range v.Elems {
			if i > 0 {
				b.WriteByte(' ')
			}
			b.WriteString(e.String())
		}
		b.WriteByte(']')
		return b.String()
	case Bulk:
		if v.Null {
			return "$nil"
		}
		return fmt.Sprintf("$%q", v.Data)
	default:
		return fmt.Sprintf("%c%q", byte(v.Kind), v.Data)
	}
}

// DecodeError describes the first framing error in a stream.
type DecodeError struct {
	Offset int
	Msg    string
	// Incomplete is true when the stream ended inside a value (a prefix of a
	// possibly valid stream) rather than containing an invalid byte.
	Incomplete bool
}

func (e *DecodeError) Error() string {
	return fmt.Sprintf("resp: %s at offset %d", e.Msg, e.Offset)
}

// maxDepth bounds the recursion of the reference decoder (replies nested a few thousand
// levels deep are legal RESP and are produced by the deep-reply cases of C04).
const maxDepth = 100000

// LaxIntegers makes the decoder accept any CR/LF-free text as the payload of
// an integer line (framing-only judgement).
var LaxIntegers = false

// Decode reads exactly one value from b starting at off.
func Decode(b []byte, off int) (Value, int, *DecodeError) {
	return decode(b, off, 0)
}

func decode(b []byte, off int, depth int) (Value, int, *DecodeError) {
	if depth > maxDepth {
		return Value{}, off, &DecodeError{Offset: off, Msg: "nesting too deep"}
	}
	if off >= len(b) {
		return Value{}, off, &DecodeError{Offset: off, Msg: "end of stream", Incomplete: true}
	}
	k := Kind(b[off])
	switch k {
	case Status, Error, Integer:
		line, next, err := readLine(b, off+1)
		if err != nil {
			return Value{}, off, err
		}
		if k == Integer && !LaxIntegers {
			if !ValidInt(line) {
				return Value{}, off, &DecodeError{Offset: off + 1, Msg: "malformed integer"}
			}
		}
		return Value{Kind: k, Data: append([]byte{}, line...)}, next, nil
	case Bulk, Array:
		line, next, err := readLine(b, off+1)
		if err != nil {
			return Value{}, off, err
		}
		if string(line) == "-1" {
			return Value{Kind: k, Null: true}, next, nil
		}
		if !validLen(line) {
			return Value{}, off, &DecodeError{Offset: off + 1, Msg: "malformed length"}
		}
		n, perr := strconv.Atoi(string(line))
		if perr != nil {
			return Value{}, off, &DecodeError{Offset: off + 1, Msg: "length overflow"}
		}
		if k == Bulk {
			if next+n+2 > len(b) {
				return Value{}, off, &DecodeError{Offset: len(b), Msg: "end of stream in bulk", Incomplete: true}
			}
			if b[next+n] != '\r' || b[next+n+1] != '\n' {
				return Value{}, off, &DecodeError{Offset: next + n, Msg: "bulk not terminated by CRLF"}
			}
			return Value{Kind: Bulk, Data: append([]byte{}, b[next:next+n]...)}, next + n + 2, nil
		}
		v := Value{Kind: Array, Elems: []Value{}}
		for i := 0; i < n; i++ {
			e, nn, err := decode(b, next, depth+1)
			if err != nil {
				return Value{}, off, err
			}
			v.Elems = append(v.Elems, e)
			next = nn
		}
		return v, next, nil
	}
	return Value{}, off, &DecodeError{Offset: off, Msg: fmt.Sprintf("invalid type byte 0x%02x", b[off])}
}

// readLine returns the bytes up to CRLF; CR or LF inside the line is an error.
func readLine(b []byte, off int) ([]byte, int, *DecodeError) {
	for i := off; i < len(b); i++ {
		switch b[i] {
		case '\n':
			return nil, off, &DecodeError{Offset: i, Msg: "bare LF in line"}
		case '\r':
			if i+1 >= len(b) {
				return nil, off, &DecodeError{Offset: len(b), Msg: "end of stream after CR", Incomplete: true}
			}
			if b[i+1] != '\n' {
				return nil, off, &DecodeError{Offset: i, Msg: "CR not followed by LF"}
			}
			return b[off:i], i + 2, nil
		}
	}
	return nil, off, &DecodeError{Offset: len(b), Msg: "end of stream in line", Incomplete: true}
}

func validLen(s []byte) bool {
	if len(s) == 0 {
		return false
	}
	if len(s) > 1 && s[0] == '0' {
		return false
	}
	for _, c := range s {
		if c < '0' || c > '9' {
			return false
		}
	}
	return true
}

func ValidInt(s []byte) bool {
	if len(s) > 0 && s[0] == '-' {
		s = s[1:]
	}
	if len(s) == 0 {
		return false
	}
	for _, c := range s {
		if c < '0' || c > '9' {
			return false
		}
	}
	return true
}

// DecodeAll decodes a concatenation of complete values. It returns the values
// decoded before the first error; err is nil iff the whole input was consumed.
func DecodeAll(b []byte) ([]Value, *DecodeError) {
	var out []Value
	off := 0
	for off < len(b) {
		v, next, err := Decode(b, off)
		if err != nil {
			return out, err
		}
		out = append(out, v)
		off = next
	}
	return out, nil
}
