// Package sched is the stateless schedule explorer: depth-first search over
// the choice sequences of vrt executions with iterative preemption bounding
// (CHESS style). Every execution runs the real, instrumented repository code
// under vrt's cooperative scheduler.
package sched

import (
	"fmt"
	"strings"

	"github.com/cybergarage/go-redis/vrt"
)

// Run describes one execution of a scenario: a fresh world per execution.
type Run struct {
	Body    func()            // harness thread 0
	AtQuiet func(e *vrt.Exec) // driver context, after quiescence (may be nil)
	Verdict func(r *vrt.Result) Verdict
}

// Verdict is the oracle's judgement of one execution.
type Verdict struct {
	Clause string // "" = property held on this execution
	Detail string
	Obs    string // terminal observation (what the oracle looked at), for vacuity accounting
}

// Explorer explores all schedules of a scenario within the bounds.
type Explorer struct {
	New          func() *Run
	Bound        int             // deviation bound: max number of non-default choices per schedule
	PreemptBound int             // optional additional bound on preemptive switches (0 = none)
	EnvBound     int             // bound on environment deviations among them
	EnvKinds     map[string]bool // enabled environment choice kinds
	Racy         map[string]bool
	RaceDetect   bool
	FineLoops    bool  // loop iterations of instrumented code are scheduling points
	MaxExec      int64 // cap on executions (0 = none)
	MaxSteps     int
	// Owned decides, for a node at ShardDepth deviations, whether this worker
	// explores its subtree (nil = everything).
	ShardDepth int
	Owned      func() bool
	Expired    func() bool
	// OnExec is called for every execution performed and counted by this worker.
	OnExec func(choices []int, r *vrt.Result, v Verdict)

	Stats Stats
}

// Stats of one exploration.
type Stats struct {
	Executions  int64
	Transitions int64
	MaxPoints   int
	Capped      bool
	StepCapped  int64
	Diverged    []string
	Deadlines   int64
	// DeadlineAt is the choice prefix of the first execution that hit the watchdog.
	DeadlineAt []int
	// Nondeterministic is set when replaying the default schedule twice gave two
	// different executions (an uncaptured source of nondeterminism: harness defect).
	Nondeterministic bool
	// WarmStart: the first execution differed from the second and third, which agreed
	// (process-wide state of the code under test filled by the first execution); the
	// exploration continued from the warm state.
	WarmStart bool
	Races     map[string]vrt.Race
	obs       map[string]int64
}

func (s *Stats) Observations() map[string]int64 { return s.obs }

// Explore runs the search.
func (x *Explorer) Explore() {
	x.Stats.obs = map[string]int64{}
	x.Stats.Races = map[string]vrt.Race{}
	x.explore(nil, 0, x.Owned == nil || x.ShardDepth == 0 && x.Owned())
}

func (x *Explorer) runOnce(choices []int) (*vrt.Result, Verdict) {
	run := x.New()
	opt := vrt.Options{Choices: choices, Racy: x.Racy, RaceDetect: x.RaceDetect, FineLoops: x.FineLoops, EnvDeviations: x.EnvKinds, MaxSteps: x.MaxSteps}
	res := vrt.Run(opt, run.Body, run.AtQuiet)
	var v Verdict
	if res.Deadline {
		v = Verdict{Clause: "", Obs: "harness-deadline"}
	} else {
		v = run.Verdict(res)
	}
	return res, v
}

func (x *Explorer) explore(prefix []int, depth int, owned bool) {
	if x.Stats.Capped {
		return
	}
	if x.Expired != nil && x.Expired() {
		x.Stats.Capped = true
		return
	}
	if x.MaxExec > 0 && x.Stats.Executions >= x.MaxExec {
		x.Stats.Capped = true
		return
	}
	if x.Owned != nil && depth == x.ShardDepth && depth > 0 {
		owned = x.Owned()
		if !owned {
			return
		}
	}
	res, v := x.runOnce(prefix)
	if depth == 0 && res.Diverged == "" && !res.Deadline {
		// determinism self-check: the same (empty) prefix must give the same execution
		res2, v2 := x.runOnce(prefix)
		if Signature(res2) != Signature(res) || v2.Clause != v.Clause {
			// The code under test may keep process-wide state that the first execution
			// fills (a cache of compiled patterns, a lazily built table): the first
			// execution then differs from all later ones. A third execution decides: if
			// it agrees with the second, the scenario is explored from the warm state
			// (WarmStart is reported); if not, the nondeterminism is real.
			res3, v3 := x.runOnce(prefix)
			if Signature(res3) != Signature(res2) || v3.Clause != v2.Clause {
				x.Stats.Nondeterministic = true
			} else {
				x.Stats.WarmStart = true
				// the cold execution is judged too (it is an execution of the default schedule)
				if x.OnExec != nil && res.Diverged == "" && !res.Deadline {
					x.Stats.Executions++
					x.Stats.obs[v.Obs]++
					for _, r := range res.Races {
						x.Stats.Races[r.Loc+"|"+r.SiteA+"|"+r.SiteB] = r
					}
					x.OnExec(choicesOf(res.Points), res, v)
				}
				res, v = res3, v3
			}
		}
	}
	if res.Diverged != "" {
		if len(x.Stats.Diverged) < 5 {
			x.Stats.Diverged = append(x.Stats.Diverged, fmt.Sprintf("%v: %s", prefix, res.Diverged))
		}
		return
	}
	if res.Deadline {
		// a managed thread blocked on something the runtime does not model (a
		// channel, a real lock, real I/O): every further execution would hang
		// the same way, so the exploration of this scenario stops here and the
		// caller reports a harness error (never a violation)
		x.Stats.Deadlines++
		if x.Stats.DeadlineAt == nil {
			x.Stats.DeadlineAt = append([]int{}, prefix...)
		}
		x.Stats.Capped = true
		return
	}
	count := owned || (x.Owned != nil && depth < x.ShardDepth && x.countShared())
	if x.Owned == nil {
		count = true
	}
	if count {
		x.Stats.Executions++
		x.Stats.Transitions += int64(res.Steps)
		if len(res.Points) > x.Stats.MaxPoints {
			x.Stats.MaxPoints = len(res.Points)
		}
		if res.StepCap {
			x.Stats.StepCapped++
		}
		x.Stats.obs[v.Obs]++
		for _, r := range res.Races {
			x.Stats.Races[r.Loc+"|"+r.SiteA+"|"+r.SiteB] = r
		}
		if x.OnExec != nil {
			x.OnExec(choicesOf(res.Points), res, v)
		}
	}
	// branch
	// Deviation (delay) bounding: the default scheduler is deterministic (keep
	// running the current thread while it is enabled, else the lowest enabled
	// id; environment answers default to 0). Every non-default choice is one
	// deviation, whether it preempts a runnable thread or picks another
	// successor at a blocking point. Preemptions are additionally bounded by
	// PreemptBound when it is set (>0).
	dev, pre, env := 0, 0, 0
	for i, p := range res.Points {
		if i >= len(prefix) {
			d, pc, ec := dev+1, pre, env
			if p.Env && !strings.HasPrefix(p.Kind, "select") {
				ec++ // (the choice among ready select clauses counts as an ordinary deviation)
			} else if p.RunningEnabled && !p.Env {
				pc++
			}
			if d <= x.Bound && ec <= x.EnvBound && (x.PreemptBound <= 0 || pc <= x.PreemptBound || p.Env) {
				for alt := 1; alt < len(p.Enabled); alt++ {
					next := append(choicesOf(res.Points[:i]), alt)
					x.explore(next, depth+1, owned)
				}
			}
		}
		if p.Chosen != 0 {
			dev++
			if p.Env {
				env++
			} else if p.RunningEnabled {
				pre++
			}
		}
	}
}

// SharedCounter decides whether this worker counts the executions above the
// shard depth that every worker performs (only one of them should).
var SharedCounter = func() bool { return true }

func (x *Explorer) countShared() bool { return SharedCounter() }

func choicesOf(points []vrt.Point) []int {
	out := make([]int, len(points))
	for i, p := range points {
		out[i] = p.Chosen
	}
	return out
}

// Signature renders the structure of an execution (who was enabled where),
// used for the determinism self-check.
func Signature(r *vrt.Result) string {
	var b strings.Builder
	for _, p := range r.Points {
		fmt.Fprintf(&b, "%v>%d;", p.Enabled, p.Chosen)
	}
	for _, t := range r.Threads {
		fmt.Fprintf(&b, "|%d:%v:%s", t.ID, t.Finished, t.Parked)
	}
	return b.String()
}

// ThreadSummary renders the final thread states compactly.
func ThreadSummary(r *vrt.Result) string {
	var parts []string
	for _, t := range r.Threads {
		st := "done"
		if t.Panic != "" {
			st = "PANIC(" + t.Panic + ")"
		} else if !t.Finished {
			st = "parked@" + t.Parked
		}
		parts = append(parts, fmt.Sprintf("%d:%s=%s", t.ID, shortName(t.Name), st))
	}
	return strings.Join(parts, " ")
}

func shortName(n string) string {
	if i := strings.LastIndex(n, ":go "); i >= 0 {
		return n[i+4:]
	}
	return n
}

// ThreadSummaryName shortens a spawn-site thread name.
func ThreadSummaryName(n string) string { return shortName(n) }
