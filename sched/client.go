package sched

import (
	"errors"
	"io"
	"syscall"

	"github.com/cybergarage/go-redis/vrt"
	"verif/resp"
)

// Client is a scripted RESP client running inside a managed harness thread.
type Client struct {
	Conn io.ReadWriter
	raw  *vrt.Conn
	buf  []byte
}

// Outcome of one request.
type Outcome struct {
	Status string     // ok | unanswered | eof | reset | error | refused
	Reply  resp.Value // valid when Status == ok
	Err    string
}

func (o Outcome) String() string {
	if o.Status == "ok" {
		return o.Reply.String()
	}
	return "<" + o.Status + ">"
}

// Dial connects to the in-memory listener.
func Dial(addr string) (*Client, Outcome) {
	c, err := vrt.Dial(addr)
	if err != nil {
		return nil, Outcome{Status: "refused", Err: err.Error()}
	}
	return &Client{Conn: c, raw: c}, Outcome{Status: "ok"}
}

// Wrap builds a client over an established stream (e.g. a tls.Conn); raw is
// the underlying in-memory connection.
func Wrap(stream io.ReadWriter, raw *vrt.Conn) *Client {
	return &Client{Conn: stream, raw: raw}
}

// Raw returns the underlying in-memory connection end.
func (c *Client) Raw() *vrt.Conn { return c.raw }

// Send writes raw bytes.
func (c *Client) Send(b []byte) Outcome {
	if _, err := c.Conn.Write(b); err != nil {
		return Outcome{Status: classify(err), Err: err.Error()}
	}
	return Outcome{Status: "ok"}
}

// Recv reads one complete reply. If the system becomes quiescent without a
// complete reply the outcome is "unanswered".
func (c *Client) Recv() Outcome {
	for {
		if len(c.buf) > 0 {
			v, n, derr := resp.Decode(c.buf, 0)
			if derr == nil {
				c.buf = c.buf[n:]
				return Outcome{Status: "ok", Reply: v}
			}
			if !derr.Incomplete {
				return Outcome{Status: "error", Err: "malformed reply: " + derr.Error()}
			}
		}
		p := make([]byte, 4096)
		var n int
		var err error
		quiet := false
		if c.raw != nil && c.Conn == io.ReadWriter(c.raw) {
			n, quiet, err = c.raw.ReadOrQuiet(p)
		} else {
			n, err = c.Conn.Read(p)
		}
		if quiet {
			return Outcome{Status: "unanswered"}
		}
		if n > 0 {
			c.buf = append(c.buf, p[:n]...)
			continue
		}
		if err != nil {
			return Outcome{Status: classify(err), Err: err.Error()}
		}
	}
}

// Do sends one command and waits for its reply.
func (c *Client) Do(args ...string) Outcome {
	if o := c.Send(resp.Cmd(args...).Bytes()); o.Status != "ok" {
		return o
	}
	return c.Recv()
}

// Close closes the client's end.
func (c *Client) Close() {
	if cl, ok := c.Conn.(io.Closer); ok {
		cl.Close()
	} else if c.raw != nil {
		c.raw.Close()
	}
}

func classify(err error) string {
	switch {
	case err == nil:
		return "ok"
	case errors.Is(err, io.EOF), errors.Is(err, io.ErrUnexpectedEOF):
		return "eof"
	case errors.Is(err, syscall.ECONNRESET), errors.Is(err, syscall.EPIPE):
		return "reset"
	}
	return "error"
}
