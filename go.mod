module verif

go 1.22.0

toolchain go1.23.5

require (
	github.com/anishathalye/porcupine v1.3.0
	github.com/cybergarage/go-redis v0.0.0
	github.com/cybergarage/go-tracing v1.1.3
	golang.org/x/tools v0.29.0
)

require (
	github.com/cybergarage/go-logger v1.3.4 // indirect
	github.com/google/uuid v1.6.0 // indirect
	golang.org/x/mod v0.22.0 // indirect
	golang.org/x/sync v0.10.0 // indirect
)

replace github.com/cybergarage/go-redis => /repo
