package grammar

import (
	"strconv"
	"strings"

	"verif/resp"
	"verif/srv"
)

// Pools (kept tiny: the point is exhaustive products, not big values).
var (
	KeyPool = []string{"k", "K2", "", "\r\n", "\x00a", "$-1"}
	StrPool = []string{"v", "", "x\r\ny", "\r\n+OK\r\n", "\x00\xff", "*1"}
	IntPool = []string{"0", "1", "-1", "2", "9", "10", "2147483647", "2147483648", "-2147483648", "9223372036854775807", "-9223372036854775808"}
	IdxPool = []string{"0", "1", "-1", "2", "10", "-2", "2147483647", "-2147483648"}
	// NonPositive: expiry values SET / SETEX must refuse - zero, and negative numbers around
	// every place where a conversion to a 32-bit integer, to nanoseconds or to a
	// duration wraps
	NonPositive = []string{"0", "-1", "-2147483648", "-2147483649", "-4294967296", "-9223372036", "-9223372037", "-10000000000", "-18446744074", "-9223372036854775", "-9223372036854775807", "-9223372036854775808"}
	// AtPool: absolute expiry times in seconds (EXPIREAT) around the same places
	AtPool    = []string{"1", "10", "2147483647", "2147483648", "4294967296", "0", "-1", "9223372036", "9223372037", "10000000000", "32503680000", "253402300799"}
	TTLPool   = []string{"1", "10", "2147483647", "2147483648", "0", "-1"}
	PosPool   = []string{"1", "10", "2147483648"}
	FloatPool = []string{"0", "1.5", "-2", "1e3", "-inf", "+inf"}
	BoundPool = []string{"0", "1.5", "-2", "(1", "(-2.5", "+inf", "-inf", "(1e3"}
	ElemPool  = []string{"a", "b", "", "\r\n"}
)

func pick(pool []string, small bool) []string {
	if small && len(pool) > 2 {
		return pool[:2]
	}
	return pool
}

// poolFor returns the value pool of positional i of spec s.
func poolFor(s *Spec, i int, small bool) []string {
	switch s.Pos[i] {
	case Key:
		return pick(KeyPool, small)
	case Str:
		if s.Name == "KEYS" {
			return []string{"*", "a*", "?b", "k1", ""}
		}
		return pick(StrPool, small)
	case Int:
		switch s.Name {
		case "EXPIRE":
			return pick(TTLPool, small)
		case "EXPIREAT":
			return AtPool
		case "SETEX":
			return pick(PosPool, small)
		case "SELECT":
			return []string{"0", "1", "3", "7", "15"}
		case "SCAN":
			return []string{"0", "1", "10"}
		case "LRANGE", "LINDEX", "GETRANGE", "SUBSTR", "ZREVRANGE":
			return pick(IdxPool, small)
		}
		return pick(IntPool, small)
	case Float:
		return pick(FloatPool, small)
	case Bound:
		if s.Name == "ZRANGE" {
			return pick(IdxPool, small) // index form; the BYSCORE form overrides
		}
		return pick(BoundPool, small)
	case Word:
		return []string{"GET"}
	}
	return nil
}

// product enumerates the cartesian product of pools.
func product(pools [][]string, f func([]string)) {
	cur := make([]string, len(pools))
	var rec func(i int)
	rec = func(i int) {
		if i == len(pools) {
			f(append([]string{}, cur...))
			return
		}
		for _, v := range pools[i] {
			cur[i] = v
			rec(i + 1)
		}
	}
	rec(0)
}

// lists enumerates all lists of length min..max over pool.
func lists(pool []string, min, max int, f func([]string)) {
	var rec func(cur []string)
	rec = func(cur []string) {
		if len(cur) >= min {
			f(append([]string{}, cur...))
		}
		if len(cur) == max {
			return
		}
		for _, v := range pool {
			rec(append(cur, v))
		}
	}
	rec(nil)
}

// perms enumerates all orderings of groups (each group is a token sequence).
func perms(groups [][]string, f func([]string)) {
	n := len(groups)
	used := make([]bool, n)
	var cur []string
	var rec func(k int)
	rec = func(k int) {
		if k == n {
			f(append([]string{}, cur...))
			return
		}
		for i := 0; i < n; i++ {
			if used[i] {
				continue
			}
			used[i] = true
			l := len(cur)
			cur = append(cur, groups[i]...)
			rec(k + 1)
			cur = cur[:l]
			used[i] = false
		}
	}
	rec(0)
}

// subsets enumerates all sub-collections of groups (as group lists).
func subsets(groups [][]string, f func([][]string)) {
	n := len(groups)
	for m := 0; m < 1<<uint(n); m++ {
		var sel [][]string
		for i := 0; i < n; i++ {
			if m&(1<<uint(i)) != 0 {
				sel = append(sel, groups[i])
			}
		}
		f(sel)
	}
}

// OptionTails enumerates the well-formed optional tails of a TOptional /
// TScoreMembers command (each as a token list), option words in canonical
// upper case. small restricts numeric alternatives.
func OptionTails(s *Spec, small bool, f func(tail []string, shape string)) {
	switch s.Name {
	case "PING":
		f(nil, "")
		for _, m := range pick(StrPool, small) {
			if m != "" {
				f([]string{m}, "msg")
			}
		}
	case "AUTH":
		f(nil, "")
	case "EXPIRE", "EXPIREAT":
		f(nil, "")
		for _, w := range []string{"NX", "XX", "GT", "LT"} {
			f([]string{w}, w)
		}
	case "LPOP", "RPOP":
		f(nil, "")
		for _, n := range []string{"1", "2", "10", "0", "9223372036854775807"} {
			f([]string{n}, "count")
		}
	case "SCAN":
		f(nil, "")
		pats := []string{"*", "a*", "?b", "k1", "*b*"}
		cnts := []string{"1", "10", "1000"}
		if small {
			pats, cnts = pats[:2], cnts[:1]
		}
		for _, p := range pats {
			f([]string{"MATCH", p}, "MATCH")
			for _, c := range cnts {
				f([]string{"MATCH", p, "COUNT", c}, "MATCH COUNT")
				f([]string{"COUNT", c, "MATCH", p}, "COUNT MATCH")
			}
		}
		for _, c := range cnts {
			f([]string{"COUNT", c}, "COUNT")
		}
	case "SET":
		nums := []string{"1", "10", "2147483648"}
		if small {
			nums = nums[:1]
		}
		exist := [][]string{nil, {"NX"}, {"XX"}}
		get := [][]string{nil, {"GET"}}
		expiry := [][]string{nil, {"KEEPTTL"}}
		for _, w := range []string{"EX", "PX", "EXAT", "PXAT"} {
			for _, n := range nums {
				expiry = append(expiry, []string{w, n})
			}
		}
		for _, e := range exist {
			for _, g := range get {
				for _, x := range expiry {
					var groups [][]string
					var names []string
					for _, grp := range [][]string{e, g, x} {
						if grp != nil {
							groups = append(groups, grp)
							names = append(names, grp[0])
						}
					}
					perms(groups, func(t []string) { f(t, strings.Join(names, "+")) })
				}
			}
		}
	case "ZADD":
		// [NX|XX] [GT|LT] [CH] [INCR] with Redis's legality rules:
		// NX excludes GT/LT; INCR allows a single pair.
		scores := pick(FloatPool, small)
		members := pick(ElemPool, small)
		var pairLists [][]string
		lists([]string{"0", "1"}, 1, 3, func(ix []string) { // index pairs into (score, member) pools
			var l []string
			for j, s := range ix {
				si := (atoi(s) + j) % len(scores)
				mi := (atoi(s)*2 + j) % len(members)
				l = append(l, scores[si], members[mi])
			}
			pairLists = append(pairLists, l)
		})
		// plus every score with one member, and a duplicate member with two scores
		for _, sc := range scores {
			pairLists = append(pairLists, []string{sc, "m"})
		}
		pairLists = append(pairLists, []string{"1", "a", "2", "a"})
		exist := [][]string{nil, {"NX"}, {"XX"}}
		cmp := [][]string{nil, {"GT"}, {"LT"}}
		ch := [][]string{nil, {"CH"}}
		incr := [][]string{nil, {"INCR"}}
		for _, e := range exist {
			for _, c := range cmp {
				if e != nil && e[0] == "NX" && c != nil {
					continue
				}
				for _, h := range ch {
					for _, in := range incr {
						var groups [][]string
						var names []string
						for _, grp := range [][]string{e, c, h, in} {
							if grp != nil {
								groups = append(groups, grp)
								names = append(names, grp[0])
							}
						}
						perms(groups, func(fl []string) {
							for _, pl := range pairLists {
								if in != nil && len(pl) > 2 {
									continue
								}
								if small && len(fl) > 0 && len(pl) > 2 {
									continue
								}
								f(append(append([]string{}, fl...), pl...), "flags:"+strings.Join(names, "+")+"/pairs:"+strconv.Itoa(len(pl)/2))
							}
						})
					}
				}
			}
		}
	case "ZRANGE":
		// index form: [REV] [WITHSCORES] in any order
		subsets([][]string{{"REV"}, {"WITHSCORES"}}, func(sel [][]string) {
			perms(sel, func(t []string) { f(t, "index:"+strings.Join(t, "+")) })
		})
	case "ZRANGEBYSCORE", "ZREVRANGEBYSCORE":
		lim := [][]string{{"LIMIT", "0", "1"}, {"LIMIT", "1", "2"}, {"LIMIT", "0", "-1"}}
		if small {
			lim = lim[:1]
		}
		f(nil, "")
		f([]string{"WITHSCORES"}, "WITHSCORES")
		for _, l := range lim {
			f(l, "LIMIT")
			f(append(append([]string{}, l...), "WITHSCORES"), "LIMIT+WITHSCORES")
			f(append([]string{"WITHSCORES"}, l...), "WITHSCORES+LIMIT")
		}
	case "ZREVRANGE":
		f(nil, "")
		f([]string{"WITHSCORES"}, "WITHSCORES")
	case "CONFIG":
		// handled by ConfigRequests
	default:
		f(nil, "")
	}
}

// ZRangeByScoreForms enumerates `ZRANGE k min max BYSCORE [LIMIT o c] [WITHSCORES]` tails in all orders.
func ZRangeByScoreForms(small bool, f func(tail []string, shape string)) {
	lims := [][]string{{"LIMIT", "0", "1"}, {"LIMIT", "1", "-1"}}
	if small {
		lims = lims[:1]
	}
	for _, l := range lims {
		subsets([][]string{l, {"WITHSCORES"}}, func(sel [][]string) {
			groups := append([][]string{{"BYSCORE"}}, sel...)
			perms(groups, func(t []string) {
				var names []string
				for _, g := range groups {
					names = append(names, g[0])
				}
				f(t, "byscore:"+strings.Join(names, "+"))
			})
		})
	}
}

// applyCase rewrites the command name and the option words of a request in
// letter-case variant v. Option words are recognised by spec, not by guess.
func applyCase(s *Spec, args []string, nPos int, v int) []string {
	out := append([]string{}, args...)
	out[0] = CaseVariant(out[0], v)
	words := map[string]bool{}
	switch s.Name {
	case "SET":
		for _, w := range []string{"NX", "XX", "GET", "KEEPTTL", "EX", "PX", "EXAT", "PXAT"} {
			words[w] = true
		}
	case "EXPIRE", "EXPIREAT":
		for _, w := range []string{"NX", "XX", "GT", "LT"} {
			words[w] = true
		}
	case "ZADD":
		for _, w := range []string{"NX", "XX", "GT", "LT", "CH", "INCR"} {
			words[w] = true
		}
	case "ZRANGE", "ZRANGEBYSCORE", "ZREVRANGE", "ZREVRANGEBYSCORE":
		for _, w := range []string{"BYSCORE", "REV", "LIMIT", "WITHSCORES"} {
			words[w] = true
		}
	case "SCAN":
		words["MATCH"], words["COUNT"] = true, true
	case "CONFIG":
		words["GET"], words["SET"] = true, true
	}
	start := 1 + nPos
	if s.Name == "CONFIG" {
		start = 1
	}
	for i := start; i < len(out); i++ {
		if words[out[i]] {
			if s.Name == "ZADD" && i > start && !words[out[i-1]] {
				break // past the flags: scores/members follow
			}
			if s.Name == "SCAN" && i > start && out[i-1] == "MATCH" {
				continue // this token is the pattern
			}
			out[i] = CaseVariant(out[i], v)
		}
	}
	return out
}

// EachWellFormed enumerates well-formed requests of spec s with predictions.
// small=true yields a representative subset (one or two values per position,
// every option word at least once, list arities 1..3); small=false the full
// product over the pools. cases selects the letter-case variants (1 or 3).
func EachWellFormed(s *Spec, small bool, cases int, f func(Req)) {
	if s.Name == "CONFIG" {
		return
	}
	emit := func(pos []string, tail []string, shape string) {
		base := append(append([]string{s.Name}, pos...), tail...)
		var calls []srv.Call
		nopred := s.Framework || s.Composite || s.Build == nil
		if !nopred {
			calls = s.Build(pos, tail)
		}
		for v := 0; v < cases; v++ {
			f(Req{Cmd: s.Name, Args: applyCase(s, base, len(pos), v), Calls: calls, Multiset: s.Multiset, NoPred: nopred, Shape: shape, Spec: s})
		}
	}
	pools := make([][]string, len(s.Pos))
	for i := range s.Pos {
		pools[i] = poolFor(s, i, small)
	}
	tailPool := pick(ElemPool, small)
	if s.Name == "DEL" || s.Name == "EXISTS" || s.Name == "MGET" {
		tailPool = pick(KeyPool, small)
	}
	product(pools, func(pos []string) {
		switch s.Tail {
		case TNone:
			emit(pos, nil, "")
		case TStrs:
			lists(tailPool, 1, 3, func(t []string) { emit(pos, t, "n="+strconv.Itoa(len(t))) })
		case TPairs:
			keys := []string{"a", "b"}
			vals := []string{"1", ""}
			if !small {
				keys = []string{"a", "b", "\r\n"}
				vals = []string{"1", "", "x\r\ny"}
			}
			var kv []string
			for _, k := range keys {
				for _, v := range vals {
					kv = append(kv, k+"\x00"+v)
				}
			}
			lists(kv, 1, 3, func(t []string) {
				var flat []string
				for _, p := range t {
					i := strings.IndexByte(p, 0)
					flat = append(flat, p[:i], p[i+1:])
				}
				emit(pos, flat, "pairs="+strconv.Itoa(len(t)))
			})
		case TScoreMembers, TOptional:
			OptionTails(s, small, func(t []string, shape string) { emit(pos, t, shape) })
		}
	})
	if s.Name == "ZRANGE" {
		kp := pick(KeyPool, true)
		bp := pick(BoundPool, small)
		for _, k := range kp {
			for _, a := range bp {
				for _, b := range bp {
					ZRangeByScoreForms(small, func(t []string, shape string) { emit([]string{k, a, b}, t, shape) })
				}
			}
		}
	}
}

// ConfigRequests enumerates well-formed CONFIG requests.
func ConfigRequests(f func(Req)) {
	s := Lookup("CONFIG")
	for v := 0; v < 3; v++ {
		for _, args := range [][]string{
			{"CONFIG", "SET", "a", "1"}, {"CONFIG", "SET", "a", "1", "b", ""}, {"CONFIG", "GET", "a"}, {"CONFIG", "GET", "a", "zz", "a"},
		} {
			f(Req{Cmd: "CONFIG", Args: applyCase(s, args, 0, v), NoPred: true, Shape: args[1], Spec: s})
		}
	}
}

// Encode renders a request as a RESP array of bulk strings.
func Encode(args []string) []byte { return resp.Cmd(args...).Bytes() }

// Bad is an ill-formed request (C10): it must be answered with an error and
// must not reach the handler.
type Bad struct {
	Cmd   string
	Elems []resp.Value // request elements (bulk strings, possibly null)
	Class string       // why it is ill-formed (cause-key component)
	// Follow is a well-formed instance of the same command to be sent afterwards.
	Follow []string
}

func bulks(args []string) []resp.Value {
	out := make([]resp.Value, len(args))
	for i, a := range args {
		out[i] = resp.B(a)
	}
	return out
}

// NonInts are tokens that are not (in-range, integral) integers.
var NonInts = []string{"", "abc", "1x", "1.5", " 1", "9223372036854775808", "-9223372036854775809", "0x10"}

// NonFloats are tokens that are not finite-or-infinite numbers.
var NonFloats = []string{"", "abc", "1x", "(", "1e999", "nan", "1..2"}

// minimalValid returns one well-formed instance of s (canonical case).
func minimalValid(s *Spec) (pos []string, tail []string) {
	for i := range s.Pos {
		p := poolFor(s, i, true)
		v := p[0]
		if s.Pos[i] == Key {
			v = "k"
		}
		if s.Pos[i] == Str && s.Name != "KEYS" {
			v = "v"
		}
		pos = append(pos, v)
	}
	switch s.Tail {
	case TStrs:
		tail = []string{"a", "b"}
	case TPairs:
		tail = []string{"a", "1", "b", "2"}
	case TScoreMembers:
		tail = []string{"1", "a", "2", "b"}
	}
	if s.Name == "CONFIG" {
		pos = []string{"GET"}
		tail = []string{"a"}
	}
	return
}

// EachBad enumerates the ill-formed requests of s.
func EachBad(s *Spec, f func(Bad)) {
	pos, tail := minimalValid(s)
	full := append(append([]string{s.Name}, pos...), tail...)
	follow := full
	emit := func(args []string, class string) {
		f(Bad{Cmd: s.Name, Elems: bulks(args), Class: class, Follow: follow})
	}
	if s.Name == "CONFIG" {
		emit([]string{"CONFIG", "SET", "a"}, "odd-pairs")
		emit([]string{"CONFIG", "SET", "a", "1", "b"}, "odd-pairs")
		emit([]string{"CONFIG", "SET"}, "missing-arg@tail")
		emit([]string{"CONFIG", "GET"}, "missing-arg@tail")
		emit([]string{"CONFIG"}, "missing-arg@1")
		return
	}
	// each required positional missing (truncation)
	for n := 0; n < len(pos); n++ {
		emit(append([]string{s.Name}, pos[:n]...), "missing-arg@"+strconv.Itoa(n+1))
	}
	if s.Tail == TStrs || s.Tail == TPairs || s.Tail == TScoreMembers {
		emit(append([]string{s.Name}, pos...), "missing-arg@tail")
	}
	// null bulk at each position
	for i := 1; i < len(full); i++ {
		el := bulks(full)
		el[i] = resp.Nil()
		where := strconv.Itoa(i)
		if i > len(pos) {
			where = "tail"
		}
		f(Bad{Cmd: s.Name, Elems: el, Class: "null@" + where, Follow: follow})
	}
	// non-numeric tokens at numeric positions
	for i, k := range s.Pos {
		var toks []string
		switch k {
		case Int:
			toks = NonInts
		case Float, Bound:
			toks = NonFloats
		}
		for _, t := range toks {
			a := append([]string{}, full...)
			a[1+i] = t
			emit(a, "non-numeric@"+strconv.Itoa(i+1))
		}
	}
	// dangling halves
	switch s.Tail {
	case TPairs:
		emit(append(append([]string{s.Name}, pos...), "a"), "odd-pairs")
		emit(append(append([]string{s.Name}, pos...), "a", "1", "b"), "odd-pairs")
	case TScoreMembers:
		emit(append(append([]string{s.Name}, pos...), "1"), "odd-pairs")
		emit(append(append([]string{s.Name}, pos...), "1", "a", "2"), "odd-pairs")
		for _, t := range NonFloats {
			emit(append(append([]string{s.Name}, pos...), t, "a"), "non-numeric@score")
			emit(append(append([]string{s.Name}, pos...), "1", "a", t, "b"), "non-numeric@score2")
		}
	}
	// numeric option values
	switch s.Name {
	case "LPOP", "RPOP":
		for _, t := range NonInts {
			emit([]string{s.Name, "k", t}, "non-numeric@count")
		}
	case "SCAN":
		for _, t := range NonInts {
			emit([]string{"SCAN", "0", "COUNT", t}, "non-numeric@COUNT")
		}
		emit([]string{"SCAN", "0", "COUNT"}, "missing-arg@COUNT")
		emit([]string{"SCAN", "0", "MATCH"}, "missing-arg@MATCH")
	case "ZRANGEBYSCORE", "ZREVRANGEBYSCORE":
		emit([]string{s.Name, "k", "0", "1", "LIMIT", "1"}, "missing-arg@LIMIT")
		emit([]string{s.Name, "k", "0", "1", "LIMIT"}, "missing-arg@LIMIT")
		for _, t := range NonInts {
			emit([]string{s.Name, "k", "0", "1", "LIMIT", t, "1"}, "non-numeric@LIMIT")
			emit([]string{s.Name, "k", "0", "1", "LIMIT", "0", t}, "non-numeric@LIMIT")
		}
	case "SET":
		for v := 0; v < 3; v++ {
			cv := func(w string) string { return CaseVariant(w, v) }
			for _, a := range []string{"NX", "XX"} {
				for _, b := range []string{"NX", "XX"} {
					emit([]string{"SET", "k", "v", cv(a), cv(b)}, "set-exclusive-NX-XX")
				}
			}
			ex := []string{"EX", "PX", "EXAT", "PXAT"}
			for _, a := range ex {
				for _, b := range ex {
					emit([]string{"SET", "k", "v", cv(a), "10", cv(b), "10"}, "set-exclusive-expiry")
				}
				for _, n := range NonPositive {
					emit([]string{"SET", "k", "v", cv(a), n}, "set-expiry-nonpositive")
				}
				emit([]string{"SET", "k", "v", cv(a)}, "missing-arg@expiry")
				for _, t := range NonInts {
					emit([]string{"SET", "k", "v", cv(a), t}, "non-numeric@expiry")
				}
			}
		}
	case "SETEX":
		for _, n := range NonPositive {
			emit([]string{"SETEX", "k", n, "v"}, "set-expiry-nonpositive")
		}
	}
}
