// Package grammar is an independent description of the command surface,
// written from the Redis command reference and the handler interface (not
// derived from the executor code). It generates well-formed requests with the
// handler call they must produce, and systematically ill-formed ones.
package grammar

import (
	"fmt"
	"math"
	"strconv"
	"strings"
	"time"

	"github.com/cybergarage/go-redis/redis"
	"verif/srv"
)

// Kind of a positional argument.
type Kind int

const (
	Key Kind = iota
	Str
	Int
	Float
	Bound // score range bound: f, (f, -inf, +inf
	Word  // fixed sub-command word
)

// Tail kind of a command.
type Tail int

const (
	TNone         Tail = iota
	TStrs              // one or more strings
	TPairs             // one or more key/value pairs
	TScoreMembers      // one or more score/member pairs (ZADD)
	TOptional          // optional arguments handled by the command's own generator
)

// Spec describes one command.
type Spec struct {
	Name      string
	Pos       []Kind
	Tail      Tail
	Family    string
	Framework bool // answered by the framework without the user handler
	Composite bool // built from several primitive handler operations (C12), not 1:1
	// Build predicts the handler calls for positional values pos and tail values.
	Build func(pos []string, tail []string) []srv.Call
	// Multiset: predicted calls are compared as a multiset (order not promised).
	Multiset bool
}

// Req is a generated request with its prediction.
type Req struct {
	Cmd      string
	Args     []string // complete argument vector, command name first
	Calls    []srv.Call
	Multiset bool
	NoPred   bool   // no call prediction (framework-answered or composite)
	Shape    string // shape class, used in cause keys
	Spec     *Spec
}

func call(method string, args ...any) srv.Call { return srv.Call{Method: method, Args: args} }

func atoi(s string) int {
	n, err := strconv.Atoi(s)
	if err != nil {
		panic("grammar: bad int " + s)
	}
	return n
}

func atof(s string) float64 {
	f, err := strconv.ParseFloat(s, 64)
	if err != nil {
		panic("grammar: bad float " + s)
	}
	return f
}

// bound parses a score range bound.
func bound(s string) (float64, bool) {
	if strings.HasPrefix(s, "(") {
		return atof(s[1:]), true
	}
	return atof(s), false
}

func cpStrs(s []string) []string { return append([]string{}, s...) }

// lastPerKey returns the distinct keys of a pair list with their last values,
// in first-appearance order.
func lastPerKey(pairs []string) (keys []string, vals map[string]string) {
	vals = map[string]string{}
	for i := 0; i+1 < len(pairs); i += 2 {
		if _, ok := vals[pairs[i]]; !ok {
			keys = append(keys, pairs[i])
		}
		vals[pairs[i]] = pairs[i+1]
	}
	return
}

var zeroRange = redis.ZRangeOption{Offset: 0, Count: -1}

// Clock is the deterministic "now" of SEQ runs.
var Clock = srv.FixedClock

// Specs is the command table.
var Specs []*Spec

func add(s *Spec) { Specs = append(Specs, s) }

// Lookup finds a spec by (upper-case) name.
func Lookup(name string) *Spec {
	for _, s := range Specs {
		if s.Name == name {
			return s
		}
	}
	return nil
}

func init() {
	// ---- connection / server (framework-answered) ----
	add(&Spec{Name: "PING", Tail: TOptional, Family: "conn", Framework: true})
	add(&Spec{Name: "ECHO", Pos: []Kind{Str}, Family: "conn", Framework: true})
	add(&Spec{Name: "SELECT", Pos: []Kind{Int}, Family: "conn", Framework: true})
	add(&Spec{Name: "QUIT", Family: "conn", Framework: true})
	add(&Spec{Name: "AUTH", Pos: []Kind{Str}, Tail: TOptional, Family: "conn", Framework: true})
	add(&Spec{Name: "CONFIG", Pos: []Kind{Word}, Tail: TOptional, Family: "conn", Framework: true})

	// ---- generic ----
	add(&Spec{Name: "DEL", Tail: TStrs, Family: "keys", Build: func(p, t []string) []srv.Call {
		return []srv.Call{call("Del", cpStrs(t))}
	}})
	add(&Spec{Name: "EXISTS", Tail: TStrs, Family: "keys", Build: func(p, t []string) []srv.Call {
		return []srv.Call{call("Exists", cpStrs(t))}
	}})
	expOpt := func(t []string) srv.ExpOpt {
		var o srv.ExpOpt
		if len(t) > 0 {
			switch strings.ToUpper(t[0]) {
			case "NX":
				o.NX = true
			case "XX":
				o.XX = true
			case "GT":
				o.GT = true
			case "LT":
				o.LT = true
			}
		}
		return o
	}
	add(&Spec{Name: "EXPIRE", Pos: []Kind{Key, Int}, Tail: TOptional, Family: "expire", Build: func(p, t []string) []srv.Call {
		o := expOpt(t)
		o.Time = srv.TM(Clock.Add(time.Duration(atoi(p[1])) * time.Second))
		return []srv.Call{call("Expire", p[0], o)}
	}})
	add(&Spec{Name: "EXPIREAT", Pos: []Kind{Key, Int}, Tail: TOptional, Family: "expire", Build: func(p, t []string) []srv.Call {
		o := expOpt(t)
		o.Time = srv.TM(time.Unix(int64(atoi(p[1])), 0))
		return []srv.Call{call("Expire", p[0], o)}
	}})
	add(&Spec{Name: "KEYS", Pos: []Kind{Str}, Family: "key1", Build: func(p, t []string) []srv.Call {
		return []srv.Call{call("Keys", p[0])}
	}})
	add(&Spec{Name: "TYPE", Pos: []Kind{Key}, Family: "key1", Build: func(p, t []string) []srv.Call {
		return []srv.Call{call("Type", p[0])}
	}})
	add(&Spec{Name: "TTL", Pos: []Kind{Key}, Family: "key1", Build: func(p, t []string) []srv.Call {
		return []srv.Call{call("TTL", p[0])}
	}})
	add(&Spec{Name: "RENAME", Pos: []Kind{Key, Key}, Family: "rename", Build: func(p, t []string) []srv.Call {
		return []srv.Call{call("Rename", p[0], p[1], redis.RenameOption{NX: false})}
	}})
	add(&Spec{Name: "RENAMENX", Pos: []Kind{Key, Key}, Family: "rename", Build: func(p, t []string) []srv.Call {
		return []srv.Call{call("Rename", p[0], p[1], redis.RenameOption{NX: true})}
	}})
	add(&Spec{Name: "SCAN", Pos: []Kind{Int}, Tail: TOptional, Family: "scan", Build: func(p, t []string) []srv.Call {
		o := srv.ScanOpt{Count: 10}
		pattern := "*"
		for i := 0; i+1 < len(t); i += 2 {
			switch strings.ToUpper(t[i]) {
			case "MATCH":
				pattern = t[i+1]
			case "COUNT":
				o.Count = atoi(t[i+1])
			}
		}
		var m []string
		for _, k := range srv.ScanProbeKeys {
			if GlobMatch(pattern, k) {
				m = append(m, k)
			}
		}
		o.Matches = strings.Join(m, ",")
		return []srv.Call{call("Scan", atoi(p[0]), o)}
	}})

	// ---- strings ----
	add(&Spec{Name: "GET", Pos: []Kind{Key}, Family: "key1", Build: func(p, t []string) []srv.Call {
		return []srv.Call{call("Get", p[0])}
	}})
	add(&Spec{Name: "SET", Pos: []Kind{Key, Str}, Tail: TOptional, Family: "set", Build: func(p, t []string) []srv.Call {
		var o srv.SetOpt
		for i := 0; i < len(t); i++ {
			switch strings.ToUpper(t[i]) {
			case "NX":
				o.NX = true
			case "XX":
				o.XX = true
			case "GET":
				o.GET = true
			case "KEEPTTL":
				o.KEEPTTL = true
			case "EX":
				i++
				o.EX = int64(time.Duration(atoi(t[i])) * time.Second)
			case "PX":
				i++
				o.PX = int64(time.Duration(atoi(t[i])) * time.Millisecond)
			case "EXAT":
				i++
				o.EXAT = srv.TM(time.Unix(int64(atoi(t[i])), 0))
			case "PXAT":
				i++
				o.PXAT = srv.TM(time.UnixMilli(int64(atoi(t[i]))))
			}
		}
		return []srv.Call{call("Set", p[0], p[1], o)}
	}})
	add(&Spec{Name: "SETEX", Pos: []Kind{Key, Int, Str}, Family: "set", Build: func(p, t []string) []srv.Call {
		return []srv.Call{call("Set", p[0], p[2], srv.SetOpt{EX: int64(time.Duration(atoi(p[1])) * time.Second)})}
	}})
	add(&Spec{Name: "SETNX", Pos: []Kind{Key, Str}, Family: "set", Build: func(p, t []string) []srv.Call {
		return []srv.Call{call("Set", p[0], p[1], srv.SetOpt{NX: true})}
	}})
	add(&Spec{Name: "GETSET", Pos: []Kind{Key, Str}, Family: "set", Build: func(p, t []string) []srv.Call {
		return []srv.Call{call("Set", p[0], p[1], srv.SetOpt{GET: true})}
	}})
	add(&Spec{Name: "MSET", Tail: TPairs, Family: "mset", Multiset: true, Build: func(p, t []string) []srv.Call {
		keys, vals := lastPerKey(t)
		var out []srv.Call
		for _, k := range keys {
			out = append(out, call("Set", k, vals[k], srv.SetOpt{}))
		}
		return out
	}})
	add(&Spec{Name: "MSETNX", Tail: TPairs, Family: "mset", Composite: true})
	add(&Spec{Name: "MGET", Tail: TStrs, Family: "mget", Build: func(p, t []string) []srv.Call {
		var out []srv.Call
		for _, k := range t {
			out = append(out, call("Get", k))
		}
		return out
	}})
	add(&Spec{Name: "APPEND", Pos: []Kind{Key, Str}, Family: "rmw", Composite: true})
	add(&Spec{Name: "INCR", Pos: []Kind{Key}, Family: "rmw", Composite: true})
	add(&Spec{Name: "DECR", Pos: []Kind{Key}, Family: "rmw", Composite: true})
	add(&Spec{Name: "INCRBY", Pos: []Kind{Key, Int}, Family: "rmw", Composite: true})
	add(&Spec{Name: "DECRBY", Pos: []Kind{Key, Int}, Family: "rmw", Composite: true})
	add(&Spec{Name: "STRLEN", Pos: []Kind{Key}, Family: "sugar-get", Composite: true})
	add(&Spec{Name: "GETRANGE", Pos: []Kind{Key, Int, Int}, Family: "sugar-get", Composite: true})
	add(&Spec{Name: "SUBSTR", Pos: []Kind{Key, Int, Int}, Family: "sugar-get", Composite: true})

	// ---- hashes ----
	add(&Spec{Name: "HSET", Pos: []Kind{Key, Str, Str}, Family: "hash", Build: func(p, t []string) []srv.Call {
		return []srv.Call{call("HSet", p[0], p[1], p[2], redis.HSetOption{NX: false})}
	}})
	add(&Spec{Name: "HSETNX", Pos: []Kind{Key, Str, Str}, Family: "hash", Build: func(p, t []string) []srv.Call {
		return []srv.Call{call("HSet", p[0], p[1], p[2], redis.HSetOption{NX: true})}
	}})
	add(&Spec{Name: "HGET", Pos: []Kind{Key, Str}, Family: "hash", Build: func(p, t []string) []srv.Call {
		return []srv.Call{call("HGet", p[0], p[1])}
	}})
	add(&Spec{Name: "HDEL", Pos: []Kind{Key}, Tail: TStrs, Family: "hash", Build: func(p, t []string) []srv.Call {
		return []srv.Call{call("HDel", p[0], cpStrs(t))}
	}})
	add(&Spec{Name: "HGETALL", Pos: []Kind{Key}, Family: "hash", Build: func(p, t []string) []srv.Call {
		return []srv.Call{call("HGetAll", p[0])}
	}})
	add(&Spec{Name: "HMSET", Pos: []Kind{Key}, Tail: TPairs, Family: "mset", Multiset: true, Build: func(p, t []string) []srv.Call {
		keys, vals := lastPerKey(t)
		var out []srv.Call
		for _, k := range keys {
			out = append(out, call("HSet", p[0], k, vals[k], redis.HSetOption{NX: false}))
		}
		return out
	}})
	add(&Spec{Name: "HMGET", Pos: []Kind{Key}, Tail: TStrs, Family: "mget", Build: func(p, t []string) []srv.Call {
		var out []srv.Call
		for _, f := range t {
			out = append(out, call("HGet", p[0], f))
		}
		return out
	}})
	add(&Spec{Name: "HEXISTS", Pos: []Kind{Key, Str}, Family: "sugar-hash", Composite: true})
	add(&Spec{Name: "HSTRLEN", Pos: []Kind{Key, Str}, Family: "sugar-hash", Composite: true})
	add(&Spec{Name: "HKEYS", Pos: []Kind{Key}, Family: "sugar-hash", Composite: true})
	add(&Spec{Name: "HVALS", Pos: []Kind{Key}, Family: "sugar-hash", Composite: true})
	add(&Spec{Name: "HLEN", Pos: []Kind{Key}, Family: "sugar-hash", Composite: true})

	// ---- lists ----
	push := func(name, method string, x bool) {
		add(&Spec{Name: name, Pos: []Kind{Key}, Tail: TStrs, Family: "list-push", Build: func(p, t []string) []srv.Call {
			return []srv.Call{call(method, p[0], cpStrs(t), redis.PushOption{X: x})}
		}})
	}
	push("LPUSH", "LPush", false)
	push("RPUSH", "RPush", false)
	push("LPUSHX", "LPush", true)
	push("RPUSHX", "RPush", true)
	pop := func(name, method string) {
		add(&Spec{Name: name, Pos: []Kind{Key}, Tail: TOptional, Family: "list-pop", Build: func(p, t []string) []srv.Call {
			n := 1
			if len(t) > 0 {
				n = atoi(t[0])
			}
			return []srv.Call{call(method, p[0], n)}
		}})
	}
	pop("LPOP", "LPop")
	pop("RPOP", "RPop")
	add(&Spec{Name: "LRANGE", Pos: []Kind{Key, Int, Int}, Family: "list-read", Build: func(p, t []string) []srv.Call {
		return []srv.Call{call("LRange", p[0], atoi(p[1]), atoi(p[2]))}
	}})
	add(&Spec{Name: "LINDEX", Pos: []Kind{Key, Int}, Family: "list-read", Build: func(p, t []string) []srv.Call {
		return []srv.Call{call("LIndex", p[0], atoi(p[1]))}
	}})
	add(&Spec{Name: "LLEN", Pos: []Kind{Key}, Family: "list-read", Build: func(p, t []string) []srv.Call {
		return []srv.Call{call("LLen", p[0])}
	}})

	// ---- sets ----
	add(&Spec{Name: "SADD", Pos: []Kind{Key}, Tail: TStrs, Family: "set-members", Build: func(p, t []string) []srv.Call {
		return []srv.Call{call("SAdd", p[0], cpStrs(t))}
	}})
	add(&Spec{Name: "SREM", Pos: []Kind{Key}, Tail: TStrs, Family: "set-members", Build: func(p, t []string) []srv.Call {
		return []srv.Call{call("SRem", p[0], cpStrs(t))}
	}})
	add(&Spec{Name: "SMEMBERS", Pos: []Kind{Key}, Family: "set-members", Build: func(p, t []string) []srv.Call {
		return []srv.Call{call("SMembers", p[0])}
	}})
	add(&Spec{Name: "SCARD", Pos: []Kind{Key}, Family: "sugar-set", Composite: true})
	add(&Spec{Name: "SISMEMBER", Pos: []Kind{Key, Str}, Family: "sugar-set", Composite: true})

	// ---- sorted sets ----
	add(&Spec{Name: "ZADD", Pos: []Kind{Key}, Tail: TScoreMembers, Family: "zadd", Build: func(p, t []string) []srv.Call {
		var o redis.ZAddOption
		i := 0
	flags:
		for ; i < len(t); i++ {
			switch strings.ToUpper(t[i]) {
			case "NX":
				o.NX = true
			case "XX":
				o.XX = true
			case "GT":
				o.GT = true
			case "LT":
				o.LT = true
			case "CH":
				o.CH = true
			case "INCR":
				o.INCR = true
			default:
				break flags
			}
		}
		var ms []srv.ZMem
		for ; i+1 < len(t); i += 2 {
			ms = append(ms, srv.ZMem{Score: atof(t[i]), Member: t[i+1]})
		}
		return []srv.Call{call("ZAdd", p[0], ms, o)}
	}})
	add(&Spec{Name: "ZINCRBY", Pos: []Kind{Key, Float, Str}, Family: "zset", Build: func(p, t []string) []srv.Call {
		return []srv.Call{call("ZIncBy", p[0], atof(p[1]), p[2])}
	}})
	zrangeOpt := func(t []string) redis.ZRangeOption {
		o := zeroRange
		for i := 0; i < len(t); i++ {
			switch strings.ToUpper(t[i]) {
			case "BYSCORE":
				o.BYSCORE = true
			case "REV":
				o.REV = true
			case "WITHSCORES":
				o.WITHSCORES = true
			case "LIMIT":
				o.Offset = atoi(t[i+1])
				o.Count = atoi(t[i+2])
				i += 2
			}
		}
		return o
	}
	add(&Spec{Name: "ZRANGE", Pos: []Kind{Key, Bound, Bound}, Tail: TOptional, Family: "zrange", Build: func(p, t []string) []srv.Call {
		o := zrangeOpt(t)
		if o.BYSCORE {
			min, minEx := bound(p[1])
			max, maxEx := bound(p[2])
			o.MINEXCLUSIVE, o.MAXEXCLUSIVE = minEx, maxEx
			return []srv.Call{call("ZRangeByScore", p[0], min, max, o)}
		}
		return []srv.Call{call("ZRange", p[0], atoi(p[1]), atoi(p[2]), o)}
	}})
	add(&Spec{Name: "ZRANGEBYSCORE", Pos: []Kind{Key, Bound, Bound}, Tail: TOptional, Family: "zrange", Build: func(p, t []string) []srv.Call {
		o := zrangeOpt(t)
		min, minEx := bound(p[1])
		max, maxEx := bound(p[2])
		o.MINEXCLUSIVE, o.MAXEXCLUSIVE = minEx, maxEx
		return []srv.Call{call("ZRangeByScore", p[0], min, max, o)}
	}})
	add(&Spec{Name: "ZREVRANGE", Pos: []Kind{Key, Int, Int}, Tail: TOptional, Family: "sugar-zset", Composite: true})
	add(&Spec{Name: "ZREVRANGEBYSCORE", Pos: []Kind{Key, Bound, Bound}, Tail: TOptional, Family: "sugar-zset", Composite: true})
	add(&Spec{Name: "ZREM", Pos: []Kind{Key}, Tail: TStrs, Family: "zset", Build: func(p, t []string) []srv.Call {
		return []srv.Call{call("ZRem", p[0], cpStrs(t))}
	}})
	add(&Spec{Name: "ZSCORE", Pos: []Kind{Key, Str}, Family: "zset", Build: func(p, t []string) []srv.Call {
		return []srv.Call{call("ZScore", p[0], p[1])}
	}})
	add(&Spec{Name: "ZCARD", Pos: []Kind{Key}, Family: "sugar-zset", Composite: true})
}

// GlobMatch is the reference glob matcher: '*' any sequence, '?' exactly one
// character, everything else literal, anchored over the whole key.
func GlobMatch(p, k string) bool {
	if p == "" {
		return k == ""
	}
	switch p[0] {
	case '*':
		for i := 0; i <= len(k); i++ {
			if GlobMatch(p[1:], k[i:]) {
				return true
			}
		}
		return false
	case '?':
		return k != "" && GlobMatch(p[1:], k[1:])
	}
	return k != "" && k[0] == p[0] && GlobMatch(p[1:], k[1:])
}

// CaseVariant renders word in one of three letter-case variants.
func CaseVariant(word string, v int) string {
	switch v % 3 {
	case 0:
		return strings.ToUpper(word)
	case 1:
		return strings.ToLower(word)
	}
	b := []byte(strings.ToLower(word))
	for i := 0; i < len(b); i += 2 {
		if b[i] >= 'a' && b[i] <= 'z' {
			b[i] -= 32
		}
	}
	return string(b)
}

// FmtFloat formats a float the way a client would send it.
func FmtFloat(f float64) string {
	switch {
	case math.IsInf(f, 1):
		return "+inf"
	case math.IsInf(f, -1):
		return "-inf"
	}
	return strconv.FormatFloat(f, 'g', -1, 64)
}

func (r Req) String() string { return fmt.Sprintf("%q", r.Args) }
