// Package seq holds the single-goroutine, scripted transport used by the
// bounded-exhaustive (SEQ) explorations: the harness decides what every Read
// returns, when the stream ends and how, and whether a Write succeeds.
package seq

import (
	"errors"
	"io"
	"net"
	"os"
	"syscall"
	"time"
)

// EndMode says how the client's stream ends once all bytes were delivered.
type EndMode int

const (
	EndEOF   EndMode = iota // half close: Read returns io.EOF, writes still succeed
	EndReset                // full close: Read returns ECONNRESET, writes fail afterwards
)

// Script is the environment script of one connection.
type Script struct {
	Input []byte `json:"input"`
	// Splits are ascending stream offsets at which delivery pauses: a single
	// Read never crosses a split (this is how a stream is cut into segments).
	// Stride > 0 adds a split at every multiple of Stride (1 = one byte per Read).
	Splits []int   `json:"splits,omitempty"`
	Stride int     `json:"stride,omitempty"`
	End    EndMode `json:"end,omitempty"`
	// FailWriteFrom: the j-th Write call (1-based) and all later ones fail; 0 = never.
	FailWriteFrom int `json:"fail_write_from,omitempty"`
	// CloseErr: the first Close closes the transport but reports an error, as a TLS
	// connection does when its peer is gone and the close notification cannot be sent.
	CloseErr bool `json:"close_err,omitempty"`
	// TimeoutWriteAt: the j-th Write call (1-based) transfers only the first half of its
	// bytes and reports a timeout - but only if the code under test has armed a write
	// deadline on the connection (a deadline that was never set cannot expire).
	TimeoutWriteAt int `json:"timeout_write_at,omitempty"`
	// TimeoutReadAt: the j-th Read call reports a timeout, if a read deadline is armed.
	TimeoutReadAt int `json:"timeout_read_at,omitempty"`
	// EOFWithData: the Read that delivers the last byte of the input also reports the end of
	// the stream (n > 0 together with io.EOF, which io.Reader allows and crypto/tls does when
	// the peer's close notification is already buffered behind the last record).
	EOFWithData bool
}

// Conn is a scripted net.Conn. It is used by exactly one goroutine.
type Conn struct {
	S         Script
	pos       int
	reads     int
	split     int
	Out       []byte
	Writes    int
	Closes    int
	WriteShut bool // the server shut down its sending side (CloseWrite)
	ClosedAt  int  // len(Out) at first Close
	// EndSeenAtClose: the end of the stream (EOF / reset) had already been reported to
	// the reader when Close was first called - the connection ended because the client
	// was done, not because the server gave up on it.
	EndSeenAtClose bool
	// OnStarve is called when a Read asks for bytes although the whole input
	// has been delivered already (the moment liveness is judged), and before
	// every Read with the number of bytes delivered so far.
	OnRead func(delivered int, starving bool)
	// ReadsAfterEnd counts Read calls after the end of stream was reported.
	ReadsAfterEnd int
	ended         bool
	Budget        *int // optional operation budget shared with the harness
	rdArmed       bool // a read / write deadline is set
	wdArmed       bool
	readCalls     int
	// TimedOut counts the timeouts that were injected.
	TimedOut int
}

// OnNewConn is called whenever a scripted connection (a new case) is created.
var OnNewConn = func() {}

func NewConn(s Script) *Conn { OnNewConn(); return &Conn{S: s, ClosedAt: -1} }

var ErrClosed = errors.New("use of closed network connection")

// OnTransport is called at every transport operation (the harness resets the
// loop-iteration budget there).
var OnTransport = func() {}

// OnDelivered is called with the number of input bytes a Read handed over.
var OnDelivered = func(n int) {}

func (c *Conn) Read(p []byte) (int, error) {
	// A Read that only repeats the end-of-stream report is not progress: the
	// loop-iteration budget keeps running, so a loop that spins on it is cut.
	if !(c.ended && c.pos >= len(c.S.Input)) {
		OnTransport()
	}
	if c.Closes > 0 {
		return 0, ErrClosed
	}
	if len(p) == 0 {
		return 0, nil
	}
	c.readCalls++
	if c.rdArmed && c.S.TimeoutReadAt > 0 && c.readCalls == c.S.TimeoutReadAt {
		c.TimedOut++
		return 0, &net.OpError{Op: "read", Net: "tcp", Err: timeoutError{}}
	}
	if c.OnRead != nil {
		c.OnRead(c.pos, c.pos >= len(c.S.Input))
	}
	if c.pos >= len(c.S.Input) {
		if c.ended {
			c.ReadsAfterEnd++
		}
		c.ended = true
		if c.S.End == EndReset {
			return 0, &net.OpError{Op: "read", Net: "tcp", Err: syscall.ECONNRESET}
		}
		return 0, io.EOF
	}
	n := len(p)
	c.reads++
	if n > len(c.S.Input)-c.pos {
		n = len(c.S.Input) - c.pos
	}
	for c.split < len(c.S.Splits) && c.S.Splits[c.split] <= c.pos {
		c.split++
	}
	if c.split < len(c.S.Splits) && c.pos+n > c.S.Splits[c.split] {
		n = c.S.Splits[c.split] - c.pos
	}
	if st := c.S.Stride; st > 0 {
		next := (c.pos/st + 1) * st
		if c.pos+n > next {
			n = next - c.pos
		}
	}
	copy(p, c.S.Input[c.pos:c.pos+n])
	c.pos += n
	OnDelivered(n)
	if c.S.EOFWithData && c.pos >= len(c.S.Input) && c.S.End != EndReset {
		c.ended = true
		return n, io.EOF
	}
	return n, nil
}

func (c *Conn) Write(p []byte) (int, error) {
	if c.Closes == 0 && c.Writes < 1<<16 {
		OnTransport()
	}
	if c.Closes > 0 || c.WriteShut {
		return 0, ErrClosed
	}
	c.Writes++
	if c.wdArmed && c.S.TimeoutWriteAt > 0 && c.Writes == c.S.TimeoutWriteAt && len(p) > 1 {
		c.TimedOut++
		c.Out = append(c.Out, p[:len(p)/2]...)
		return len(p) / 2, &net.OpError{Op: "write", Net: "tcp", Err: timeoutError{}}
	}
	if c.S.FailWriteFrom > 0 && c.Writes >= c.S.FailWriteFrom {
		return 0, &net.OpError{Op: "write", Net: "tcp", Err: syscall.EPIPE}
	}
	if c.S.End == EndReset && c.ended {
		return 0, &net.OpError{Op: "write", Net: "tcp", Err: syscall.EPIPE}
	}
	c.Out = append(c.Out, p...)
	return len(p), nil
}

func (c *Conn) Close() error {
	c.Closes++
	if c.Closes == 1 {
		c.ClosedAt = len(c.Out)
		c.EndSeenAtClose = c.ended
		if c.S.CloseErr {
			return errors.New("tls: failed to send closeNotify alert (but connection was closed anyway): write: broken pipe")
		}
		return nil
	}
	return ErrClosed
}

// CloseWrite shuts down the sending side (a half close by the server): later writes fail,
// reads go on. The scripted client reacts to nothing, so the rest of the script is delivered
// and then the stream ends.
func (c *Conn) CloseWrite() error {
	if c.Closes > 0 {
		return ErrClosed
	}
	c.WriteShut = true
	return nil
}

// Delivered is the number of input bytes handed to the reader so far.
func (c *Conn) Delivered() int { return c.pos }

type addr struct{}

func (addr) Network() string { return "mem" }
func (addr) String() string  { return "mem:0" }

func (c *Conn) LocalAddr() net.Addr  { return addr{} }
func (c *Conn) RemoteAddr() net.Addr { return addr{} }
func (c *Conn) SetDeadline(t time.Time) error {
	c.rdArmed, c.wdArmed = !t.IsZero(), !t.IsZero()
	return nil
}
func (c *Conn) SetReadDeadline(t time.Time) error  { c.rdArmed = !t.IsZero(); return nil }
func (c *Conn) SetWriteDeadline(t time.Time) error { c.wdArmed = !t.IsZero(); return nil }

// timeoutError is what a net.Conn reports when a deadline expires.
type timeoutError struct{}

func (timeoutError) Error() string   { return "i/o timeout" }
func (timeoutError) Timeout() bool   { return true }
func (timeoutError) Temporary() bool { return true }
func (timeoutError) Is(target error) bool {
	return target == os.ErrDeadlineExceeded
}

// ChunkReader adapts a Script to a plain io.Reader (parser-only checks).
type ChunkReader struct {
	c *Conn
}

func NewChunkReader(input []byte, splits []int, stride int) *ChunkReader {
	return &ChunkReader{c: NewConn(Script{Input: input, Splits: splits, Stride: stride})}
}

// NewChunkReaderEOFWithData is NewChunkReader for a reader that reports the end of the
// stream together with the last data.
func NewChunkReaderEOFWithData(input []byte, splits []int, stride int) *ChunkReader {
	return &ChunkReader{c: NewConn(Script{Input: input, Splits: splits, Stride: stride, EOFWithData: true})}
}

// Reads is the number of Read calls that delivered data.
func (r *ChunkReader) Reads() int { return r.c.reads }

// ReadsAfterEnd is the number of Read calls made after end of stream was reported.
func (r *ChunkReader) ReadsAfterEnd() int { return r.c.ReadsAfterEnd }

func (r *ChunkReader) Read(p []byte) (int, error) { return r.c.Read(p) }
