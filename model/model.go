// Package model is a deliberately boring executable model of the Redis
// semantics of the commands named by properties C12, C16 and C18. It is
// written from the Redis command reference, independently of the repository.
package model

import (
	"math"
	"sort"
	"strconv"
	"strings"

	"verif/resp"
)

// Entry is one key of the model.
type Entry struct {
	Type string // string | hash | list | set | zset
	Str  string
	Hash map[string]string
	List []string
	Set  map[string]bool
	ZSet map[string]float64
}

// State is the whole keyspace (one database).
type State struct {
	Keys map[string]*Entry
}

func New() *State { return &State{Keys: map[string]*Entry{}} }

// Clone returns a deep copy.
func (s *State) Clone() *State {
	c := New()
	for k, e := range s.Keys {
		n := &Entry{Type: e.Type, Str: e.Str}
		if e.Hash != nil {
			n.Hash = map[string]string{}
			for a, b := range e.Hash {
				n.Hash[a] = b
			}
		}
		n.List = append([]string(nil), e.List...)
		if e.Set != nil {
			n.Set = map[string]bool{}
			for a := range e.Set {
				n.Set[a] = true
			}
		}
		if e.ZSet != nil {
			n.ZSet = map[string]float64{}
			for a, b := range e.ZSet {
				n.ZSet[a] = b
			}
		}
		c.Keys[k] = n
	}
	return c
}

// Canon is a canonical rendering of the state.
func (s *State) Canon() string {
	keys := make([]string, 0, len(s.Keys))
	for k := range s.Keys {
		keys = append(keys, k)
	}
	sort.Strings(keys)
	var b strings.Builder
	for _, k := range keys {
		e := s.Keys[k]
		b.WriteString(strconv.Quote(k))
		b.WriteByte(':')
		b.WriteString(e.Type)
		b.WriteByte('=')
		switch e.Type {
		case "string":
			b.WriteString(strconv.Quote(e.Str))
		case "hash":
			fs := make([]string, 0, len(e.Hash))
			for f := range e.Hash {
				fs = append(fs, f)
			}
			sort.Strings(fs)
			for _, f := range fs {
				b.WriteString(strconv.Quote(f) + ">" + strconv.Quote(e.Hash[f]) + ",")
			}
		case "list":
			for _, x := range e.List {
				b.WriteString(strconv.Quote(x) + ",")
			}
		case "set":
			ms := make([]string, 0, len(e.Set))
			for m := range e.Set {
				ms = append(ms, m)
			}
			sort.Strings(ms)
			for _, m := range ms {
				b.WriteString(strconv.Quote(m) + ",")
			}
		case "zset":
			for _, m := range e.zsorted() {
				b.WriteString(strconv.Quote(m) + "@" + FmtScore(e.ZSet[m]) + ",")
			}
		}
		b.WriteByte(';')
	}
	return b.String()
}

// FmtScore formats a score the way the server under test does for
// integer-valued and simple scores (shortest round-trip form).
func FmtScore(f float64) string { return strconv.FormatFloat(f, 'g', -1, 64) }

func (e *Entry) zsorted() []string {
	ms := make([]string, 0, len(e.ZSet))
	for m := range e.ZSet {
		ms = append(ms, m)
	}
	sort.Slice(ms, func(i, j int) bool {
		if e.ZSet[ms[i]] != e.ZSet[ms[j]] {
			return e.ZSet[ms[i]] < e.ZSet[ms[j]]
		}
		return ms[i] < ms[j]
	})
	return ms
}

var (
	errWrongType = resp.E("WRONGTYPE Operation against a key holding the wrong kind of value")
	errNotInt    = resp.E("ERR value is not an integer or out of range")
	errSyntax    = resp.E("ERR syntax error")
	errNoKey     = resp.E("ERR no such key")
	errArgs      = resp.E("ERR wrong number of arguments")
	ok           = resp.S("OK")
)

func (s *State) get(key, typ string) (*Entry, bool, bool) { // entry, exists, wrongtype
	e, exists := s.Keys[key]
	if !exists {
		return nil, false, false
	}
	if e.Type != typ {
		return e, true, true
	}
	return e, true, false
}

// ParseInt is Redis's string2ll: canonical decimal integers only.
func ParseInt(v string) (int64, bool) {
	if v == "" {
		return 0, false
	}
	n, err := strconv.ParseInt(v, 10, 64)
	if err != nil {
		return 0, false
	}
	if strconv.FormatInt(n, 10) != v {
		return 0, false
	}
	return n, true
}

func parseBound(v string) (f float64, ex bool, okk bool) {
	if strings.HasPrefix(v, "(") {
		ex = true
		v = v[1:]
	}
	f, err := strconv.ParseFloat(v, 64)
	if err != nil || math.IsNaN(f) {
		return 0, false, false
	}
	return f, ex, true
}

func bulkList(l []string) resp.Value {
	v := resp.A()
	for _, x := range l {
		v.Elems = append(v.Elems, resp.B(x))
	}
	return v
}

// rangeIdx applies Redis's start/stop index rules; ok=false means empty.
func rangeIdx(n int, start, stop int64) (int, int, bool) {
	l := int64(n)
	if start < 0 {
		start += l
	}
	if stop < 0 {
		stop += l
	}
	if start < 0 {
		start = 0
	}
	if start > stop || start >= l {
		return 0, 0, false
	}
	if stop >= l {
		stop = l - 1
	}
	return int(start), int(stop), true
}

// Apply executes one command and returns the reply Redis defines.
func (s *State) Apply(args []string) resp.Value {
	if len(args) == 0 {
		return errArgs
	}
	cmd := strings.ToUpper(args[0])
	a := args[1:]
	need := func(n int) bool { return len(a) == n }
	atLeast := func(n int) bool { return len(a) >= n }
	switch cmd {
	case "PING":
		if len(a) == 0 {
			return resp.S("PONG")
		}
		return resp.B(a[0])
	case "ECHO":
		if !need(1) {
			return errArgs
		}
		return resp.B(a[0])

	// ---------------- strings ----------------
	case "GET":
		if !need(1) {
			return errArgs
		}
		e, ex, wt := s.get(a[0], "string")
		if !ex {
			return resp.Nil()
		}
		if wt {
			return errWrongType
		}
		return resp.B(e.Str)
	case "SET":
		if !atLeast(2) {
			return errArgs
		}
		nx, xx, get := false, false, false
		for _, o := range a[2:] {
			switch strings.ToUpper(o) {
			case "NX":
				nx = true
			case "XX":
				xx = true
			case "GET":
				get = true
			default:
				return errSyntax
			}
		}
		old, exists := s.Keys[a[0]]
		var prev resp.Value = resp.Nil()
		if exists && old.Type == "string" {
			prev = resp.B(old.Str)
		}
		if (nx && exists) || (xx && !exists) {
			if get {
				return prev
			}
			return resp.Nil()
		}
		s.Keys[a[0]] = &Entry{Type: "string", Str: a[1]}
		if get {
			return prev
		}
		return ok
	case "SETNX":
		if !need(2) {
			return errArgs
		}
		if _, exists := s.Keys[a[0]]; exists {
			return resp.I(0)
		}
		s.Keys[a[0]] = &Entry{Type: "string", Str: a[1]}
		return resp.I(1)
	case "GETSET":
		if !need(2) {
			return errArgs
		}
		e, ex, wt := s.get(a[0], "string")
		if wt {
			return errWrongType
		}
		var prev resp.Value = resp.Nil()
		if ex {
			prev = resp.B(e.Str)
		}
		s.Keys[a[0]] = &Entry{Type: "string", Str: a[1]}
		return prev
	case "MSET":
		if len(a) == 0 || len(a)%2 != 0 {
			return errArgs
		}
		for i := 0; i < len(a); i += 2 {
			s.Keys[a[i]] = &Entry{Type: "string", Str: a[i+1]}
		}
		return ok
	case "MSETNX":
		if len(a) == 0 || len(a)%2 != 0 {
			return errArgs
		}
		for i := 0; i < len(a); i += 2 {
			if _, exists := s.Keys[a[i]]; exists {
				return resp.I(0)
			}
		}
		for i := 0; i < len(a); i += 2 {
			s.Keys[a[i]] = &Entry{Type: "string", Str: a[i+1]}
		}
		return resp.I(1)
	case "MGET":
		if !atLeast(1) {
			return errArgs
		}
		out := resp.A()
		for _, k := range a {
			e, ex, wt := s.get(k, "string")
			if !ex || wt {
				out.Elems = append(out.Elems, resp.Nil())
			} else {
				out.Elems = append(out.Elems, resp.B(e.Str))
			}
		}
		return out
	case "APPEND":
		if !need(2) {
			return errArgs
		}
		e, ex, wt := s.get(a[0], "string")
		if wt {
			return errWrongType
		}
		if !ex {
			e = &Entry{Type: "string"}
			s.Keys[a[0]] = e
		}
		e.Str += a[1]
		return resp.I(int64(len(e.Str)))
	case "STRLEN":
		if !need(1) {
			return errArgs
		}
		e, ex, wt := s.get(a[0], "string")
		if wt {
			return errWrongType
		}
		if !ex {
			return resp.I(0)
		}
		return resp.I(int64(len(e.Str)))
	case "INCR", "DECR", "INCRBY", "DECRBY":
		var d int64 = 1
		if cmd == "INCRBY" || cmd == "DECRBY" {
			if !need(2) {
				return errArgs
			}
			v, okk := ParseInt(a[1])
			if !okk {
				return errNotInt
			}
			d = v
		} else if !need(1) {
			return errArgs
		}
		if cmd == "DECR" || cmd == "DECRBY" {
			if d == math.MinInt64 {
				return errNotInt
			}
			d = -d
		}
		e, ex, wt := s.get(a[0], "string")
		if wt {
			return errWrongType
		}
		var cur int64
		if ex {
			v, okk := ParseInt(e.Str)
			if !okk {
				return errNotInt
			}
			cur = v
		}
		if (d > 0 && cur > math.MaxInt64-d) || (d < 0 && cur < math.MinInt64-d) {
			return errNotInt
		}
		cur += d
		s.Keys[a[0]] = &Entry{Type: "string", Str: strconv.FormatInt(cur, 10)}
		return resp.I(cur)
	case "GETRANGE", "SUBSTR":
		if !need(3) {
			return errArgs
		}
		start, ok1 := ParseInt(a[1])
		end, ok2 := ParseInt(a[2])
		if !ok1 || !ok2 {
			return errNotInt
		}
		e, ex, wt := s.get(a[0], "string")
		if wt {
			return errWrongType
		}
		if !ex {
			return resp.B("")
		}
		l := int64(len(e.Str))
		if start < 0 && end < 0 && start > end {
			return resp.B("")
		}
		if start < 0 {
			start += l
		}
		if end < 0 {
			end += l
		}
		if start < 0 {
			start = 0
		}
		if end < 0 {
			end = 0
		}
		if end >= l {
			end = l - 1
		}
		if start > end || l == 0 {
			return resp.B("")
		}
		return resp.B(e.Str[start : end+1])

	// ---------------- hashes ----------------
	case "HSET", "HSETNX":
		if !need(3) {
			return errArgs
		}
		e, ex, wt := s.get(a[0], "hash")
		if wt {
			return errWrongType
		}
		if !ex {
			e = &Entry{Type: "hash", Hash: map[string]string{}}
			s.Keys[a[0]] = e
		}
		_, had := e.Hash[a[1]]
		if cmd == "HSETNX" && had {
			return resp.I(0)
		}
		e.Hash[a[1]] = a[2]
		if had {
			return resp.I(0)
		}
		return resp.I(1)
	case "HMSET":
		if len(a) < 3 || len(a)%2 != 1 {
			return errArgs
		}
		e, ex, wt := s.get(a[0], "hash")
		if wt {
			return errWrongType
		}
		if !ex {
			e = &Entry{Type: "hash", Hash: map[string]string{}}
			s.Keys[a[0]] = e
		}
		for i := 1; i < len(a); i += 2 {
			e.Hash[a[i]] = a[i+1]
		}
		return ok
	case "HGET", "HEXISTS", "HSTRLEN":
		if !need(2) {
			return errArgs
		}
		e, ex, wt := s.get(a[0], "hash")
		if wt {
			return errWrongType
		}
		v, had := "", false
		if ex {
			v, had = e.Hash[a[1]]
		}
		switch cmd {
		case "HGET":
			if !had {
				return resp.Nil()
			}
			return resp.B(v)
		case "HEXISTS":
			if had {
				return resp.I(1)
			}
			return resp.I(0)
		}
		return resp.I(int64(len(v)))
	case "HMGET":
		if !atLeast(2) {
			return errArgs
		}
		e, ex, wt := s.get(a[0], "hash")
		if wt {
			return errWrongType
		}
		out := resp.A()
		for _, f := range a[1:] {
			if ex {
				if v, had := e.Hash[f]; had {
					out.Elems = append(out.Elems, resp.B(v))
					continue
				}
			}
			out.Elems = append(out.Elems, resp.Nil())
		}
		return out
	case "HDEL":
		if !atLeast(2) {
			return errArgs
		}
		e, ex, wt := s.get(a[0], "hash")
		if wt {
			return errWrongType
		}
		n := int64(0)
		if ex {
			for _, f := range a[1:] {
				if _, had := e.Hash[f]; had {
					delete(e.Hash, f)
					n++
				}
			}
			if len(e.Hash) == 0 {
				delete(s.Keys, a[0])
			}
		}
		return resp.I(n)
	case "HGETALL", "HKEYS", "HVALS", "HLEN":
		if !need(1) {
			return errArgs
		}
		e, ex, wt := s.get(a[0], "hash")
		if wt {
			return errWrongType
		}
		var fs []string
		if ex {
			for f := range e.Hash {
				fs = append(fs, f)
			}
			sort.Strings(fs)
		}
		if cmd == "HLEN" {
			return resp.I(int64(len(fs)))
		}
		out := resp.A()
		for _, f := range fs {
			if cmd != "HVALS" {
				out.Elems = append(out.Elems, resp.B(f))
			}
			if cmd != "HKEYS" {
				out.Elems = append(out.Elems, resp.B(e.Hash[f]))
			}
		}
		return out

	// ---------------- lists ----------------
	case "LPUSH", "RPUSH", "LPUSHX", "RPUSHX":
		if !atLeast(2) {
			return errArgs
		}
		e, ex, wt := s.get(a[0], "list")
		if wt {
			return errWrongType
		}
		if !ex {
			if strings.HasSuffix(cmd, "X") {
				return resp.I(0)
			}
			e = &Entry{Type: "list"}
			s.Keys[a[0]] = e
		}
		for _, x := range a[1:] {
			if cmd[0] == 'L' {
				e.List = append([]string{x}, e.List...)
			} else {
				e.List = append(e.List, x)
			}
		}
		return resp.I(int64(len(e.List)))
	case "LPOP", "RPOP":
		if len(a) != 1 && len(a) != 2 {
			return errArgs
		}
		count, hasCount := int64(1), false
		if len(a) == 2 {
			c, okk := ParseInt(a[1])
			if !okk || c < 0 {
				return errNotInt
			}
			count, hasCount = c, true
		}
		e, ex, wt := s.get(a[0], "list")
		if wt {
			return errWrongType
		}
		if !ex {
			if hasCount {
				return resp.Value{Kind: resp.Array, Null: true}
			}
			return resp.Nil()
		}
		var popped []string
		for i := int64(0); i < count && len(e.List) > 0; i++ {
			if cmd == "LPOP" {
				popped = append(popped, e.List[0])
				e.List = e.List[1:]
			} else {
				popped = append(popped, e.List[len(e.List)-1])
				e.List = e.List[:len(e.List)-1]
			}
		}
		if len(e.List) == 0 {
			delete(s.Keys, a[0])
		}
		if !hasCount {
			return resp.B(popped[0])
		}
		return bulkList(popped)
	case "LRANGE":
		if !need(3) {
			return errArgs
		}
		st, ok1 := ParseInt(a[1])
		sp, ok2 := ParseInt(a[2])
		if !ok1 || !ok2 {
			return errNotInt
		}
		e, ex, wt := s.get(a[0], "list")
		if wt {
			return errWrongType
		}
		if !ex {
			return resp.A()
		}
		i, j, okk := rangeIdx(len(e.List), st, sp)
		if !okk {
			return resp.A()
		}
		return bulkList(e.List[i : j+1])
	case "LINDEX":
		if !need(2) {
			return errArgs
		}
		idx, ok1 := ParseInt(a[1])
		if !ok1 {
			return errNotInt
		}
		e, ex, wt := s.get(a[0], "list")
		if wt {
			return errWrongType
		}
		if !ex {
			return resp.Nil()
		}
		if idx < 0 {
			idx += int64(len(e.List))
		}
		if idx < 0 || idx >= int64(len(e.List)) {
			return resp.Nil()
		}
		return resp.B(e.List[idx])
	case "LLEN":
		if !need(1) {
			return errArgs
		}
		e, ex, wt := s.get(a[0], "list")
		if wt {
			return errWrongType
		}
		if !ex {
			return resp.I(0)
		}
		return resp.I(int64(len(e.List)))

	// ---------------- sets ----------------
	case "SADD":
		if !atLeast(2) {
			return errArgs
		}
		e, ex, wt := s.get(a[0], "set")
		if wt {
			return errWrongType
		}
		if !ex {
			e = &Entry{Type: "set", Set: map[string]bool{}}
			s.Keys[a[0]] = e
		}
		n := int64(0)
		for _, m := range a[1:] {
			if !e.Set[m] {
				e.Set[m] = true
				n++
			}
		}
		return resp.I(n)
	case "SREM":
		if !atLeast(2) {
			return errArgs
		}
		e, ex, wt := s.get(a[0], "set")
		if wt {
			return errWrongType
		}
		n := int64(0)
		if ex {
			for _, m := range a[1:] {
				if e.Set[m] {
					delete(e.Set, m)
					n++
				}
			}
			if len(e.Set) == 0 {
				delete(s.Keys, a[0])
			}
		}
		return resp.I(n)
	case "SMEMBERS", "SCARD":
		if !need(1) {
			return errArgs
		}
		e, ex, wt := s.get(a[0], "set")
		if wt {
			return errWrongType
		}
		var ms []string
		if ex {
			for m := range e.Set {
				ms = append(ms, m)
			}
			sort.Strings(ms)
		}
		if cmd == "SCARD" {
			return resp.I(int64(len(ms)))
		}
		return bulkList(ms)
	case "SISMEMBER":
		if !need(2) {
			return errArgs
		}
		e, ex, wt := s.get(a[0], "set")
		if wt {
			return errWrongType
		}
		if ex && e.Set[a[1]] {
			return resp.I(1)
		}
		return resp.I(0)

	// ---------------- sorted sets ----------------
	case "ZADD":
		var nx, xx, gt, lt, ch, incr bool
		i := 1
	zaddOpts:
		for ; i < len(a); i++ {
			switch strings.ToUpper(a[i]) {
			case "NX":
				nx = true
			case "XX":
				xx = true
			case "GT":
				gt = true
			case "LT":
				lt = true
			case "CH":
				ch = true
			case "INCR":
				incr = true
			default:
				break zaddOpts
			}
		}
		pairs := a[min(i, len(a)):]
		if len(a) < 3 || len(pairs) == 0 || len(pairs)%2 != 0 {
			return errArgs
		}
		if nx && xx {
			return resp.E("ERR XX and NX options at the same time are not compatible")
		}
		if (gt && lt) || (gt && nx) || (lt && nx) {
			return resp.E("ERR GT, LT, and/or NX options at the same time are not compatible")
		}
		if incr && len(pairs) != 2 {
			return resp.E("ERR INCR option supports a single increment-element pair")
		}
		for j := 0; j < len(pairs); j += 2 {
			if f, err := strconv.ParseFloat(pairs[j], 64); err != nil || math.IsNaN(f) {
				return resp.E("ERR value is not a valid float")
			}
		}
		e, ex, wt := s.get(a[0], "zset")
		if wt {
			return errWrongType
		}
		if !ex {
			e = &Entry{Type: "zset", ZSet: map[string]float64{}}
		}
		added, changed := int64(0), int64(0)
		var incrReply *resp.Value
		for j := 0; j < len(pairs); j += 2 {
			f, _ := strconv.ParseFloat(pairs[j], 64)
			cur, had := e.ZSet[pairs[j+1]]
			if incr {
				nv := resp.Nil()
				incrReply = &nv
			}
			if (had && nx) || (!had && xx) {
				continue
			}
			if incr && had {
				f += cur
				if math.IsNaN(f) {
					return resp.E("ERR resulting score is not a number (NaN)")
				}
			}
			if had && ((gt && f <= cur) || (lt && f >= cur)) {
				continue
			}
			if !had {
				added++
			} else if f != cur {
				changed++
			}
			e.ZSet[pairs[j+1]] = f
			if incr {
				nv := resp.B(FmtScore(f))
				incrReply = &nv
			}
		}
		if !ex && len(e.ZSet) > 0 {
			s.Keys[a[0]] = e
		}
		if incrReply != nil {
			return *incrReply
		}
		if ch {
			return resp.I(added + changed)
		}
		return resp.I(added)
	case "ZINCRBY":
		if !need(3) {
			return errArgs
		}
		f, err := strconv.ParseFloat(a[1], 64)
		if err != nil || math.IsNaN(f) {
			return resp.E("ERR value is not a valid float")
		}
		e, ex, wt := s.get(a[0], "zset")
		if wt {
			return errWrongType
		}
		if !ex {
			e = &Entry{Type: "zset", ZSet: map[string]float64{}}
			s.Keys[a[0]] = e
		}
		e.ZSet[a[2]] += f
		return resp.B(FmtScore(e.ZSet[a[2]]))
	case "ZREM":
		if !atLeast(2) {
			return errArgs
		}
		e, ex, wt := s.get(a[0], "zset")
		if wt {
			return errWrongType
		}
		n := int64(0)
		if ex {
			for _, m := range a[1:] {
				if _, had := e.ZSet[m]; had {
					delete(e.ZSet, m)
					n++
				}
			}
			if len(e.ZSet) == 0 {
				delete(s.Keys, a[0])
			}
		}
		return resp.I(n)
	case "ZSCORE":
		if !need(2) {
			return errArgs
		}
		e, ex, wt := s.get(a[0], "zset")
		if wt {
			return errWrongType
		}
		if ex {
			if f, had := e.ZSet[a[1]]; had {
				return resp.B(FmtScore(f))
			}
		}
		return resp.Nil()
	case "ZCARD":
		if !need(1) {
			return errArgs
		}
		e, ex, wt := s.get(a[0], "zset")
		if wt {
			return errWrongType
		}
		if !ex {
			return resp.I(0)
		}
		return resp.I(int64(len(e.ZSet)))
	case "ZRANGE", "ZREVRANGE":
		if !atLeast(3) {
			return errArgs
		}
		withScores, rev, byScore, limit := false, cmd == "ZREVRANGE", false, false
		off, cnt := int64(0), int64(-1)
		for i := 3; i < len(a); i++ {
			o := strings.ToUpper(a[i])
			switch {
			case o == "WITHSCORES":
				withScores = true
			case o == "REV" && cmd == "ZRANGE":
				rev = true
			case o == "BYSCORE" && cmd == "ZRANGE":
				byScore = true
			case o == "LIMIT" && cmd == "ZRANGE":
				if i+2 >= len(a) {
					return errSyntax
				}
				o1, ok3 := ParseInt(a[i+1])
				c1, ok4 := ParseInt(a[i+2])
				if !ok3 || !ok4 {
					return errNotInt
				}
				off, cnt, limit = o1, c1, true
				i += 2
			default:
				return errSyntax
			}
		}
		if limit && !byScore {
			return resp.E("ERR syntax error, LIMIT is only supported in combination with either BYSCORE or BYLEX")
		}
		if byScore {
			// ZRANGE key start stop BYSCORE [REV]: with REV start is the maximum
			lo, hi := a[1], a[2]
			if rev {
				lo, hi = a[2], a[1]
			}
			min, minEx, ok1 := parseBound(lo)
			max, maxEx, ok2 := parseBound(hi)
			if !ok1 || !ok2 {
				return resp.E("ERR min or max is not a float")
			}
			e, ex, wt := s.get(a[0], "zset")
			if wt {
				return errWrongType
			}
			if !ex {
				return resp.A()
			}
			return zreply(e, zselectByScore(e, min, minEx, max, maxEx, rev, off, cnt), withScores)
		}
		st, ok1 := ParseInt(a[1])
		sp, ok2 := ParseInt(a[2])
		if !ok1 || !ok2 {
			return errNotInt
		}
		e, ex, wt := s.get(a[0], "zset")
		if wt {
			return errWrongType
		}
		if !ex {
			return resp.A()
		}
		ms := e.zsorted()
		if rev {
			for i, j := 0, len(ms)-1; i < j; i, j = i+1, j-1 {
				ms[i], ms[j] = ms[j], ms[i]
			}
		}
		i, j, okk := rangeIdx(len(ms), st, sp)
		if !okk {
			return resp.A()
		}
		return zreply(e, ms[i:j+1], withScores)
	case "ZRANGEBYSCORE", "ZREVRANGEBYSCORE":
		if !atLeast(3) {
			return errArgs
		}
		lo, hi := a[1], a[2]
		if cmd == "ZREVRANGEBYSCORE" {
			lo, hi = a[2], a[1]
		}
		min, minEx, ok1 := parseBound(lo)
		max, maxEx, ok2 := parseBound(hi)
		if !ok1 || !ok2 {
			return resp.E("ERR min or max is not a float")
		}
		withScores := false
		off, cnt := int64(0), int64(-1)
		for i := 3; i < len(a); i++ {
			switch strings.ToUpper(a[i]) {
			case "WITHSCORES":
				withScores = true
			case "LIMIT":
				if i+2 >= len(a) {
					return errSyntax
				}
				o, ok3 := ParseInt(a[i+1])
				c, ok4 := ParseInt(a[i+2])
				if !ok3 || !ok4 {
					return errNotInt
				}
				off, cnt = o, c
				i += 2
			default:
				return errSyntax
			}
		}
		e, ex, wt := s.get(a[0], "zset")
		if wt {
			return errWrongType
		}
		if !ex {
			return resp.A()
		}
		sel := zselectByScore(e, min, minEx, max, maxEx, cmd == "ZREVRANGEBYSCORE", off, cnt)
		return zreply(e, sel, withScores)

	// ---------------- generic ----------------
	case "DEL":
		if !atLeast(1) {
			return errArgs
		}
		n := int64(0)
		for _, k := range a {
			if _, exists := s.Keys[k]; exists {
				delete(s.Keys, k)
				n++
			}
		}
		return resp.I(n)
	case "EXISTS":
		if !atLeast(1) {
			return errArgs
		}
		n := int64(0)
		for _, k := range a {
			if _, exists := s.Keys[k]; exists {
				n++
			}
		}
		return resp.I(n)
	case "TYPE":
		if !need(1) {
			return errArgs
		}
		if e, exists := s.Keys[a[0]]; exists {
			return resp.S(e.Type)
		}
		return resp.S("none")
	case "RENAME", "RENAMENX":
		if !need(2) {
			return errArgs
		}
		e, exists := s.Keys[a[0]]
		if !exists {
			return errNoKey
		}
		if cmd == "RENAMENX" {
			if _, taken := s.Keys[a[1]]; taken {
				return resp.I(0)
			}
		}
		if a[0] != a[1] {
			delete(s.Keys, a[0])
			s.Keys[a[1]] = e
		}
		if cmd == "RENAMENX" {
			return resp.I(1)
		}
		return ok
	case "KEYS":
		if !need(1) {
			return errArgs
		}
		var ks []string
		for k := range s.Keys {
			if globMatch(a[0], k) {
				ks = append(ks, k)
			}
		}
		sort.Strings(ks)
		return bulkList(ks)
	}
	return resp.E("ERR unknown command '" + args[0] + "'")
}

// zselectByScore returns the members with min <= score <= max (bounds
// exclusive as flagged), ascending or descending, after LIMIT off cnt.
func zselectByScore(e *Entry, min float64, minEx bool, max float64, maxEx bool, rev bool, off, cnt int64) []string {
	var sel []string
	for _, m := range e.zsorted() {
		sc := e.ZSet[m]
		if sc < min || (minEx && sc == min) || sc > max || (maxEx && sc == max) {
			continue
		}
		sel = append(sel, m)
	}
	if rev {
		for i, j := 0, len(sel)-1; i < j; i, j = i+1, j-1 {
			sel[i], sel[j] = sel[j], sel[i]
		}
	}
	if off < 0 || off >= int64(len(sel)) {
		return nil
	}
	sel = sel[off:]
	if cnt >= 0 && cnt < int64(len(sel)) {
		sel = sel[:cnt]
	}
	return sel
}

func zreply(e *Entry, ms []string, withScores bool) resp.Value {
	out := resp.A()
	for _, m := range ms {
		out.Elems = append(out.Elems, resp.B(m))
		if withScores {
			out.Elems = append(out.Elems, resp.B(FmtScore(e.ZSet[m])))
		}
	}
	return out
}

func globMatch(p, k string) bool {
	if p == "" {
		return k == ""
	}
	switch p[0] {
	case '*':
		for i := 0; i <= len(k); i++ {
			if globMatch(p[1:], k[i:]) {
				return true
			}
		}
		return false
	case '?':
		return k != "" && globMatch(p[1:], k[1:])
	}
	return k != "" && k[0] == p[0] && globMatch(p[1:], k[1:])
}
