// vcheck is the single checker binary: `vcheck run <ID> <tier>` is the parent
// that shards a property's exploration over worker subprocesses, `vcheck
// worker …` is one shard, `vcheck replay <file>` re-executes a recorded case.
package main

import (
	"fmt"
	"os"
	"strconv"
	"time"

	"verif/fw"
	_ "verif/props"
)

func main() {
	if len(os.Args) < 2 {
		usage()
	}
	root := os.Getenv("VERIF_ROOT")
	if root == "" {
		root = "/verif"
	}
	switch os.Args[1] {
	case "run":
		if len(os.Args) < 4 {
			usage()
		}
		self, err := os.Executable()
		if err != nil {
			fmt.Fprintln(os.Stderr, err)
			os.Exit(2)
		}
		os.Exit(fw.RunMain(root, os.Args[2], os.Args[3], self))
	case "worker":
		if len(os.Args) < 7 {
			usage()
		}
		shard, _ := strconv.Atoi(os.Args[4])
		n, _ := strconv.Atoi(os.Args[5])
		seed, _ := strconv.ParseInt(os.Args[6], 10, 64)
		var deadline time.Time
		if len(os.Args) > 7 {
			ns, _ := strconv.ParseInt(os.Args[7], 10, 64)
			deadline = time.Unix(0, ns)
		}
		os.Exit(fw.WorkerMain(os.Args[2], os.Args[3], shard, n, seed, deadline))
	case "replay":
		if len(os.Args) < 3 {
			usage()
		}
		os.Exit(fw.ReplayMain(os.Args[2]))
	case "list":
		for _, id := range fw.IDs() {
			fmt.Println(id)
		}
	case "aux":
		if len(os.Args) < 3 {
			usage()
		}
		f := fw.Aux(os.Args[2])
		if f == nil {
			fmt.Fprintf(os.Stderr, "unknown aux command %s\n", os.Args[2])
			os.Exit(2)
		}
		os.Exit(f(os.Args[3:]))
	default:
		usage()
	}
}

func usage() {
	fmt.Fprintln(os.Stderr, "usage: vcheck run <ID> quick|thorough | worker … | replay <file> | list | aux <name> …")
	os.Exit(2)
}
