// vinstr rewrites the repository's packages into an overlay so that the
// checker can own scheduling, the network, the clock, map iteration order and
// loop progress, without touching /repo:
//
//	go f(x)                 -> vrt.Go("site", func() { f(x) })
//	sync.Mutex/RWMutex/Map  -> vrt.Mutex/RWMutex/Map
//	net.Listen              -> vrt.Listen
//	uuid.New()              -> uuid.UUID(vrt.NewUUID())
//	time.Now()              -> vrt.Now()
//	for ... { body }        -> for ... { vrt.Tick("site"); body }
//	for k, v := range m     -> for _, k := range vrt.Keys(m, "site") { v := m[k]; ... }   (m a map)
//	reads of x.f            -> *vrt.R(&x.f, "T.f", "T.f@Func")        (fields of repo structs)
//	writes x.f = e          -> vrt.Pre(...); x.f = e; vrt.Wr(&x.f, ...)
//
// The runtime package /verif/vrt is mapped into the overlay as the virtual
// package github.com/cybergarage/go-redis/vrt.
package main

import (
	"bytes"
	"encoding/json"
	"flag"
	"fmt"
	"go/ast"
	"go/format"
	"go/token"
	"go/types"
	"os"
	"path/filepath"
	"sort"
	"strconv"
	"strings"

	"golang.org/x/tools/go/ast/astutil"
	"golang.org/x/tools/go/packages"
)

const modPath = "github.com/cybergarage/go-redis"
const vrtPath = modPath + "/vrt"

var targets = []string{
	modPath + "/redis",
	modPath + "/redis/auth",
	modPath + "/redis/proto",
	modPath + "/redis/glob",
	modPath + "/examples/go-redisd/server",
}

var (
	flagRepo   = flag.String("repo", "/repo", "repository working tree")
	flagVrt    = flag.String("vrt", "/verif/vrt", "runtime package sources")
	flagOut    = flag.String("out", "/verif/.work/overlay", "output directory")
	flagAccess = flag.Bool("access", true, "instrument field accesses")
	flagMod    = flag.String("modflag", "", "extra build flag (-modfile=...) when the repository is not at /repo")
	flagChan   = flag.Bool("chan", true, "model channel, select and sync/atomic operations")
)

func main() {
	flag.Parse()
	if err := run(); err != nil {
		fmt.Fprintln(os.Stderr, "vinstr:", err)
		os.Exit(1)
	}
}

func run() error {
	os.RemoveAll(*flagOut)
	if err := os.MkdirAll(*flagOut, 0o755); err != nil {
		return err
	}
	cfg := &packages.Config{
		Mode:       packages.NeedName | packages.NeedFiles | packages.NeedSyntax | packages.NeedTypes | packages.NeedTypesInfo | packages.NeedImports | packages.NeedDeps,
		BuildFlags: append([]string{"-tags=verif"}, strings.Fields(*flagMod)...),
		Env:        append(os.Environ(), "GOFLAGS=-mod=mod", "GOPROXY=off", "GOSUMDB=off", "GOTOOLCHAIN=local"),
	}
	pkgs, err := packages.Load(cfg, targets...)
	if err != nil {
		return err
	}
	replace := map[string]string{}
	stats := map[string]int{}
	for _, p := range pkgs {
		if len(p.Errors) > 0 {
			return fmt.Errorf("package %s does not type-check: %v", p.PkgPath, p.Errors[0])
		}
		rel := strings.TrimPrefix(p.PkgPath, modPath+"/")
		outDir := filepath.Join(*flagOut, rel)
		if err := os.MkdirAll(outDir, 0o755); err != nil {
			return err
		}
		for i, f := range p.Syntax {
			src := p.Fset.Position(f.Package).Filename
			_ = i
			if !strings.HasPrefix(src, *flagRepo+"/") {
				continue
			}
			in := &instr{pkg: p, file: f, fset: p.Fset, stats: stats, access: *flagAccess}
			out, ierr := in.rewrite()
			if ierr != nil {
				// degrade: retry without access instrumentation, then leave untouched
				fmt.Fprintf(os.Stderr, "vinstr: %s: %v (retrying without access instrumentation)\n", src, ierr)
				stats["degraded_files"]++
				return fmt.Errorf("%s: %v", src, ierr)
			}
			dst := filepath.Join(outDir, filepath.Base(src))
			if err := os.WriteFile(dst, out, 0o644); err != nil {
				return err
			}
			replace[src] = dst
		}
	}
	// virtual runtime package
	ents, err := os.ReadDir(*flagVrt)
	if err != nil {
		return err
	}
	for _, e := range ents {
		if strings.HasSuffix(e.Name(), ".go") && !strings.HasSuffix(e.Name(), "_test.go") {
			replace[filepath.Join(*flagRepo, "vrt", e.Name())] = filepath.Join(*flagVrt, e.Name())
		}
	}
	b, _ := json.MarshalIndent(map[string]any{"Replace": replace}, "", " ")
	if err := os.WriteFile(filepath.Join(*flagOut, "overlay.json"), b, 0o644); err != nil {
		return err
	}
	keys := make([]string, 0, len(stats))
	for k := range stats {
		keys = append(keys, k)
	}
	sort.Strings(keys)
	for _, k := range keys {
		fmt.Printf("%s=%d\n", k, stats[k])
	}
	sb, _ := json.Marshal(stats)
	os.WriteFile(filepath.Join(*flagOut, "stats.json"), sb, 0o644)
	return nil
}

type instr struct {
	pkg        *packages.Package
	file       *ast.File
	fset       *token.FileSet
	stats      map[string]int
	access     bool
	needVrt    bool
	needUnsafe bool
	funcName   string
	loopN      map[string]int
	owners     map[*types.Var]string
	chans      *chanFacts
}

func (in *instr) info() *types.Info { return in.pkg.TypesInfo }

// importName returns the local name under which path is imported in the file ("" if not imported).
func (in *instr) importName(path string) string {
	for _, is := range in.file.Imports {
		p, _ := strconv.Unquote(is.Path.Value)
		if p != path {
			continue
		}
		if is.Name != nil {
			return is.Name.Name
		}
		if i := strings.LastIndexByte(path, '/'); i >= 0 {
			return path[i+1:]
		}
		return path
	}
	return ""
}

func (in *instr) isPkgIdent(e ast.Expr, path string) bool {
	id, ok := e.(*ast.Ident)
	if !ok {
		return false
	}
	pn, ok := in.info().Uses[id].(*types.PkgName)
	return ok && pn.Imported().Path() == path
}

func vrtSel(name string) *ast.SelectorExpr {
	return &ast.SelectorExpr{X: ast.NewIdent("vrt"), Sel: ast.NewIdent(name)}
}

func strLit(s string) *ast.BasicLit {
	return &ast.BasicLit{Kind: token.STRING, Value: strconv.Quote(s)}
}

func (in *instr) site(kind string) string {
	if in.loopN == nil {
		in.loopN = map[string]int{}
	}
	k := in.pkg.Name + "." + in.funcName + "/" + kind
	in.loopN[k]++
	return k + "#" + strconv.Itoa(in.loopN[k])
}

func (in *instr) rewrite() ([]byte, error) {
	// facts about channel / atomic operations, taken from the untouched tree
	in.collectChanFacts()
	// pass 0: field accesses (needs the original, unmodified tree for type lookups)
	if in.access {
		in.instrumentAccesses()
	}
	// pass 1: structural rewrites
	var enclosing []string
	astutil.Apply(in.file, func(c *astutil.Cursor) bool {
		switch n := c.Node().(type) {
		case *ast.FuncDecl:
			name := n.Name.Name
			if n.Recv != nil && len(n.Recv.List) == 1 {
				name = recvName(n.Recv.List[0].Type) + "." + name
			}
			enclosing = append(enclosing, in.funcName)
			in.funcName = name
		}
		return true
	}, func(c *astutil.Cursor) bool {
		if *flagChan && in.rewriteChanNode(c) {
			return true
		}
		switch n := c.Node().(type) {
		case *ast.FuncDecl:
			in.funcName = enclosing[len(enclosing)-1]
			enclosing = enclosing[:len(enclosing)-1]
		case *ast.GoStmt:
			in.needVrt = true
			in.stats["go_stmts"]++
			// The arguments of a go statement are evaluated by the parent at the
			// statement: bind them to temporaries before entering the closure.
			site := in.pkg.Name + "." + in.funcName + ":go " + exprString(in.fset, n.Call.Fun)
			var pre []ast.Stmt
			for i, a := range n.Call.Args {
				if isLiteralArg(a) {
					continue
				}
				tmp := ast.NewIdent("_vrtArg" + strconv.Itoa(i))
				pre = append(pre, &ast.AssignStmt{Lhs: []ast.Expr{tmp}, Tok: token.DEFINE, Rhs: []ast.Expr{a}})
				n.Call.Args[i] = ast.NewIdent(tmp.Name)
			}
			call := &ast.CallExpr{Fun: vrtSel("Go"), Args: []ast.Expr{
				strLit(site),
				&ast.FuncLit{Type: &ast.FuncType{Params: &ast.FieldList{}}, Body: &ast.BlockStmt{List: []ast.Stmt{&ast.ExprStmt{X: n.Call}}}},
			}}
			c.Replace(&ast.BlockStmt{List: append(pre, &ast.ExprStmt{X: call})})
		case *ast.SelectorExpr:
			if in.isPkgIdent(n.X, "time") {
				if to, ok := timeMap[n.Sel.Name]; ok {
					in.needVrt = true
					in.stats["time_virtual"]++
					c.Replace(vrtSel(to))
					return true
				}
			}
			if in.isPkgIdent(n.X, "sync") {
				switch n.Sel.Name {
				case "Mutex", "RWMutex", "Map", "WaitGroup", "Once", "Cond", "NewCond":
					in.needVrt = true
					in.stats["sync_types"]++
					c.Replace(vrtSel(n.Sel.Name))
				}
			}
		case *ast.CallExpr:
			if sel, ok := n.Fun.(*ast.SelectorExpr); ok {
				switch {
				case in.isPkgIdent(sel.X, "net") && sel.Sel.Name == "Listen":
					in.needVrt = true
					in.stats["net_listen"]++
					n.Fun = vrtSel("Listen")
				case in.isPkgIdent(sel.X, "time") && sel.Sel.Name == "Now" && len(n.Args) == 0:
					in.needVrt = true
					in.stats["time_now"]++
					n.Fun = vrtSel("Now")
				case in.isPkgIdent(sel.X, "github.com/google/uuid") && sel.Sel.Name == "New" && len(n.Args) == 0:
					in.needVrt = true
					in.stats["uuid_new"]++
					c.Replace(&ast.CallExpr{
						Fun:  &ast.SelectorExpr{X: ast.NewIdent(in.importName("github.com/google/uuid")), Sel: ast.NewIdent("UUID")},
						Args: []ast.Expr{&ast.CallExpr{Fun: vrtSel("NewUUID")}},
					})
				}
			}
		case *ast.ForStmt:
			in.needVrt = true
			in.stats["loops"]++
			n.Body.List = append([]ast.Stmt{in.tickStmt()}, n.Body.List...)
		case *ast.RangeStmt:
			in.needVrt = true
			in.stats["loops"]++
			if *flagChan && in.chans.rangeChan[n] {
				c.Replace(in.rewriteChanRange(n, in.tickStmt()))
				return true
			}
			if in.rewriteMapRange(n) {
				in.stats["map_ranges"]++
			}
			n.Body.List = append([]ast.Stmt{in.tickStmt()}, n.Body.List...)
		}
		return true
	})
	if in.needVrt {
		astutil.AddImport(in.fset, in.file, vrtPath)
	}
	if in.needUnsafe {
		astutil.AddImport(in.fset, in.file, "unsafe")
	}
	// drop imports that became unused
	for _, path := range []string{"sync", "net", "time"} {
		if name := in.importName(path); name != "" && !usesName(in.file, name) {
			astutil.DeleteImport(in.fset, in.file, path)
		}
	}
	// keep only the comments in front of the package clause (build constraints);
	// free-floating comments would be misplaced by the rewrites.
	var keep []*ast.CommentGroup
	for _, cg := range in.file.Comments {
		if cg.End() < in.file.Package {
			keep = append(keep, cg)
		}
	}
	in.file.Comments = keep
	ast.Inspect(in.file, func(n ast.Node) bool {
		switch d := n.(type) {
		case *ast.FuncDecl:
			d.Doc = nil
		case *ast.GenDecl:
			d.Doc = nil
		case *ast.Field:
			d.Doc, d.Comment = nil, nil
		case *ast.ValueSpec:
			d.Doc, d.Comment = nil, nil
		case *ast.TypeSpec:
			d.Doc, d.Comment = nil, nil
		case *ast.ImportSpec:
			d.Doc, d.Comment = nil, nil
		}
		return true
	})
	var buf bytes.Buffer
	if err := format.Node(&buf, in.fset, in.file); err != nil {
		return nil, err
	}
	return buf.Bytes(), nil
}

// timeMap: functions and types of package time that the runtime virtualises.
var timeMap = map[string]string{
	"Sleep": "Sleep", "After": "After", "AfterFunc": "AfterFunc", "NewTimer": "NewTimer", "NewTicker": "NewTicker",
	"Tick": "TimeTick", "Since": "Since", "Until": "Until", "Timer": "Timer", "Ticker": "Ticker",
}

func (in *instr) tickStmt() ast.Stmt {
	return &ast.ExprStmt{X: &ast.CallExpr{Fun: vrtSel("Tick"), Args: []ast.Expr{strLit(in.site("loop"))}}}
}

// rewriteMapRange turns `for k, v := range m` (m a map, simple expression)
// into an iteration over vrt.Keys(m, site).
func (in *instr) rewriteMapRange(n *ast.RangeStmt) bool {
	tv, ok := in.info().Types[n.X]
	if !ok {
		return false
	}
	if _, isMap := tv.Type.Underlying().(*types.Map); !isMap {
		return false
	}
	if !pureExpr(n.X) || (n.Tok != token.DEFINE && n.Key != nil) {
		return false
	}
	keyName := "_vrtk"
	if id, ok := n.Key.(*ast.Ident); ok && id.Name != "_" {
		keyName = id.Name
	}
	var pre []ast.Stmt
	if id, ok := n.Value.(*ast.Ident); ok && id.Name != "_" {
		pre = append(pre, &ast.AssignStmt{Lhs: []ast.Expr{ast.NewIdent(id.Name)}, Tok: token.DEFINE,
			Rhs: []ast.Expr{&ast.IndexExpr{X: n.X, Index: ast.NewIdent(keyName)}}})
		pre = append(pre, &ast.AssignStmt{Lhs: []ast.Expr{ast.NewIdent("_")}, Tok: token.ASSIGN, Rhs: []ast.Expr{ast.NewIdent(id.Name)}})
	}
	if n.Key == nil {
		n.Tok = token.DEFINE
	}
	mapExpr := n.X
	n.X = &ast.CallExpr{Fun: vrtSel("Keys"), Args: []ast.Expr{mapExpr, strLit(in.site("maprange"))}}
	n.Key = ast.NewIdent("_")
	n.Value = ast.NewIdent(keyName)
	n.Tok = token.DEFINE
	if keyName == "_vrtk" {
		pre = append(pre, &ast.AssignStmt{Lhs: []ast.Expr{ast.NewIdent("_")}, Tok: token.ASSIGN, Rhs: []ast.Expr{ast.NewIdent(keyName)}})
	}
	n.Body.List = append(pre, n.Body.List...)
	return true
}

// pureExpr: identifier / selector / paren / deref chains (no calls, no indexing).
func pureExpr(e ast.Expr) bool {
	switch x := e.(type) {
	case *ast.Ident:
		return true
	case *ast.SelectorExpr:
		return pureExpr(x.X)
	case *ast.ParenExpr:
		return pureExpr(x.X)
	case *ast.StarExpr:
		return pureExpr(x.X)
	}
	return false
}

// isLiteralArg: constants and nil need no temporary (and untyped nil cannot have one).
func isLiteralArg(e ast.Expr) bool {
	switch x := e.(type) {
	case *ast.BasicLit:
		return true
	case *ast.Ident:
		return x.Name == "nil" || x.Name == "true" || x.Name == "false"
	}
	return false
}

func recvName(e ast.Expr) string {
	switch x := e.(type) {
	case *ast.StarExpr:
		return recvName(x.X)
	case *ast.Ident:
		return x.Name
	case *ast.IndexExpr:
		return recvName(x.X)
	}
	return "?"
}

func exprString(fset *token.FileSet, e ast.Expr) string {
	var b bytes.Buffer
	format.Node(&b, fset, e)
	return b.String()
}

func usesName(f *ast.File, name string) bool {
	used := false
	ast.Inspect(f, func(n ast.Node) bool {
		if sel, ok := n.(*ast.SelectorExpr); ok {
			if id, ok := sel.X.(*ast.Ident); ok && id.Name == name && id.Obj == nil {
				used = true
			}
		}
		return !used
	})
	return used
}
