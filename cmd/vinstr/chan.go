package main

import (
	"go/ast"
	"go/token"
	"go/types"
	"strconv"

	"golang.org/x/tools/go/ast/astutil"
)

// Channel, select and sync/atomic instrumentation (type-directed).
//
//	make(chan T, n)          -> vrt.MakeChan(make(chan T, n))
//	ch <- v                  -> vrt.Send(ch, v, site)
//	<-ch                     -> vrt.Recv1(ch, site)
//	v, ok := <-ch            -> v, ok := vrt.Recv2(ch, site)
//	close(ch) / len(ch)      -> vrt.Close(ch, site) / vrt.ChanLen(ch)
//	for v := range ch {..}   -> for _vrtCh := ch; ; { v, _vrtOK := vrt.Recv2(_vrtCh, site); if !_vrtOK { break }; .. }
//	select { case ..: }      -> switch _vrtC0, _vrtC1 := vrt.RecvCase(c), vrt.SendCase(d, x); vrt.Select(site, hasDefault, _vrtC0, _vrtC1) {
//	                            case 0: v := _vrtC0.Val(); ..   case 1: ..   default: .. }
//	x.Load() (x of a sync/atomic type), atomic.AddInt32(&x, 1)
//	                         -> vrt.A(&x, site).Load(), atomic.AddInt32(vrt.A(&x, site), 1)
//
// The facts that need type information are collected on the untouched tree
// (collectChanFacts) because the other passes replace operand expressions.

type chanFacts struct {
	rangeChan map[*ast.RangeStmt]bool
	builtin   map[*ast.CallExpr]string // close / len of a channel
	makeChan  map[*ast.CallExpr]bool
	recv2     map[*ast.UnaryExpr]bool
	inSelect  map[ast.Node]bool
	atomicVal map[*ast.CallExpr]bool // method of a sync/atomic type, receiver expression is a value
	atomicPtr map[*ast.CallExpr]bool // ... receiver expression is a pointer
	atomicFn  map[*ast.CallExpr]bool // sync/atomic package function, first argument is the address
}

func (in *instr) isChanExpr(e ast.Expr) bool {
	tv, ok := in.info().Types[e]
	if !ok || tv.Type == nil {
		return false
	}
	_, isChan := tv.Type.Underlying().(*types.Chan)
	return isChan
}

func isRecv(e ast.Expr) (*ast.UnaryExpr, bool) {
	u, ok := unparen(e).(*ast.UnaryExpr)
	return u, ok && u.Op == token.ARROW
}

func (in *instr) collectChanFacts() {
	f := &chanFacts{
		rangeChan: map[*ast.RangeStmt]bool{}, builtin: map[*ast.CallExpr]string{}, makeChan: map[*ast.CallExpr]bool{},
		recv2: map[*ast.UnaryExpr]bool{}, inSelect: map[ast.Node]bool{},
		atomicVal: map[*ast.CallExpr]bool{}, atomicPtr: map[*ast.CallExpr]bool{}, atomicFn: map[*ast.CallExpr]bool{},
	}
	in.chans = f
	ast.Inspect(in.file, func(n ast.Node) bool {
		switch x := n.(type) {
		case *ast.RangeStmt:
			if in.isChanExpr(x.X) {
				f.rangeChan[x] = true
			}
		case *ast.AssignStmt:
			if len(x.Lhs) == 2 && len(x.Rhs) == 1 {
				if u, ok := isRecv(x.Rhs[0]); ok {
					f.recv2[u] = true
				}
			}
		case *ast.ValueSpec:
			if len(x.Names) == 2 && len(x.Values) == 1 {
				if u, ok := isRecv(x.Values[0]); ok {
					f.recv2[u] = true
				}
			}
		case *ast.SelectStmt:
			for _, cl := range x.Body.List {
				cc := cl.(*ast.CommClause)
				switch s := cc.Comm.(type) {
				case *ast.SendStmt:
					f.inSelect[s] = true
				case *ast.ExprStmt:
					if u, ok := isRecv(s.X); ok {
						f.inSelect[u] = true
					}
				case *ast.AssignStmt:
					if len(s.Rhs) == 1 {
						if u, ok := isRecv(s.Rhs[0]); ok {
							f.inSelect[u] = true
						}
					}
				}
			}
		case *ast.CallExpr:
			if id, ok := x.Fun.(*ast.Ident); ok {
				if _, isBuiltin := in.info().Uses[id].(*types.Builtin); isBuiltin {
					switch {
					case (id.Name == "close" || id.Name == "len") && len(x.Args) == 1 && in.isChanExpr(x.Args[0]):
						f.builtin[x] = id.Name
					case id.Name == "make" && len(x.Args) >= 1 && in.isChanExpr(x):
						f.makeChan[x] = true
					}
				}
			}
			if sel, ok := x.Fun.(*ast.SelectorExpr); ok {
				if in.isPkgIdent(sel.X, "sync/atomic") {
					if len(x.Args) >= 1 {
						if tv, ok := in.info().Types[x.Args[0]]; ok {
							if _, isPtr := tv.Type.Underlying().(*types.Pointer); isPtr {
								f.atomicFn[x] = true
							}
						}
					}
				} else if s := in.info().Selections[sel]; s != nil && s.Kind() == types.MethodVal {
					recv := s.Recv()
					if p, ok := recv.(*types.Pointer); ok {
						recv = p.Elem()
					}
					if named, ok := recv.(*types.Named); ok && named.Obj().Pkg() != nil && named.Obj().Pkg().Path() == "sync/atomic" {
						if tv, ok := in.info().Types[sel.X]; ok {
							if _, isPtr := tv.Type.Underlying().(*types.Pointer); isPtr {
								f.atomicPtr[x] = true
							} else if tv.Addressable() {
								f.atomicVal[x] = true
							}
						}
					}
				}
			}
		}
		return true
	})
}

func (in *instr) vrtCall(fn string, args ...ast.Expr) *ast.CallExpr {
	in.needVrt = true
	return &ast.CallExpr{Fun: vrtSel(fn), Args: args}
}

// rewriteChanNode is called in post-order by the structural pass. It returns
// true when it replaced or handled the node.
func (in *instr) rewriteChanNode(c *astutil.Cursor) bool {
	f := in.chans
	switch n := c.Node().(type) {
	case *ast.SendStmt:
		if f.inSelect[n] {
			return false
		}
		in.stats["chan_ops"]++
		c.Replace(&ast.ExprStmt{X: in.vrtCall("Send", n.Chan, n.Value, strLit(in.site("send")))})
		return true
	case *ast.UnaryExpr:
		if n.Op != token.ARROW || f.inSelect[n] {
			return false
		}
		in.stats["chan_ops"]++
		fn := "Recv1"
		if f.recv2[n] {
			fn = "Recv2"
		}
		c.Replace(in.vrtCall(fn, n.X, strLit(in.site("recv"))))
		return true
	case *ast.CallExpr:
		switch {
		case f.builtin[n] == "close":
			in.stats["chan_ops"]++
			c.Replace(in.vrtCall("Close", n.Args[0], strLit(in.site("close"))))
			return true
		case f.builtin[n] == "len":
			c.Replace(in.vrtCall("ChanLen", n.Args[0]))
			return true
		case f.makeChan[n]:
			delete(f.makeChan, n) // the replacement contains n itself
			in.stats["chan_makes"]++
			c.Replace(in.vrtCall("MakeChan", n))
			return true
		case f.atomicFn[n]:
			in.stats["atomic_ops"]++
			n.Args[0] = in.vrtCall("A", n.Args[0], strLit(in.site("atomic")))
			return true
		case f.atomicPtr[n]:
			in.stats["atomic_ops"]++
			sel := n.Fun.(*ast.SelectorExpr)
			sel.X = in.vrtCall("A", sel.X, strLit(in.site("atomic")))
			return true
		case f.atomicVal[n]:
			in.stats["atomic_ops"]++
			sel := n.Fun.(*ast.SelectorExpr)
			sel.X = in.vrtCall("A", addrOf(sel.X), strLit(in.site("atomic")))
			return true
		}
	case *ast.SelectStmt:
		in.stats["selects"]++
		c.Replace(in.rewriteSelect(n))
		return true
	}
	return false
}

// rewriteChanRange turns `for v := range ch` into a receive loop (the tick
// statement of the loop pass is added by the caller).
func (in *instr) rewriteChanRange(n *ast.RangeStmt, tick ast.Stmt) ast.Stmt {
	in.stats["chan_ops"]++
	chv := ast.NewIdent("_vrtCh")
	okv := ast.NewIdent("_vrtOK")
	recv := in.vrtCall("Recv2", chv, strLit(in.site("range")))
	var body []ast.Stmt
	body = append(body, tick)
	key := n.Key
	if key == nil {
		key = ast.NewIdent("_")
	}
	if n.Tok == token.ASSIGN {
		body = append(body, &ast.DeclStmt{Decl: &ast.GenDecl{Tok: token.VAR, Specs: []ast.Spec{&ast.ValueSpec{Names: []*ast.Ident{okv}, Type: ast.NewIdent("bool")}}}})
		body = append(body, &ast.AssignStmt{Lhs: []ast.Expr{key, ast.NewIdent(okv.Name)}, Tok: token.ASSIGN, Rhs: []ast.Expr{recv}})
	} else {
		body = append(body, &ast.AssignStmt{Lhs: []ast.Expr{key, okv}, Tok: token.DEFINE, Rhs: []ast.Expr{recv}})
	}
	body = append(body, &ast.IfStmt{Cond: &ast.UnaryExpr{Op: token.NOT, X: ast.NewIdent(okv.Name)}, Body: &ast.BlockStmt{List: []ast.Stmt{&ast.BranchStmt{Tok: token.BREAK}}}})
	body = append(body, n.Body.List...)
	return &ast.ForStmt{
		Init: &ast.AssignStmt{Lhs: []ast.Expr{chv}, Tok: token.DEFINE, Rhs: []ast.Expr{n.X}},
		Body: &ast.BlockStmt{List: body},
	}
}

func (in *instr) rewriteSelect(n *ast.SelectStmt) ast.Stmt {
	site := strLit(in.site("select"))
	var names, descs []ast.Expr
	var clauses []ast.Stmt
	hasDefault := "false"
	idx := 0
	for _, cl := range n.Body.List {
		cc := cl.(*ast.CommClause)
		if cc.Comm == nil {
			hasDefault = "true"
			// the select's default clause is the switch's default clause (a select whose
			// clauses all terminate stays a terminating statement)
			clauses = append(clauses, &ast.CaseClause{Body: cc.Body})
			continue
		}
		name := "_vrtC" + strconv.Itoa(idx)
		var bind ast.Stmt
		switch s := cc.Comm.(type) {
		case *ast.SendStmt:
			descs = append(descs, in.vrtCall("SendCase", s.Chan, s.Value))
		case *ast.ExprStmt:
			u, _ := isRecv(s.X)
			descs = append(descs, in.vrtCall("RecvCase", u.X))
		case *ast.AssignStmt:
			u, _ := isRecv(s.Rhs[0])
			descs = append(descs, in.vrtCall("RecvCase", u.X))
			get := "Val"
			if len(s.Lhs) == 2 {
				get = "Get"
			}
			bind = &ast.AssignStmt{Lhs: s.Lhs, Tok: s.Tok, Rhs: []ast.Expr{&ast.CallExpr{Fun: &ast.SelectorExpr{X: ast.NewIdent(name), Sel: ast.NewIdent(get)}}}}
		}
		names = append(names, ast.NewIdent(name))
		body := cc.Body
		if bind != nil {
			body = append([]ast.Stmt{bind}, body...)
		}
		clauses = append(clauses, &ast.CaseClause{List: []ast.Expr{&ast.BasicLit{Kind: token.INT, Value: strconv.Itoa(idx)}}, Body: body})
		idx++
	}
	if hasDefault == "false" {
		// Select only returns without a fired clause while an aborted thread unwinds
		clauses = append(clauses, &ast.CaseClause{Body: []ast.Stmt{&ast.ExprStmt{X: &ast.CallExpr{Fun: ast.NewIdent("panic"), Args: []ast.Expr{in.vrtCall("SelectInterrupted")}}}}})
	}
	args := []ast.Expr{site, ast.NewIdent(hasDefault)}
	for _, nm := range names {
		args = append(args, ast.NewIdent(nm.(*ast.Ident).Name))
	}
	sw := &ast.SwitchStmt{Tag: in.vrtCall("Select", args...), Body: &ast.BlockStmt{List: clauses}}
	if len(names) > 0 {
		sw.Init = &ast.AssignStmt{Lhs: names, Tok: token.DEFINE, Rhs: descs}
	}
	return sw
}
