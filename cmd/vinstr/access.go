package main

import (
	"go/ast"
	"go/token"
	"go/types"
	"strings"

	"golang.org/x/tools/go/ast/astutil"
)

// Field-access instrumentation (type-directed).
//
// Reads of x.f, where f is a field of a struct declared in the repository and
// x is a pure, addressable chain (identifiers, selectors, derefs), become
//
//	*vrt.R(&x.f, "T.f", "T.f@Func")
//
// which keeps the evaluation order exact. Writes are instrumented at statement
// level: vrt.Pre(...) before the assignment (a scheduling point when the
// location is in the racy set) and vrt.W(&x.f, ...) after it, because the store
// is the last action of an assignment. Map contents (x.f[k], len(x.f),
// delete(x.f,k), range x.f) are a separate location "T.f[]".

type accessPlan struct {
	reads    map[*ast.SelectorExpr]accessInfo // selector -> info (read wrap)
	mapReads map[*ast.SelectorExpr]bool       // also log a contents read
}

type accessInfo struct {
	loc  string
	site string
}

func (in *instr) ownerOf(v *types.Var) string {
	if in.owners == nil {
		in.owners = map[*types.Var]string{}
		scope := in.pkg.Types.Scope()
		for _, name := range scope.Names() {
			tn, ok := scope.Lookup(name).(*types.TypeName)
			if !ok {
				continue
			}
			st, ok := tn.Type().Underlying().(*types.Struct)
			if !ok {
				continue
			}
			for i := 0; i < st.NumFields(); i++ {
				in.owners[st.Field(i)] = tn.Name()
			}
		}
		// structs of the other repository packages (promoted fields)
		for _, imp := range in.pkg.Imports {
			if !strings.HasPrefix(imp.PkgPath, modPath+"/") || imp.Types == nil {
				continue
			}
			sc := imp.Types.Scope()
			for _, name := range sc.Names() {
				tn, ok := sc.Lookup(name).(*types.TypeName)
				if !ok {
					continue
				}
				if st, ok := tn.Type().Underlying().(*types.Struct); ok {
					for i := 0; i < st.NumFields(); i++ {
						in.owners[st.Field(i)] = tn.Name()
					}
				}
			}
		}
	}
	return in.owners[v]
}

// mapFieldSel reports whether e selects a map-typed field of a repository struct,
// whatever the root is: the contents of a map stay shared when the struct that
// holds the map header has been copied (e.g. a method with a value receiver).
func (in *instr) mapFieldSel(e ast.Expr) (*ast.SelectorExpr, accessInfo, bool) {
	sel, ok := e.(*ast.SelectorExpr)
	if !ok || !in.isMapType(e) || !pureExpr(sel.X) {
		return nil, accessInfo{}, false
	}
	s := in.info().Selections[sel]
	if s == nil || s.Kind() != types.FieldVal {
		return nil, accessInfo{}, false
	}
	v, ok := s.Obj().(*types.Var)
	if !ok || v.Pkg() == nil || !strings.HasPrefix(v.Pkg().Path(), modPath+"/") {
		return nil, accessInfo{}, false
	}
	owner := in.ownerOf(v)
	if owner == "" {
		return nil, accessInfo{}, false
	}
	loc := owner + "." + v.Name()
	return sel, accessInfo{loc: loc, site: loc + "@" + in.funcName}, true
}

// fieldSel reports whether e is an instrumentable field selection.
func (in *instr) fieldSel(e ast.Expr) (*ast.SelectorExpr, accessInfo, bool) {
	sel, ok := e.(*ast.SelectorExpr)
	if !ok {
		return nil, accessInfo{}, false
	}
	s := in.info().Selections[sel]
	if s == nil || s.Kind() != types.FieldVal {
		return nil, accessInfo{}, false
	}
	v, ok := s.Obj().(*types.Var)
	if !ok || v.Pkg() == nil || !strings.HasPrefix(v.Pkg().Path(), modPath+"/") {
		return nil, accessInfo{}, false
	}
	owner := in.ownerOf(v)
	if owner == "" {
		return nil, accessInfo{}, false
	}
	if !in.sharedRoot(sel.X) {
		return nil, accessInfo{}, false
	}
	loc := owner + "." + v.Name()
	return sel, accessInfo{loc: loc, site: loc + "@" + in.funcName}, true
}

// sharedRoot: x must be a pure chain whose root is a variable that can refer to
// shared memory (a pointer, or a non-local variable).
func (in *instr) sharedRoot(e ast.Expr) bool {
	switch x := e.(type) {
	case *ast.Ident:
		obj := in.info().Uses[x]
		v, ok := obj.(*types.Var)
		if !ok {
			return false
		}
		if _, isPtr := v.Type().Underlying().(*types.Pointer); isPtr {
			return true
		}
		// a struct value: only package-level variables can be shared
		return v.Parent() == in.pkg.Types.Scope()
	case *ast.SelectorExpr:
		if s := in.info().Selections[x]; s != nil && s.Kind() == types.FieldVal {
			return in.sharedRootOrField(x.X)
		}
		return false
	case *ast.ParenExpr:
		return in.sharedRoot(x.X)
	case *ast.StarExpr:
		return in.sharedRoot(x.X)
	}
	return false
}

func (in *instr) sharedRootOrField(e ast.Expr) bool { return in.sharedRoot(e) }

func (in *instr) isMapType(e ast.Expr) bool {
	tv, ok := in.info().Types[e]
	if !ok {
		return false
	}
	_, isMap := tv.Type.Underlying().(*types.Map)
	return isMap
}

// cloneSel copies a pure selector chain (the copy is evaluated after the statement).
func cloneSel(e ast.Expr) ast.Expr {
	switch x := e.(type) {
	case *ast.Ident:
		return ast.NewIdent(x.Name)
	case *ast.SelectorExpr:
		return &ast.SelectorExpr{X: cloneSel(x.X), Sel: ast.NewIdent(x.Sel.Name)}
	case *ast.ParenExpr:
		return &ast.ParenExpr{X: cloneSel(x.X)}
	case *ast.StarExpr:
		return &ast.StarExpr{X: cloneSel(x.X)}
	}
	return e
}

func addrOf(e ast.Expr) ast.Expr { return &ast.UnaryExpr{Op: token.AND, X: e} }

func (in *instr) wrapRead(sel *ast.SelectorExpr, ai accessInfo, fn string) ast.Expr {
	in.needVrt = true
	return &ast.ParenExpr{X: &ast.StarExpr{X: &ast.CallExpr{Fun: vrtSel(fn), Args: []ast.Expr{addrOf(sel), strLit(ai.loc), strLit(ai.site)}}}}
}

func (in *instr) stmtCall(fn string, args ...ast.Expr) ast.Stmt {
	in.needVrt = true
	return &ast.ExprStmt{X: &ast.CallExpr{Fun: vrtSel(fn), Args: args}}
}

func unparen(e ast.Expr) ast.Expr {
	for {
		p, ok := e.(*ast.ParenExpr)
		if !ok {
			return e
		}
		e = p.X
	}
}

func (in *instr) instrumentAccesses() {
	for _, decl := range in.file.Decls {
		fd, ok := decl.(*ast.FuncDecl)
		if !ok || fd.Body == nil {
			continue
		}
		name := fd.Name.Name
		if fd.Recv != nil && len(fd.Recv.List) == 1 {
			name = recvName(fd.Recv.List[0].Type) + "." + name
		}
		in.funcName = name
		in.instrumentBody(fd.Body)
	}
	in.funcName = ""
}

// capturedByGo returns the local variables of the function that are used inside a
// function literal started with a go statement and declared outside that literal:
// they are shared between the goroutines, exactly like fields reached through a
// pointer. Variables of synchronisation types (and channels, functions) are the
// means of synchronisation, not data, and are left alone.
func (in *instr) capturedByGo(body *ast.BlockStmt) map[*types.Var]bool {
	out := map[*types.Var]bool{}
	ast.Inspect(body, func(n ast.Node) bool {
		gs, ok := n.(*ast.GoStmt)
		if !ok {
			return true
		}
		lit, ok := gs.Call.Fun.(*ast.FuncLit)
		if !ok {
			return true
		}
		ast.Inspect(lit.Body, func(m ast.Node) bool {
			id, ok := m.(*ast.Ident)
			if !ok {
				return true
			}
			v, ok := in.info().Uses[id].(*types.Var)
			if !ok || v.IsField() || v.Pkg() == nil || v.Parent() == in.pkg.Types.Scope() {
				return true
			}
			if v.Pos() >= lit.Pos() && v.Pos() <= lit.End() {
				return true // declared inside the literal
			}
			switch t := v.Type().Underlying().(type) {
			case *types.Chan, *types.Signature:
				return true
			case *types.Pointer:
				_ = t
			}
			ts := v.Type().String()
			if strings.Contains(ts, "sync.") || strings.Contains(ts, "/vrt.") || strings.Contains(ts, "atomic.") {
				return true
			}
			out[v] = true
			return true
		})
		return true
	})
	return out
}

func (in *instr) instrumentBody(body *ast.BlockStmt) {
	captured := in.capturedByGo(body)
	capturedIdent := func(e ast.Expr) (*ast.Ident, accessInfo, bool) {
		id, ok := e.(*ast.Ident)
		if !ok || len(captured) == 0 {
			return nil, accessInfo{}, false
		}
		v, ok := in.info().Uses[id].(*types.Var)
		if !ok || !captured[v] {
			return nil, accessInfo{}, false
		}
		loc := in.funcName + "." + v.Name() + "(captured)"
		return id, accessInfo{loc: loc, site: loc + "@" + in.funcName}, true
	}
	identReads := map[*ast.Ident]accessInfo{}
	identLhs := map[*ast.Ident]bool{}
	// 1. plan on the original tree
	lhs := map[ast.Expr]bool{}       // expressions in store position (not reads)
	addrTaken := map[ast.Expr]bool{} // operands of &
	type writePlan struct {
		pre, post []ast.Stmt
	}
	writes := map[ast.Stmt]*writePlan{}
	rangeReads := map[*ast.RangeStmt][]ast.Stmt{}
	storeIndex := map[*ast.SelectorExpr]bool{} // x.f in store position x.f[k] = v: a header read only
	indexLhs := map[*ast.IndexExpr]bool{}      // s[i] in store position

	planStore := func(stmt ast.Stmt, target ast.Expr) {
		t := unparen(target)
		wp := writes[stmt]
		if wp == nil {
			wp = &writePlan{}
		}
		switch x := t.(type) {
		case *ast.Ident:
			if id, ai, ok := capturedIdent(x); ok {
				identLhs[id] = true
				wp.pre = append(wp.pre, in.stmtCall("Pre", strLit(ai.loc), strLit(ai.site)))
				wp.post = append(wp.post, in.stmtCall("W", addrOf(ast.NewIdent(id.Name)), strLit(ai.loc), strLit(ai.site)))
				in.stats["captured_writes"]++
			}
		case *ast.SelectorExpr:
			if sel, ai, ok := in.fieldSel(x); ok {
				lhs[sel] = true
				wp.pre = append(wp.pre, in.stmtCall("Pre", strLit(ai.loc), strLit(ai.site)))
				wp.post = append(wp.post, in.stmtCall("W", addrOf(sel), strLit(ai.loc), strLit(ai.site)))
				in.stats["field_writes"]++
			}
		case *ast.IndexExpr:
			if ai, ok := in.objectSlice(x.X); ok && pureExpr(x.X) && pureIndex(x.Index) {
				// s[i] = v: a store into element i of the array s points into
				indexLhs[x] = true
				wp.post = append(wp.post, in.stmtCall("W", addrOf(&ast.IndexExpr{X: cloneSel(unparen(x.X)), Index: cloneSel(unparen(x.Index))}), strLit(ai.loc), strLit(ai.site)))
				in.stats["slice_index_writes"]++
				if len(wp.pre) == 0 {
					wp.pre = append(wp.pre, in.stmtCall("Pre", strLit(ai.loc), strLit(ai.site)))
				}
			}
			if sel, ai, ok := in.mapFieldSel(unparen(x.X)); ok {
				ai2 := accessInfo{loc: ai.loc + "[]", site: ai.loc + "[]@" + in.funcName}
				wp.pre = append(wp.pre, in.stmtCall("Pre", strLit(ai2.loc), strLit(ai2.site)))
				wp.post = append(wp.post, in.stmtCall("MW", cloneSel(sel), strLit(ai2.loc), strLit(ai2.site)))
				storeIndex[sel] = true
				in.stats["content_writes"]++
			}
		}
		if len(wp.pre) > 0 {
			writes[stmt] = wp
		}
	}

	ast.Inspect(body, func(n ast.Node) bool {
		switch s := n.(type) {
		case *ast.AssignStmt:
			if s.Tok != token.DEFINE {
				for _, l := range s.Lhs {
					planStore(s, l)
				}
			}
		case *ast.IncDecStmt:
			planStore(s, s.X)
		case *ast.UnaryExpr:
			if s.Op == token.AND {
				addrTaken[unparen(s.X)] = true
			}
		case *ast.ExprStmt:
			// delete(x.f, k)
			if call, ok := s.X.(*ast.CallExpr); ok {
				if id, ok := call.Fun.(*ast.Ident); ok && id.Name == "delete" && len(call.Args) == 2 {
					if sel, ai, ok := in.mapFieldSel(unparen(call.Args[0])); ok {
						ai2 := accessInfo{loc: ai.loc + "[]", site: ai.loc + "[]@" + in.funcName}
						writes[s] = &writePlan{
							pre:  []ast.Stmt{in.stmtCall("Pre", strLit(ai2.loc), strLit(ai2.site))},
							post: []ast.Stmt{in.stmtCall("MW", cloneSel(sel), strLit(ai2.loc), strLit(ai2.site))},
						}
						in.stats["content_writes"]++
					}
				}
			}
		case *ast.RangeStmt:
			if sel, ai, ok := in.mapFieldSel(unparen(s.X)); ok {
				lhs[sel] = true // not wrapped (the map-range rewrite needs the plain expression)
				ai2 := accessInfo{loc: ai.loc + "[]", site: ai.loc + "[]@" + in.funcName}
				rangeReads[s] = []ast.Stmt{in.stmtCall("MCs", cloneSel(sel), strLit(ai2.loc), strLit(ai2.site))}
				in.stats["content_reads"]++
			}
		}
		return true
	})

	// slice ELEMENTS: append(s, ...) stores into the spare capacity of s's array (or copies
	// the array), a value range over s reads every element; whichever variable holds the
	// slice header, the elements are the shared memory
	appendCalls := map[*ast.CallExpr]accessInfo{}
	rangeSlices := map[*ast.RangeStmt]accessInfo{}
	indexReads := map[*ast.IndexExpr]accessInfo{}
	ast.Inspect(body, func(n ast.Node) bool {
		switch x := n.(type) {
		case *ast.CallExpr:
			if id, ok := x.Fun.(*ast.Ident); ok && id.Name == "append" && len(x.Args) >= 1 && in.info().Uses[id] == types.Universe.Lookup("append") {
				if ai, ok := in.objectSlice(x.Args[0]); ok {
					appendCalls[x] = ai
				}
			}
		case *ast.IndexExpr:
			if !indexLhs[x] && !addrTaken[x] {
				if ai, ok := in.objectSlice(x.X); ok {
					indexReads[x] = ai
				}
			}
		case *ast.RangeStmt:
			if x.Value != nil {
				if id, isID := x.Value.(*ast.Ident); !isID || id.Name != "_" {
					if ai, ok := in.objectSlice(x.X); ok {
						rangeSlices[x] = ai
					}
				}
			}
		}
		return true
	})

	plan := accessPlan{reads: map[*ast.SelectorExpr]accessInfo{}, mapReads: map[*ast.SelectorExpr]bool{}}
	contentReads := map[ast.Node]accessInfo{} // IndexExpr / len() call -> contents location
	ast.Inspect(body, func(n ast.Node) bool {
		switch x := n.(type) {
		case *ast.Ident:
			if identLhs[x] || addrTaken[x] {
				return true
			}
			if id, ai, ok := capturedIdent(x); ok {
				identReads[id] = ai
			}
		case *ast.SelectorExpr:
			if lhs[x] || addrTaken[x] {
				return true
			}
			if sel, ai, ok := in.fieldSel(x); ok {
				plan.reads[sel] = ai
			}
		case *ast.IndexExpr:
			if sel, ai, ok := in.mapFieldSel(unparen(x.X)); ok && !storeIndex[sel] {
				contentReads[x] = accessInfo{loc: ai.loc + "[]", site: ai.loc + "[]@" + in.funcName}
			}
		case *ast.CallExpr:
			if id, ok := x.Fun.(*ast.Ident); ok && (id.Name == "len") && len(x.Args) == 1 {
				if _, ai, ok := in.mapFieldSel(unparen(x.Args[0])); ok {
					contentReads[x] = accessInfo{loc: ai.loc + "[]", site: ai.loc + "[]@" + in.funcName}
				}
			}
		}
		return true
	})

	// 2. rewrite reads bottom-up
	astutil.Apply(body, nil, func(c *astutil.Cursor) bool {
		if ix, isIx := c.Node().(*ast.IndexExpr); isIx {
			if ai, ok := indexReads[ix]; ok {
				delete(indexReads, ix)
				switch p := c.Parent().(type) {
				case *ast.AssignStmt:
					for _, l := range p.Lhs {
						if l == ast.Expr(ix) {
							return true // a define/assign target that was not planned as a store
						}
					}
				case *ast.IncDecStmt, *ast.RangeStmt:
					return true
				}
				in.stats["slice_index_reads"]++
				in.needVrt = true
				c.Replace(&ast.ParenExpr{X: &ast.StarExpr{X: &ast.CallExpr{Fun: vrtSel("R"), Args: []ast.Expr{addrOf(ix), strLit(ai.loc), strLit(ai.site)}}}})
				return true
			}
		}
		if ai, ok := contentReads[c.Node()]; ok {
			in.stats["content_reads"]++
			in.needVrt = true
			switch n := c.Node().(type) {
			case *ast.IndexExpr:
				n.X = &ast.CallExpr{Fun: vrtSel("MC"), Args: []ast.Expr{n.X, strLit(ai.loc), strLit(ai.site)}}
			case *ast.CallExpr:
				n.Args[0] = &ast.CallExpr{Fun: vrtSel("MC"), Args: []ast.Expr{n.Args[0], strLit(ai.loc), strLit(ai.site)}}
			}
			return true
		}
		if id, isID := c.Node().(*ast.Ident); isID {
			ai, planned := identReads[id]
			if !planned {
				return true
			}
			switch p := c.Parent().(type) {
			case *ast.SelectorExpr:
				if p.Sel == id {
					return true
				}
			case *ast.KeyValueExpr:
				if p.Key == id {
					return true
				}
			case *ast.Field, *ast.ValueSpec, *ast.LabeledStmt, *ast.BranchStmt:
				return true
			}
			delete(identReads, id)
			in.stats["captured_reads"]++
			in.needVrt = true
			c.Replace(&ast.ParenExpr{X: &ast.StarExpr{X: &ast.CallExpr{Fun: vrtSel("R"), Args: []ast.Expr{addrOf(ast.NewIdent(id.Name)), strLit(ai.loc), strLit(ai.site)}}}})
			return true
		}
		sel, ok := c.Node().(*ast.SelectorExpr)
		if !ok {
			return true
		}
		ai, ok := plan.reads[sel]
		if !ok {
			return true
		}
		// never rewrite the operand position of a selector that names a method
		// value or a qualified identifier: fieldSel already excluded those.
		if p, isSel := c.Parent().(*ast.SelectorExpr); isSel && p.Sel == c.Node() {
			return true
		}
		fn := "R"
		in.stats["field_reads"]++
		c.Replace(in.wrapRead(sel, ai, fn))
		return true
	})

	// 3. insert the statement-level calls
	astutil.Apply(body, nil, func(c *astutil.Cursor) bool {
		stmt, ok := c.Node().(ast.Stmt)
		if !ok || c.Index() < 0 {
			return true
		}
		if wp := writes[stmt]; wp != nil {
			for _, p := range wp.pre {
				c.InsertBefore(p)
			}
			for i := len(wp.post) - 1; i >= 0; i-- {
				c.InsertAfter(wp.post[i])
			}
			delete(writes, stmt)
		}
		if rs, ok := stmt.(*ast.RangeStmt); ok {
			for _, p := range rangeReads[rs] {
				c.InsertBefore(p)
			}
		}
		return true
	})
	in.stats["skipped_writes"] += len(writes)

	// 4. slice elements (the operands may have been rewritten above: wrap what is there now)
	for call, ai := range appendCalls {
		in.needVrt = true
		in.stats["slice_appends"]++
		call.Args[0] = &ast.CallExpr{Fun: vrtSel("SA"), Args: []ast.Expr{call.Args[0], strLit(ai.loc), strLit(ai.site)}}
	}
	for rs, ai := range rangeSlices {
		in.needVrt = true
		in.stats["slice_ranges"]++
		rs.X = &ast.CallExpr{Fun: vrtSel("SR"), Args: []ast.Expr{rs.X, strLit(ai.loc), strLit(ai.site)}}
	}
}

// objectSlice reports whether e is a slice-typed expression whose elements are not
// numbers (bytes and counters are private scratch memory almost everywhere and would
// drown the oracle in work): pointers, interfaces, structs, strings, slices.
func (in *instr) objectSlice(e ast.Expr) (accessInfo, bool) {
	tv, ok := in.info().Types[e]
	if !ok || tv.Type == nil {
		return accessInfo{}, false
	}
	sl, ok := tv.Type.Underlying().(*types.Slice)
	if !ok {
		return accessInfo{}, false
	}
	if b, isBasic := sl.Elem().Underlying().(*types.Basic); isBasic && b.Kind() != types.String {
		return accessInfo{}, false
	}
	if _, isTP := sl.Elem().(*types.TypeParam); isTP {
		return accessInfo{}, false
	}
	name := types.TypeString(sl.Elem(), func(p *types.Package) string { return p.Name() })
	loc := "[]" + name + " elements"
	return accessInfo{loc: loc, site: loc + "@" + in.funcName}, true
}

// pureIndex: an index expression that can be evaluated a second time after the
// statement with the same result (a constant or a plain variable).
func pureIndex(e ast.Expr) bool {
	switch x := unparen(e).(type) {
	case *ast.BasicLit:
		return true
	case *ast.Ident:
		_ = x
		return true
	}
	return false
}
