package main

// Field-access instrumentation is added in a later step; until then this is a no-op.
func (in *instr) instrumentAccesses() {}
