#!/usr/bin/env python3
"""Regenerates /verif/MANIFEST.json from the table below (kept in one place so
that it is always valid)."""
import json, subprocess, os
ROOT = os.path.dirname(os.path.dirname(os.path.abspath(__file__)))
SEQ = "bounded-exhaustive enumeration of inputs x transport answers on the real code (SEQ explorer, scripted in-memory connection)"
checks = {
 "C01": ("exploration", "Bounded-exhaustive enumeration of RESP2 value trees and constructor inputs over small byte alphabets, sizes and depths; every case is serialised, parsed and re-serialised by the real proto package and compared with an independent strict codec.", "Trusted: the independent codec in /verif/resp. Small-scope bound (alphabets, payload length<=4/5, depth<=3, length sweep to 64KiB with patterned content); nothing random is claimed.", "bounded-exhaustive input enumeration on the real parser/serialiser against an independent reference codec", "§6 C01"),
 "C02": ("exploration", "Every concatenation of 1..3 values from a 40-value representative set is parsed by the real parser under every 2-way split of the byte stream, every 3-way split of short streams, 1-byte delivery and fixed strides.", "Trusted: /verif/resp and the scripted reader (never (0,nil) nor (n>0,EOF)). Random k-way partitions are not claimed.", "bounded-exhaustive enumeration of streams x read-chunking scripts (environment answers) on the real parser", "§6 C02"),
 "C03": ("exploration", "All single requests of a grammar-derived catalogue (every command: valid shapes, ill-formed, surplus, unknown, handler error, QUIT) and all ordered pairs/triples of representatives, under whole / every 2-way split / 1-byte delivery, run through the real connection loop; the reply/liveness invariant is evaluated at every transport Read, a loop budget turns spins into verdicts.", "Trusted: strict decoder, the differential 'same reply as when sent alone' oracle over a stateless double. Pipelines longer than 3 not explored.", SEQ, "§6 C03"),
 "C04": ("exploration", "Nasty strings (CR, LF, forged frames, NUL, 0xff) at every argument position of every command shape, non-command top-level values, every handler result kind carrying nasty payloads, and the example store preloaded with nasty data: the complete reply log must decode as exactly one strict-RESP2 frame per request.", "Trusted: strict decoder (integer payloads judged for framing only). Crashes are judged by C07.", SEQ, "§6 C04"),
 "C05": ("exploration", "Every well-formed argument vector the independent grammar generates for commands that map onto handler operations (all option subsets and orders, binary strings, boundary numbers, 1..3-element lists, duplicate keys) x 3 letter cases x SELECT {0,3}: the recorded handler calls must equal the predicted ones and the reply must be the handler's result.", "Trusted: the grammar in /verif/grammar as the reference. Reduced pools for SET/ZADD/ZRANGE* in quick.", SEQ, "§6 C05"),
 "C06": ("exploration", "All byte strings up to length 6 (thorough 7) over a 12-symbol RESP alphabet plus structured edits of valid streams are fed to the real parser; oversized declared lengths run in a sacrificial subprocess under an address-space cap whose actual fate is the verdict.", "Trusted: panic capture and subprocess exit classification; RLIMIT_AS=8GiB stands for finite memory. 1MiB inputs and coverage-guided fuzzing not claimed.", "bounded-exhaustive input enumeration on the real parser, sacrificial subprocess for allocation bombs", "§6 C06"),
 "C07": ("exploration", "Boundary-argument vectors for every command against the example store at three fill levels and against a double, non-command frames, the whole catalogue, every disconnect offset and every single-byte edit of valid streams, through the real connection loop: no panic may escape (process abort), no loop may exceed its budget, later connections must still be served.", "Trusted: harness recover() as the observer of process-ending panics. The witness-connection interleavings are added by the SCHED part when present.", SEQ + "; SCHED witness interleavings", "§6 C07"),
 "C10": ("exploration", "Every ill-formed variant the grammar derives (missing positional, null at each position, non-numeric tokens at numeric positions, odd pair lists, missing/invalid option values, SET exclusivity in 3 letter cases) must be answered with an error, without any handler call, without state change, and the following requests must be processed normally.", "Trusted: grammar; forms the statement does not mention carry no expectation.", SEQ, "§6 C10"),
 "C11": ("fault_enumeration", "For every valid request shape (and pairs with representatives) EVERY byte offset is taken as the end of the stream, with half-close and reset, whole and 1-byte delivery: handler calls must be exactly those of the completely received requests, then the loop returns, the socket is closed and the registry is empty.", "Trusted: differential oracle against solo runs of the complete requests.", "exhaustive fault-point enumeration (stream end at every byte offset x close mode) on the real connection loop", "§6 C11"),
 "C12": ("exploration", "Framework-implemented commands run over a reference store whose primitives are executed by a Redis model; exhaustive index arithmetic (GETRANGE, ZREVRANGE, ZREVRANGEBYSCORE+LIMIT), counters at int64 boundaries, pair lists under every map-iteration order, short programs from every reachable state, CONFIG SET/GET: replies and final store must equal the model's.", "Trusted: the model in /verif/model (written from the Redis reference).", SEQ + " with map-iteration order as an enumerated environment answer", "§6 C12"),
 "C17": ("exploration", "All patterns up to length 3 x all keys up to length 4 (thorough 4 x 5, 13-symbol alphabet) compared with a recursive reference matcher; KEYS and SCAN MATCH through the real server for every pattern of length <=3.", "'[', ']', '\\\\' not in the alphabet; the <=5 x <=5 product not completed.", "bounded-exhaustive enumeration of (pattern,key) pairs on the real matcher and server", "§6 C17"),
 "C18": ("model_checking", "Explicit-state breadth-first search over command programs per data type; every transition is executed on a fresh real example server (replay + one command) and compared, reply and full read-out, with the Redis model; states de-duplicated by (model state, read-out).", "Trusted: the Redis model and the comparison conventions of appendix C. Depth 4 (thorough 7) from every first command.", "explicit-state BFS over the real transition function (replay on fresh instance), canonical-state de-duplication", "§6 C18"),
 "C15": ("model_checking", "Lifecycle programs (every sequence of up to 3 Start/Stop/Restart calls, thorough 4, decorated with connecting/idle clients and with clients dialling concurrently with Stop/Restart) are executed on the real Start/Stop/Restart, accept loops and connection goroutines under a cooperative scheduler over an in-memory port namespace; every schedule within the deviation bound is explored and judged at quiescence.", "Sequentially consistent interleavings; scheduling points at go, mutex, sync.Map, listener and connection operations; deviation (delay) bound 2 (thorough 3 for <=3 calls): every schedule departing from the run-to-block default scheduler in at most that many choice points. Plain port (TLS accept loop: C09).", "stateless model checking of the implementation: controlled scheduler + DFS over schedules with deviation bounding", "§6 C15"),
 "C20": ("fault_enumeration", "Every catalogue request x {whole, failing write, unauthorised, authorised, stream end at every offset with EOF/reset}, non-command values, malformed frames and all representative pairs, with a recording tracer built on the library's own span-stack context; the start/finish log is replayed against the span discipline.", "Trusted: the span checker; the password authenticator is installed as Server.Start does.", "exhaustive enumeration of request outcomes x fault points on the real connection loop", "§6 C20"),
}
pending = {
 "C08": "SCHED/STATE check not built yet in this revision",
 "C09": "SCHED (real crypto/tls) check not built yet in this revision",
 "C13": "SCHED/STATE check not built yet in this revision",
 "C14": "SCHED + vector-clock race oracle not built yet in this revision",
 "C16": "SCHED + porcupine check not built yet in this revision",
 "C19": "SEQ+SCHED check not built yet in this revision",
}
try:
    exec(open(os.path.join(ROOT, "scripts", "manifest_extra.py")).read())
except FileNotFoundError:
    pass
out_checks = []
for pid in sorted(checks):
    level, text, note, tech, ref = checks[pid]
    out_checks.append({
        "property_id": pid, "quick_cmd": f"./check {pid} quick", "thorough_cmd": f"./check {pid} thorough",
        "evidence_file": f"evidence/{pid}.json", "replay_cmd_template": "./check --replay {path}", "engine": "vcheck",
        "level_claimed": {"category": level, "text": text, "design_ref": "DESIGN.md " + ref},
        "level_note": note, "technique": tech})
hooks = subprocess.run(["git", "-C", "/repo", "log", "--format=%h", "--grep=^verif:"], capture_output=True, text=True).stdout.split()
m = {
 "version": 1,
 "setup_cmd": "./scripts/setup.sh",
 "hooks": {"guard": "verif", "enable": "go build -tags verif -overlay .work/overlay/overlay.json (overlay produced by cmd/vinstr from /repo's working tree at check time; the only committed hook is redis/verif_hooks.go)",
           "baseline_off_cmd": "./scripts/baseline.sh", "source_commits": hooks, "add_only": True},
 "engines": [
  {"name": "vcheck", "path": "cmd/vcheck", "serves_properties": sorted(checks), "kind_free_text": "hand-written explorers on the real code: SEQ (bounded-exhaustive inputs x transport answers), SCHED (cooperative scheduler + DFS with preemption bounding, vector-clock race oracle), STATE (BFS over canonical implementation state by replay)"},
  {"name": "vinstr", "path": "cmd/vinstr", "serves_properties": sorted(checks), "kind_free_text": "type-directed overlay instrumenter run at check time (go statements, sync shims, net.Listen, clock, uuid, map-range order, loop ticks, field accesses); /repo is never written"}],
 "checks": out_checks,
 "not_applicable": [{"property_id": k, "reason": v} for k, v in sorted(pending.items()) if k not in checks],
 "notes": "All checks rebuild from /repo's current working tree (./check instruments and builds on every invocation). Scratch lives in /verif/.work. Genuine defects found are repaired by 'fix:' commits in /repo and listed in known-findings.json (fixed entries suppress nothing).",
}
json.dump(m, open(os.path.join(ROOT, "MANIFEST.json"), "w"), indent=1)
print("MANIFEST.json written:", len(out_checks), "checks,", len(m["not_applicable"]), "not applicable")
