#!/bin/bash
# try_refactor_some.sh <patch.diff> <ID>... : like try_refactor.sh, with the listed quick checks only.
ROOT="$(cd "$(dirname "${BASH_SOURCE[0]}")/.." && pwd)"
cd "$ROOT"
P="$(realpath "$1")"; shift
if ! git -C /repo apply --check "$P" 2>/dev/null; then echo "PATCH-DOES-NOT-APPLY $P"; exit 2; fi
git -C /repo apply "$P"
trap 'git -C /repo checkout -- . ; git -C /repo clean -fdq -- redis examples' EXIT
bad=0
for id in "$@"; do
  out=$(timeout 1500 ./check $id quick 2>&1); rc=$?
  line=$(echo "$out" | grep -E "VIOLATION|HARNESS|NOTE" | cut -c1-400 | head -4)
  if [ $rc -ne 0 ] || [ -n "$line" ]; then bad=1; echo "== $id exit=$rc"; echo "$line"; fi
done
[ $bad = 0 ] && echo "CLEAN($*) $P"
