#!/bin/bash
# try_seed_snap.sh <seed-dir> <check-id>...: like try_seed.sh, but against a scratch copy of the
# repository snapshot (/tmp/repo-snap) instead of /repo, so that it can run next to seeds_all.sh.
set -u
DIR="$1"; shift
ROOT="$(cd "$(dirname "${BASH_SOURCE[0]}")/.." && pwd)"
cd "$ROOT"
S=/tmp/repo-seed-$$
rm -rf "$S"; cp -r /tmp/repo-snap "$S"
( cd "$S" && patch -s -p1 < "$DIR/patch.diff" ) || { echo "patch does not apply"; rm -rf "$S"; exit 2; }
for id in "$@"; do
  out=$(VERIF_REPO="$S" ./check "$id" "${TIER:-quick}" 2>&1); rc=$?
  if [ $rc = 1 ] && echo "$out" | grep -q "^VIOLATION property=$id"; then
    echo "DETECTED $(basename $DIR) by $id: $(echo "$out" | grep '^VIOLATION' | head -1 | cut -c1-260)"
  else
    echo "MISSED   $(basename $DIR) by $id (exit $rc): $(echo "$out" | tail -1 | cut -c1-200)"
  fi
done
rm -rf "$S"
