#!/bin/bash
# try_refactor.sh <patch.diff> : applies a (supposedly behaviour-preserving) patch to /repo, runs every
# quick check, prints everything that is not a clean pass, and undoes the patch.
ROOT="$(cd "$(dirname "${BASH_SOURCE[0]}")/.." && pwd)"
cd "$ROOT"
P="$(realpath "$1")"
if ! git -C /repo apply --check "$P" 2>/dev/null; then echo "PATCH-DOES-NOT-APPLY $P"; exit 2; fi
git -C /repo apply "$P"
trap 'git -C /repo checkout -- . ; git -C /repo clean -fdq -- redis examples' EXIT
bad=0
for i in $(seq -w 1 20); do
  out=$(timeout 1500 ./check C$i quick 2>&1); rc=$?
  line=$(echo "$out" | grep -E "VIOLATION|HARNESS|NOTE" | cut -c1-400 | head -4)
  if [ $rc -ne 0 ] || [ -n "$line" ]; then bad=1; echo "== C$i exit=$rc"; echo "$line"; fi
done
[ $bad = 0 ] && echo "ALL-CLEAN $P"
