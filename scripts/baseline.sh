#!/bin/bash
# Runs the repository's own test suite with the verif guard OFF, without letting
# the go command rewrite /repo/go.mod (-modfile points at a scratch copy).
set -u
ROOT="$(cd "$(dirname "${BASH_SOURCE[0]}")/.." && pwd)"
REPO="${VERIF_REPO:-/repo}"
WORK="${VERIF_WORK:-$ROOT/.work}"
mkdir -p "$WORK/baseline"
cp "$REPO/go.mod" "$WORK/baseline/go.mod"
cp "$REPO/go.sum" "$WORK/baseline/go.sum"
export GOFLAGS=-mod=mod GOPROXY=off GOSUMDB=off GOTOOLCHAIN=local
cd "$REPO" && flock /tmp/redistest.lock go test -p 1 -modfile="$WORK/baseline/go.mod" -vet=off -count=1 -timeout 25m "$@" ./...
