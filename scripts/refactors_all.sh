#!/bin/bash
# Runs every kept behaviour-preserving refactoring (refactors/<id>/patch.diff) against all quick checks.
# Expected output: one ALL-CLEAN line per patch (a patch that no longer applies to /repo is reported as such).
ROOT="$(cd "$(dirname "${BASH_SOURCE[0]}")/.." && pwd)"
cd "$ROOT"
for d in refactors/*/; do
  ./scripts/try_refactor.sh "$d/patch.diff" 2>&1 | cut -c1-300
done
