#!/bin/bash
# Runs every kept seeded change against the check(s) of its property and prints a table.
ROOT="$(cd "$(dirname "${BASH_SOURCE[0]}")/.." && pwd)"
cd "$ROOT"
for d in seeded/*/; do
  n=$(basename "$d")
  if python3 -c "import json,sys;sys.exit(0 if json.load(open('$d/meta.json')).get('obsolete') else 1)" 2>/dev/null; then echo "OBSOLETE $n"; continue; fi
  prop=$(python3 -c "import json;print(json.load(open('$d/meta.json'))['property'])" 2>/dev/null)
  extra=$(cat "$d/also_checks" 2>/dev/null)
  ./scripts/try_seed.sh "$n" $prop $extra 2>&1 | grep -v "null byte" | cut -c1-160
done
