#!/bin/bash
# try_seed.sh <name> <check-id>...: apply seeded/<name>/patch.diff to /repo, run the
# listed quick checks, undo the patch. Prints DETECTED/MISSED per check.
set -u
NAME="$1"; shift
ROOT="$(cd "$(dirname "${BASH_SOURCE[0]}")/.." && pwd)"
cd "$ROOT"
if [ -n "$(git -C /repo status --porcelain)" ]; then echo "/repo is not clean"; exit 2; fi
git -C /repo apply "$ROOT/seeded/$NAME/patch.diff" || { echo "patch does not apply"; exit 2; }
trap 'git -C /repo checkout -- . ; git -C /repo clean -fdq' EXIT
for id in "$@"; do
  out=$(./check "$id" "${TIER:-quick}" 2>&1); rc=$?
  if [ $rc = 1 ] && echo "$out" | grep -q "^VIOLATION property=$id"; then
    echo "DETECTED $NAME by $id: $(echo "$out" | grep '^VIOLATION' | head -1 | cut -c1-260)"
  else
    echo "MISSED   $NAME by $id (exit $rc): $(echo "$out" | tail -1 | cut -c1-200)"
  fi
done
