#!/bin/bash
# MANIFEST.setup_cmd: build the framework from files on disk only (offline).
set -eu
ROOT="$(cd "$(dirname "${BASH_SOURCE[0]}")/.." && pwd)"
cd "$ROOT"
export GOFLAGS=-mod=mod GOPROXY=off GOSUMDB=off GOTOOLCHAIN=local
WORK="${VERIF_WORK:-$ROOT/.work}"
mkdir -p "$WORK/bin" evidence replays
go build -o "$WORK/bin/vinstr" ./cmd/vinstr
./check --build
# the runtime's channel / select / atomic models must behave before any verdict is believed
"$WORK/bin/vcheck" aux selftest >"$WORK/selftest.log" 2>&1 || { cat "$WORK/selftest.log"; echo "HARNESS-ERROR runtime selftest failed"; exit 3; }
echo "setup ok"
