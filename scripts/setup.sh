#!/bin/bash
# MANIFEST.setup_cmd: build the framework from files on disk only (offline).
set -eu
ROOT="$(cd "$(dirname "${BASH_SOURCE[0]}")/.." && pwd)"
cd "$ROOT"
export GOFLAGS=-mod=mod GOPROXY=off GOSUMDB=off GOTOOLCHAIN=local
WORK="${VERIF_WORK:-$ROOT/.work}"
mkdir -p "$WORK/bin" evidence replays
go build -o "$WORK/bin/vinstr" ./cmd/vinstr
./check --build
echo "setup ok"
