#!/bin/bash
# verify_seed.sh <name> <seed-dir>: confirm a seeded change in a scratch worktree
# (compiles, suite passes, demo fails with / passes without), then keep it under
# /verif/seeded/<name>/. The scratch worktree is removed afterwards.
set -u
NAME="$1"; SRC="$2"
ROOT="$(cd "$(dirname "${BASH_SOURCE[0]}")/.." && pwd)"
WT="/tmp/vs-$NAME"
export GOFLAGS=-mod=mod GOPROXY=off GOSUMDB=off GOTOOLCHAIN=local
git -C /repo worktree remove --force "$WT" 2>/dev/null
git -C /repo worktree add -q --detach "$WT" HEAD || exit 2
cleanup() { git -C /repo worktree remove --force "$WT" 2>/dev/null; rm -rf "$WT"; }
trap cleanup EXIT
log="$ROOT/.work/seed-$NAME.log"; : > "$log"
echo "== demo on unchanged tree" >>"$log"
if ! (cd "$WT" && sh "$SRC/run.sh" "$WT") >>"$log" 2>&1; then echo "REJECT $NAME: demo fails on the unchanged tree"; exit 1; fi
if ! git -C "$WT" apply "$SRC/patch.diff" 2>>"$log"; then echo "REJECT $NAME: patch does not apply to current HEAD"; exit 1; fi
if ! (cd "$WT" && go build ./... ) >>"$log" 2>&1; then echo "REJECT $NAME: does not compile"; exit 1; fi
ok=0
for try in 1 2 3 4; do
  echo "== suite try $try" >>"$log"
  (cd "$WT" && flock /tmp/redistest.lock go test -p 1 -vet=off -count=1 ./... ) >"$log.suite" 2>&1
  cat "$log.suite" >>"$log"
  if ! grep -q "^FAIL\|^--- FAIL" "$log.suite"; then ok=1; break; fi
  # only the known TestServer restart flake may fail
  if grep "^--- FAIL" "$log.suite" | grep -v "TestServer " | grep -q .; then break; fi
  if ! grep -q "connection refused\|connection reset" "$log.suite"; then break; fi
done
rm -f "$log.suite"
if [ $ok != 1 ]; then echo "REJECT $NAME: existing suite fails with the patch (see $log)"; exit 1; fi
echo "== demo with patch" >>"$log"
if (cd "$WT" && sh "$SRC/run.sh" "$WT") >>"$log" 2>&1; then echo "REJECT $NAME: demo passes with the patch applied"; exit 1; fi
mkdir -p "$ROOT/seeded/$NAME"
cp "$SRC"/* "$ROOT/seeded/$NAME/" 2>/dev/null
echo "ACCEPT $NAME"
