#!/bin/bash
# try_refactor_snap.sh <patch.diff>: like try_refactor.sh, but against a scratch copy of /tmp/repo-snap.
ROOT="$(cd "$(dirname "${BASH_SOURCE[0]}")/.." && pwd)"
cd "$ROOT"
P="$(realpath "$1")"
S=/tmp/repo-ref-$$
rm -rf "$S"; cp -r /tmp/repo-snap "$S"
( cd "$S" && patch -s -p1 < "$P" ) || { echo "PATCH-DOES-NOT-APPLY $P"; rm -rf "$S"; exit 2; }
bad=0
for i in $(seq -w 1 20); do
  out=$(VERIF_REPO="$S" timeout 1500 ./check C$i quick 2>&1); rc=$?
  line=$(echo "$out" | grep -E "VIOLATION|HARNESS|NOTE" | cut -c1-400 | head -4)
  if [ $rc -ne 0 ] || [ -n "$line" ]; then bad=1; echo "== C$i exit=$rc"; echo "$line"; fi
done
[ $bad = 0 ] && echo "ALL-CLEAN $P"
rm -rf "$S"
