package props

import (
	"bytes"
	"encoding/json"
	"fmt"
	"sort"
	"strconv"
	"strings"

	"github.com/cybergarage/go-redis/redis/proto"
	"verif/fw"
	"verif/resp"
	"verif/seq"
)

// C02: chunking independence of the parser.

type c02Case struct {
	Stream []byte `json:"stream"`
	Splits []int  `json:"splits,omitempty"`
	Stride int    `json:"stride,omitempty"`
	// EOFWithData: the reader reports io.EOF together with the last bytes
	EOFWithData bool `json:"eof_with_data,omitempty"`
}

func c02Values() []resp.Value {
	long12 := "abcdefghij\r\n"
	long100 := strings.Repeat("0123456789", 10)
	ten := make([]resp.Value, 10)
	for i := range ten {
		ten[i] = resp.B(fmt.Sprint(i))
	}
	return []resp.Value{
		resp.S("OK"), resp.S(""), resp.S("a b"),
		resp.E("ERR x"), resp.E(""),
		resp.I(0), resp.I(-1), resp.I(1234567890),
		resp.B(""), resp.Nil(), resp.B("a"), resp.B("\r\n"), resp.B("a\r\nb"), resp.B("$3\r\nabc"), resp.B("*1\r\n"),
		resp.B(long12), resp.B(long100), resp.B("\r"), resp.B("\n\r"), resp.B("+OK\r\n:1\r\n"),
		resp.A(), resp.A(resp.B("a")), resp.A(resp.B("a"), resp.B("")), resp.A(resp.A()), resp.A(resp.A(resp.B("a")), resp.A(resp.B("b"), resp.B("c"))),
		resp.A(resp.S("s"), resp.I(7), resp.B("b"), resp.Nil(), resp.E("e")),
		resp.A(ten...), resp.A(resp.B("\r\n"), resp.B("$1\r\nx")), resp.A(resp.B(""), resp.B(""), resp.B("")),
		resp.Cmd("SET", "k", "v"), resp.Cmd("GET", "k"), resp.Cmd("PING"), resp.Cmd("ECHO", long12),
		resp.A(resp.Nil()), resp.A(resp.A(resp.A())), resp.A(resp.I(1), resp.A(resp.I(2), resp.A(resp.I(3)))),
		resp.A(resp.B(long100), resp.S("x")), resp.I(-9223372036854775808), resp.B("1"), resp.B("10"),
	}
}

// c02Check parses stream under the given delivery script and compares with want.
func c02Check(stream []byte, want []resp.Value, splits []int, stride int) (clause, detail string) {
	return c02CheckWith(seq.NewChunkReader(stream, splits, stride), want)
}

func c02CheckWith(r *seq.ChunkReader, want []resp.Value) (clause, detail string) {
	parser := proto.NewParserWithReader(r)
	for i := 0; i <= len(want); i++ {
		var m *proto.Message
		var err error
		if p := guard(func() { m, err = parser.Next() }); p != "" {
			return "panic", fmt.Sprintf("value #%d: %s", i, p)
		}
		if r.ReadsAfterEnd() > 64 {
			return "reads-after-end", "parser keeps reading after end of stream"
		}
		if i == len(want) {
			if m != nil || err != nil {
				return "no-clean-end", fmt.Sprintf("after %d values Next returned value=%v err=%v instead of end of stream", len(want), m != nil, err)
			}
			return "", ""
		}
		if err != nil {
			return "error", fmt.Sprintf("value #%d: %v", i, err)
		}
		if m == nil {
			return "early-end", fmt.Sprintf("end of stream reported before value #%d", i)
		}
		got, absent, cerr := fromProto(m, 0)
		if cerr != nil || absent {
			return "structure", fmt.Sprintf("value #%d: absent=%v err=%v", i, absent, cerr)
		}
		if !got.Equal(want[i]) {
			return "value", fmt.Sprintf("value #%d: got %s want %s", i, got, want[i])
		}
	}
	return "", ""
}

func c02Run(c *fw.Ctx) {
	vals := c02Values()
	enc := make([][]byte, len(vals))
	for i, v := range vals {
		enc[i] = v.Bytes()
	}
	threeWayMax := 48
	if c.Thorough() {
		threeWayMax = 96
	}
	run := func(stream []byte, want []resp.Value, bounds map[int]bool, splits []int, stride int, kind string) {
		c.Eval()
		inside := stride > 0
		for _, s := range splits {
			if !bounds[s] {
				inside = true
			}
		}
		if inside {
			c.Nontrivial()
		}
		clause, detail := c02Check(stream, want, splits, stride)
		if clause != "" {
			c.Violation("C02|"+kind+"|"+clause, detail+fmt.Sprintf(" stream=%s splits=%v stride=%d", trunc(stream, 80), splits, stride), c02Case{Stream: stream, Splits: splits, Stride: stride})
		}
	}
	// a reader that reports the end of the stream together with the last data: every
	// sequence of 1..2 values, whole, byte by byte and under every 2-way split
	for a := 0; a < len(vals); a++ {
		for b := -1; b < len(vals); b++ {
			if !c.Mine() {
				continue
			}
			stream, want := append([]byte{}, enc[a]...), []resp.Value{vals[a]}
			if b >= 0 {
				stream, want = append(stream, enc[b]...), append(want, vals[b])
			}
			var scripts [][2]interface{}
			scripts = append(scripts, [2]interface{}{[]int(nil), 0}, [2]interface{}{[]int(nil), 1})
			for k := 1; k < len(stream); k++ {
				scripts = append(scripts, [2]interface{}{[]int{k}, 0})
			}
			for _, sc := range scripts {
				splits, stride := sc[0].([]int), sc[1].(int)
				c.Eval()
				c.Nontrivial()
				if clause, detail := c02CheckWith(seq.NewChunkReaderEOFWithData(stream, splits, stride), want); clause != "" {
					c.Violation("C02|eof-with-data|"+clause, detail+fmt.Sprintf(" (the reader reports io.EOF together with the last bytes) stream=%s splits=%v stride=%d", trunc(stream, 80), splits, stride), c02Case{Stream: stream, Splits: splits, Stride: stride, EOFWithData: true})
				}
			}
		}
	}
	var seqs func(f func(idx []int))
	seqs = func(f func(idx []int)) {
		n := len(vals)
		for a := 0; a < n; a++ {
			f([]int{a})
		}
		for a := 0; a < n; a++ {
			for b := 0; b < n; b++ {
				f([]int{a, b})
			}
		}
		for a := 0; a < n; a++ {
			for b := 0; b < n; b++ {
				for d := 0; d < n; d++ {
					f([]int{a, b, d})
				}
			}
		}
	}
	if c.Thorough() {
		// sequences of four values over the first 12 (shortest, most delimiter-heavy) values
		inner := seqs
		seqs = func(f func(idx []int)) {
			inner(f)
			for a := 0; a < 12; a++ {
				for b := 0; b < 12; b++ {
					for d := 8; d < 20; d++ {
						for e := 20; e < 32; e++ {
							f([]int{a, b, d, e})
						}
					}
				}
			}
		}
	}
	seqs(func(idx []int) {
		if !c.Mine() {
			return
		}
		if c.Expired() {
			return
		}
		var stream []byte
		var want []resp.Value
		bounds := map[int]bool{0: true}
		for _, i := range idx {
			stream = append(stream, enc[i]...)
			want = append(want, vals[i])
			bounds[len(stream)] = true
		}
		if c.WantSample() {
			c.Sample(map[string]any{"stream": trunc(stream, 80), "scripts": "default, every 2-way split, 3-way splits (short streams), 1-byte, strides 2/3/5/7, after-every-CR"})
		}
		run(stream, want, bounds, nil, 0, "whole")
		for k := 1; k < len(stream); k++ {
			run(stream, want, bounds, []int{k}, 0, "2way")
		}
		if len(stream) <= threeWayMax {
			for k := 1; k < len(stream); k++ {
				for l := k + 1; l < len(stream); l++ {
					run(stream, want, bounds, []int{k, l}, 0, "3way")
				}
			}
		}
		if c.Thorough() && len(stream) <= 28 {
			for k := 1; k < len(stream); k++ {
				for l := k + 1; l < len(stream); l++ {
					for m := l + 1; m < len(stream); m++ {
						run(stream, want, bounds, []int{k, l, m}, 0, "4way")
					}
				}
			}
		}
		for _, st := range []int{1, 2, 3, 5, 7} {
			run(stream, want, bounds, nil, st, "stride")
		}
		var afterCR []int
		for i, b := range stream {
			if b == '\r' && i+1 < len(stream) {
				afterCR = append(afterCR, i+1)
			}
		}
		if len(afterCR) > 0 {
			run(stream, want, bounds, afterCR, 0, "afterCR")
		}
	})
	c02Ladder(c, run)
	// long streams through ONE parser: K copies of a value, then values of every kind
	// (whatever the parser keeps per stream must not wear out)
	tail := []resp.Value{resp.A(resp.A(resp.B("x")), resp.A()), resp.S("OK"), resp.A(resp.B("GET"), resp.B("k")), resp.Nil()}
	for _, e := range []resp.Value{resp.A(), resp.A(resp.A()), resp.Nil(), resp.B(""), resp.I(7), resp.A(resp.B("PING"))} {
		for _, k := range []int{127, 128, 129, 300, 1100} {
			if !c.Mine() {
				continue
			}
			var stream []byte
			var want []resp.Value
			bounds := map[int]bool{0: true}
			for i := 0; i < k; i++ {
				stream = append(stream, e.Bytes()...)
				want = append(want, e)
				bounds[len(stream)] = true
			}
			for _, t := range tail {
				stream = append(stream, t.Bytes()...)
				want = append(want, t)
				bounds[len(stream)] = true
			}
			run(stream, want, bounds, nil, 0, "long-whole")
			run(stream, want, bounds, nil, 1, "long-stride")
			run(stream, want, bounds, nil, 7, "long-stride")
		}
	}
}

// c02Ladder: bulk strings whose length sits on or next to a power of two or
// a change in the number of length digits (where an implementation may switch
// buffers or strategies), alone and inside an array, followed by two more
// values; every split point near a structural position of the stream.
func c02Ladder(c *fw.Ctx, run func(stream []byte, want []resp.Value, bounds map[int]bool, splits []int, stride int, kind string)) {
	sizes := map[int]bool{}
	for k := 3; k <= 17; k++ {
		for d := -1; d <= 1; d++ {
			sizes[1<<k+d] = true
		}
	}
	for _, n := range []int{10, 100, 1000, 10000, 100000} {
		for d := -1; d <= 1; d++ {
			sizes[n+d] = true
		}
	}
	var ls []int
	for n := range sizes {
		if c.Quick() && n > 70000 {
			continue
		}
		ls = append(ls, n)
	}
	sort.Ints(ls)
	pat := []byte("ab\r\n$3\r\n")
	for _, L := range ls {
		for shape := 0; shape < 3; shape++ {
			if !c.Mine() {
				continue
			}
			if c.Expired() {
				return
			}
			body := make([]byte, L)
			for i := range body {
				if shape == 1 {
					body[i] = 'x'
				} else {
					body[i] = pat[i%len(pat)]
				}
			}
			first := resp.Value{Kind: resp.Bulk, Data: body}
			if shape == 1 && L > 0 && L <= 70000 {
				// the same size as a status line too (no CR/LF in 'x' content)
				line := []resp.Value{{Kind: resp.Status, Data: body}, resp.S("OK"), resp.I(42)}
				var ls []byte
				lb := map[int]bool{0: true}
				for _, v := range line {
					ls = append(ls, v.Bytes()...)
					lb[len(ls)] = true
				}
				run(ls, line, lb, nil, 0, "ladder-line-whole")
				for _, k := range []int{1, 2, L, L + 1, L + 2, L + 3, L + 4} {
					if k > 0 && k < len(ls) {
						run(ls, line, lb, []int{k}, 0, "ladder-line-2way")
					}
				}
				for _, st := range []int{1, 3, 4096} {
					run(ls, line, lb, nil, st, "ladder-line-stride")
				}
			}
			if shape == 2 {
				first = resp.A(resp.B("SET"), resp.Value{Kind: resp.Bulk, Data: body}, resp.I(7))
			}
			want := []resp.Value{first, resp.S("OK"), resp.I(42)}
			var stream []byte
			bounds := map[int]bool{0: true}
			for _, v := range want {
				stream = append(stream, v.Bytes()...)
				bounds[len(stream)] = true
			}
			// structural positions: start, end of the bulk header, end of the payload, end of each value
			hdr := bytes.Index(stream, []byte("$"+strconv.Itoa(L)+"\r\n"))
			marks := []int{0, hdr, hdr + len(strconv.Itoa(L)) + 3, hdr + len(strconv.Itoa(L)) + 3 + L, len(first.Bytes()), len(stream)}
			cand := map[int]bool{}
			win := 10
			if c.Thorough() {
				win = 40
			}
			for _, m := range marks {
				for d := -win; d <= win; d++ {
					if k := m + d; k > 0 && k < len(stream) {
						cand[k] = true
					}
				}
			}
			for k := 4096; k < len(stream); k *= 2 {
				for d := -1; d <= 1; d++ {
					if k+d < len(stream) {
						cand[k+d] = true
					}
				}
			}
			if c.Thorough() && L <= 5000 {
				for k := 1; k < len(stream); k++ {
					cand[k] = true
				}
			}
			if c.WantSample() {
				c.Sample(map[string]any{"stream": trunc(stream, 40), "bulk_length": L, "scripts": fmt.Sprintf("whole, %d two-way splits around the structural positions and 2^k offsets, strides 1/2/3/4096/32768", len(cand))})
			}
			run(stream, want, bounds, nil, 0, "ladder-whole")
			for k := range cand {
				run(stream, want, bounds, []int{k}, 0, "ladder-2way")
			}
			for _, st := range []int{1, 2, 3, 4096, 32768} {
				run(stream, want, bounds, nil, st, "ladder-stride")
			}
		}
	}
}

func c02Replay(raw json.RawMessage) (string, bool, error) {
	var cs c02Case
	if err := json.Unmarshal(raw, &cs); err != nil {
		return "", false, err
	}
	want, derr := resp.DecodeAll(cs.Stream)
	if derr != nil {
		return "", false, fmt.Errorf("replay stream is not canonical: %v", derr)
	}
	clause, detail := c02Check(cs.Stream, want, cs.Splits, cs.Stride)
	if cs.EOFWithData {
		clause, detail = c02CheckWith(seq.NewChunkReaderEOFWithData(cs.Stream, cs.Splits, cs.Stride), want)
	}
	return fmt.Sprintf("stream=%s splits=%v stride=%d clause=%q %s", trunc(cs.Stream, 200), cs.Splits, cs.Stride, clause, detail), clause != "", nil
}

func init() {
	fw.Register(&fw.Prop{
		ID:    "C02",
		Level: "exploration",
		Rule:  "streams = all concatenations of 1..3 values from a 40-value representative set (every type; CRLF/prefix-looking bulk bodies; empty/null bulks; empty, nested, mixed arrays; multi-digit lengths and counts); delivery scripts = whole, EVERY 2-way split offset, every 3-way split for streams <=48 bytes (thorough <=96, plus every 4-way split for streams <=28 bytes and 20736 four-value sequences), strides 1/2/3/5/7, split after every CR. Long streams: 127..1100 copies of one value (empty and nested arrays, nil, empty bulk, integer, command) followed by values of every kind through one parser, whole and strides 1 and 7. Size ladder: a bulk string of every length 2^k-1, 2^k, 2^k+1 (k=3..16, thorough 17) and 10^k-1, 10^k, 10^k+1 (k=1..4, thorough 5), with CRLF/header-looking content, plain content, and inside a command array, followed by two more values: whole, every 2-way split within 10 (thorough 40) bytes of each structural position (value start, end of the length header, end of the payload, end of each value) and around every 2^k stream offset >= 4096 (thorough: every offset for lengths <= 5000), strides 1/2/3/4096/32768. A case (stream, script) is non-trivial when at least one split falls strictly inside a value. Plus every sequence of 1..2 values, whole, byte by byte and under every 2-way split, through a reader that reports io.EOF together with the last bytes.",
		Assumptions: []string{
			"Read never returns (0,nil); (n>0, io.EOF) on the last bytes is exercised for all sequences of 1..2 values (crypto/tls up to TLS 1.2 does that)",
			"random k-way partitions of the quantifier are not claimed",
			"no assertion about how many bytes the parser requests; only the values returned",
		},
		Run:    c02Run,
		Replay: c02Replay,
	})
}
