package props

import (
	"encoding/json"
	"errors"
	"fmt"
	"strconv"
	"strings"

	exsrv "github.com/cybergarage/go-redis/examples/go-redisd/server"
	"github.com/cybergarage/go-redis/redis"
	"github.com/cybergarage/go-redis/redis/proto"
	"verif/fw"
	"verif/grammar"
	"verif/resp"
	"verif/seq"
	"verif/srv"
)

// C04: the reply stream is always well-formed RESP.

// Nasty is the nasty-string set N of DESIGN.md.
var Nasty = []string{"", "a", "\r\n", "\n", "\r", "x\r\ny", "\r\n+OK\r\n", "\r\n:1\r\n", "\r\n$-1\r\n", "\x00", "$-1", "*1", "\xff", "100%", "%s%d%%%v"}

// NastyMore extends the set in the thorough tier.
var NastyMore = []string{"\n\r", "\r\r\n", "x\ry", "x\ny", "\r\n*1\r\n$4\r\nPING\r\n", "\r\n-ERR forged\r\n", "+OK", "\r\n\r\n", "a\r", "\na"}

type c04Case struct {
	Kind   string   `json:"kind"` // client | toplevel | handler | store
	Input  []byte   `json:"input"`
	NReq   int      `json:"requests"` // number of top-level values sent
	Result string   `json:"handler_result,omitempty"`
	Text   string   `json:"handler_text,omitempty"`
	Method string   `json:"handler_method,omitempty"`
	Setup  [][]byte `json:"store_setup,omitempty"`
	// TimeoutWriteAt: that reply Write is cut in half by a timeout - if the server armed a write deadline
	TimeoutWriteAt int `json:"timeout_write_at,omitempty"`
}

// handlerResult builds the double's scripted result.
func handlerResult(kind, text string) (*redis.Message, error) {
	switch kind {
	case "status":
		return redis.NewStringMessage(text), nil
	case "error":
		return redis.NewErrorMessage(errors.New(text)), nil
	case "integer":
		return proto.NewMessageWithType(proto.IntegerMessage).SetBytes([]byte(text)), nil
	case "bulk":
		return redis.NewBulkMessage(text), nil
	case "array":
		return redis.NewStringArrayMessage([]string{text, "x", text}), nil
	case "nested":
		inner := redis.NewStringArrayMessage([]string{text})
		inner.Append(redis.NewStringMessage(text))
		outer := redis.NewArrayMessage()
		outer.Append(inner)
		outer.Append(redis.NewErrorMessage(errors.New(text)))
		return outer, nil
	case "nil-nil":
		return nil, nil
	}
	if n, ok := strings.CutPrefix(kind, "deep"); ok {
		// a reply nested n arrays deep around one bulk string
		depth, _ := strconv.Atoi(n)
		m := redis.NewBulkMessage(text)
		for i := 0; i < depth; i++ {
			outer := redis.NewArrayMessage()
			outer.Append(m)
			m = outer
		}
		return m, nil
	}
	switch kind {
	case "nil-err":
		return nil, errors.New(text)
	case "msg-err":
		return redis.NewBulkMessage("v"), errors.New(text)
	case "nilmsg":
		return redis.NewNilMessage(), nil
	}
	return nil, nil
}

// readThrough reads every array of the message to its end.
func readThrough(m *redis.Message) {
	if arr, err := m.Array(); err == nil && arr != nil {
		for {
			e, _ := arr.Next()
			if e == nil {
				return
			}
			readThrough(e)
		}
	}
}

func c04Check(cs c04Case) (clause, detail string) {
	// framing-only judgement of integer lines: a handler can build an integer
	// message with arbitrary text through the low-level API; the statement is
	// about frames, not about the numeric validity of such a payload.
	resp.LaxIntegers = true
	defer func() { resp.LaxIntegers = false }()
	conn := seq.NewConn(seq.Script{Input: cs.Input, TimeoutWriteAt: cs.TimeoutWriteAt})
	var server *redis.Server
	switch cs.Kind {
	case "store":
		ex := exsrv.NewServer()
		server = ex.Server
		for _, st := range cs.Setup {
			sc := seq.NewConn(seq.Script{Input: st})
			if o := srv.RunConn(server, sc); o.Panic != "" || o.Spin != "" {
				return "", "" // setup itself crashes: C07's business
			}
		}
	default:
		d := srv.NewDouble()
		catalogueDouble(d)
		if cs.Kind == "handler" {
			// "shared-K": the application builds the reply once and returns the same
			// message object from every call; "read-K": it reads the reply it built
			// (counting, logging) to the end before returning it
			mode, kind, has := strings.Cut(cs.Result, "-")
			if !has || (mode != "shared" && mode != "read") {
				mode, kind = "", cs.Result
			}
			var kept *redis.Message
			d.Result = func(d *srv.Double, c srv.Call) (*redis.Message, error) {
				if mode == "shared" && kept != nil {
					return kept, nil
				}
				m, err := handlerResult(kind, cs.Text)
				if mode == "read" && m != nil {
					readThrough(m)
				}
				kept = m
				return m, err
			}
		}
		server = srv.NewServer(d)
		server.SetAuthCommandHandler(d)
	}
	out := srv.RunConn(server, conn)
	if out.Panic != "" || out.Spin != "" {
		// crashes are C07's (not framing); the bytes written so far must still be well-formed
		vals, derr := resp.DecodeAll(out.Reply)
		_ = vals
		if derr != nil && !derr.Incomplete {
			return "reply-malformed-before-crash", derr.Error() + " in " + trunc(out.Reply, 120)
		}
		return "", ""
	}
	vals, derr := resp.DecodeAll(out.Reply)
	if derr != nil {
		return "reply-malformed", derr.Error() + " in " + trunc(out.Reply, 160)
	}
	// number of replies = number of requests processed before the connection was closed
	want := cs.NReq
	reqs, _ := resp.DecodeAll(cs.Input)
	for i, r := range reqs {
		if r.Kind == resp.Array && len(r.Elems) > 0 && r.Elems[0].Kind == resp.Bulk && strings.EqualFold(string(r.Elems[0].Data), "QUIT") {
			want = i + 1
			break
		}
	}
	if len(vals) > want {
		return "extra-frames", fmt.Sprintf("%d requests but %d reply frames (a reply was split or a frame forged): %s", want, len(vals), trunc(out.Reply, 160))
	}
	if len(vals) < want {
		// fewer replies are acceptable only if the server closed the connection instead -
		// that is, before the client's end of stream was reported to it
		if out.Closes == 0 || out.EndSeenAtClose {
			return "missing-frames", fmt.Sprintf("%d requests, %d reply frames and the server did not close the connection instead (it was open until the client's end of stream): %s", want, len(vals), trunc(out.Reply, 120))
		}
		if out.ClosedAt != len(out.Reply) {
			return "write-after-close", "bytes written after close"
		}
	}
	return "", ""
}

func c04Run(c *fw.Ctx) {
	if c.Thorough() && len(Nasty) == 15 {
		Nasty = append(Nasty, NastyMore...)
	}
	ping := grammar.Encode([]string{"PING"})
	run := func(cs c04Case, key string) {
		if !c.Mine() {
			return
		}
		c.Eval()
		c.Nontrivial()
		if c.WantSample() {
			c.Sample(map[string]any{"kind": cs.Kind, "input": trunc(cs.Input, 80), "handler_result": cs.Result, "handler_text": cs.Text})
		}
		if clause, detail := c04Check(cs); clause != "" {
			c.Violation("C04|"+key+"|"+clause, detail+" input="+trunc(cs.Input, 100), cs)
		}
	}
	// (a) client side: every valid shape with one / two argument positions replaced by each nasty string
	for _, s := range grammar.Specs {
		shapes := 0
		grammar.EachWellFormed(s, true, 1, func(r grammar.Req) {
			shapes++
			if shapes > 12 && c.Quick() {
				return
			}
			for pos := 0; pos < len(r.Args); pos++ {
				for _, n := range Nasty {
					a := append([]string{}, r.Args...)
					a[pos] = n
					where := "arg"
					if pos == 0 {
						where = "name"
					}
					run(c04Case{Kind: "client", Input: concat(grammar.Encode(a), ping), NReq: 2}, s.Name+"|client-"+where)
				}
			}
			if shapes <= 2 || (c.Thorough() && shapes <= 40) {
				for p1 := 0; p1 < len(r.Args); p1++ {
					for p2 := p1 + 1; p2 < len(r.Args); p2++ {
						for _, n1 := range []string{"\r\n+OK\r\n", "\r", "\n", ""} {
							for _, n2 := range []string{"\r\n:1\r\n", "\r\n", "\xff"} {
								a := append([]string{}, r.Args...)
								a[p1], a[p2] = n1, n2
								run(c04Case{Kind: "client", Input: concat(grammar.Encode(a), ping), NReq: 2}, s.Name+"|client-2args")
							}
						}
					}
				}
			}
		})
	}
	// top-level values that are not commands
	tops := []resp.Value{
		resp.S("PING"), resp.S(""), resp.E("ERR x"), resp.I(5), resp.B("PING"), resp.B(""), resp.Nil(), resp.A(),
		resp.A(resp.Nil()), resp.A(resp.I(1)), resp.A(resp.S("PING")), resp.A(resp.E("e")),
		resp.A(resp.A(resp.B("PING"))), resp.A(resp.A(resp.A(resp.B("GET"), resp.B("k")))), resp.A(resp.A()), resp.A(resp.A(resp.Nil())),
		resp.A(resp.B("GET"), resp.Nil()), resp.A(resp.B("GET"), resp.A(resp.B("k"))), resp.A(resp.B("SET"), resp.I(1), resp.S("v")),
		resp.A(resp.Nil(), resp.B("k")), resp.A(resp.B("MSET"), resp.B("k"), resp.Nil()),
	}
	for _, t := range tops {
		run(c04Case{Kind: "toplevel", Input: concat(t.Bytes(), ping), NReq: 2}, "toplevel:"+c06Shape(t.Bytes()))
		run(c04Case{Kind: "toplevel", Input: concat(ping, t.Bytes(), t.Bytes(), ping), NReq: 4}, "toplevel:"+c06Shape(t.Bytes()))
	}
	// (b) handler side
	triggers := [][]string{
		{"GET", "k"}, {"SET", "k", "v"}, {"DEL", "k"}, {"HGET", "h", "f"}, {"HGETALL", "h"}, {"LPOP", "l"}, {"SMEMBERS", "s"}, {"ZRANGE", "z", "0", "-1"},
		{"ZSCORE", "z", "m"}, {"KEYS", "*"}, {"SCAN", "0"}, {"TYPE", "k"}, {"MGET", "a", "b"}, {"INCR", "k"}, {"APPEND", "k", "v"}, {"STRLEN", "k"},
		{"HKEYS", "h"}, {"HLEN", "h"}, {"HEXISTS", "h", "f"}, {"SCARD", "s"}, {"SISMEMBER", "s", "m"}, {"ZCARD", "z"}, {"ZREVRANGE", "z", "0", "-1"},
		{"GETRANGE", "k", "0", "1"}, {"MSET", "a", "1"}, {"MSETNX", "a", "1"}, {"HMGET", "h", "f"}, {"EXPIRE", "k", "10"}, {"RENAME", "a", "b"},
	}
	kinds := []string{"status", "error", "integer", "bulk", "array", "nested", "nil-nil", "nil-err", "msg-err", "nilmsg"}
	for _, tr := range triggers {
		for _, k := range kinds {
			texts := Nasty
			if k == "nil-nil" || k == "nilmsg" {
				texts = []string{""}
			}
			for _, tx := range texts {
				run(c04Case{Kind: "handler", Input: concat(grammar.Encode(tr), ping), NReq: 2, Result: k, Text: tx, Method: tr[0]}, tr[0]+"|handler-"+k)
			}
		}
	}
	// (b'') replies nested as deep as the parser's own limit and beyond
	for _, tr := range triggers[:8] {
		for _, depth := range []int{3, 64, 127, 128, 129, 130, 255, 256, 257, 1000, 5000} {
			run(c04Case{Kind: "handler", Input: concat(grammar.Encode(tr), ping, grammar.Encode(tr), ping), NReq: 4, Result: fmt.Sprintf("deep%d", depth), Text: "v", Method: tr[0]}, tr[0]+"|handler-deep")
		}
	}
	// (b') replies the application keeps and returns again, or has read before returning them
	for _, tr := range triggers {
		for _, k := range []string{"shared-array", "shared-nested", "shared-bulk", "shared-status", "read-array", "read-nested"} {
			for _, tx := range []string{"v", Nasty[0], Nasty[1]} {
				req := grammar.Encode(tr)
				run(c04Case{Kind: "handler", Input: concat(req, req, req, ping), NReq: 4, Result: k, Text: tx, Method: tr[0]}, tr[0]+"|handler-"+k)
			}
		}
	}
	// (c) the example store returning stored client bytes
	for _, n := range Nasty {
		setups := [][][]byte{
			{grammar.Encode([]string{"SET", "k", n})},
			{grammar.Encode([]string{"HSET", "h", n, n})},
			{grammar.Encode([]string{"RPUSH", "l", n, "x"})},
			{grammar.Encode([]string{"SADD", "s", n})},
			{grammar.Encode([]string{"ZADD", "z", "1", n})},
			{grammar.Encode([]string{"SET", n, "v"})},
		}
		reads := [][]string{
			{"GET", "k"}, {"GETSET", "k", "z"}, {"MGET", "k", "k"}, {"GETRANGE", "k", "0", "-1"}, {"APPEND", "k", n}, {"STRLEN", "k"},
			{"HGET", "h", n}, {"HGETALL", "h"}, {"HKEYS", "h"}, {"HVALS", "h"}, {"HMGET", "h", n, "x"},
			{"LRANGE", "l", "0", "-1"}, {"LINDEX", "l", "0"}, {"LPOP", "l"}, {"RPOP", "l", "2"},
			{"SMEMBERS", "s"}, {"ZRANGE", "z", "0", "-1", "WITHSCORES"}, {"ZRANGEBYSCORE", "z", "-inf", "+inf"}, {"ZREVRANGE", "z", "0", "-1"},
			{"KEYS", "*"}, {"SCAN", "0"}, {"TYPE", n}, {"RENAME", n, "x\r\ny"}, {"INCR", "k"},
		}
		for _, st := range setups {
			for _, rd := range reads {
				run(c04Case{Kind: "store", Setup: st, Input: concat(grammar.Encode(rd), ping), NReq: 2}, "store:"+rd[0])
			}
		}
	}
	// (g) reply length ladder: a bulk reply of EVERY length 0..1100 and around every power of ten
	// and of two up to 10^5 (the length header is the one part of a frame computed from the
	// payload), alone, as an array element and from the example store
	lens := map[int]bool{}
	for n := 0; n <= 1100; n++ {
		lens[n] = true
	}
	for _, base := range []int{4096, 8192, 9999, 10000, 16384, 32768, 65536, 99999, 100000} {
		for d := -1; d <= 1; d++ {
			lens[base+d] = true
		}
	}
	for _, n := range sortedInts(lens) {
		v := strings.Repeat("x", n)
		run(c04Case{Kind: "toplevel", Input: concat(grammar.Encode([]string{"ECHO", v}), ping), NReq: 2}, "length-ladder:ECHO")
		run(c04Case{Kind: "handler", Input: concat(grammar.Encode([]string{"GET", "k"}), grammar.Encode([]string{"SMEMBERS", "s"}), ping), NReq: 3, Result: "array", Text: v, Method: "GET"}, "length-ladder:handler")
		if n <= 1100 {
			run(c04Case{Kind: "store", Setup: [][]byte{grammar.Encode([]string{"SET", "k", v}), grammar.Encode([]string{"RPUSH", "l", v, "y"})}, Input: concat(grammar.Encode([]string{"GET", "k"}), grammar.Encode([]string{"LRANGE", "l", "0", "-1"}), grammar.Encode([]string{"MGET", "k", "k"}), ping), NReq: 4}, "length-ladder:store")
		}
	}
	// (f) deadlines: a client configures an idle timeout the way Redis clients do (CONFIG SET
	// timeout) and then reads slowly; a reply write that is cut by an expiring deadline must not
	// be followed by further frames (injected only if the server really armed a write deadline)
	for _, L := range []int{10, 5000} {
		big := strings.Repeat("v", L)
		setup := [][]byte{grammar.Encode([]string{"SET", "big", big})}
		for _, knob := range [][]string{{"CONFIG", "SET", "timeout", "1"}, {"CONFIG", "SET", "timeout", "1", "tcp-keepalive", "1"}} {
			for at := 2; at <= 5; at++ {
				in := concat(grammar.Encode(knob), grammar.Encode([]string{"GET", "big"}), grammar.Encode([]string{"GET", "big"}), grammar.Encode([]string{"ECHO", big}), grammar.Encode([]string{"PING"}))
				run(c04Case{Kind: "store", Setup: setup, Input: in, NReq: 5, TimeoutWriteAt: at}, "write-deadline-expires")
			}
		}
	}
	// (e) large replies still on their way when the connection runs into a protocol error,
	// the end of the stream or QUIT: whatever was written must be whole frames
	for _, L := range []int{1000, 4000, 4096, 5000, 8192, 9000, 70000} {
		big := strings.Repeat("v", L)
		setup := [][]byte{grammar.Encode([]string{"SET", "big", big}), grammar.Encode([]string{"RPUSH", "l", big, big})}
		for ti, tail := range [][]byte{[]byte("!"), []byte("*x\r\n"), []byte("$abc\r\n"), nil, grammar.Encode([]string{"QUIT"}), []byte("*2\r\n$3\r\nGET\r\n$3\r\nbi"), []byte("+OK\r\n")} {
			for _, reads := range [][]string{{"GET", "big"}, {"LRANGE", "l", "0", "-1"}, {"ECHO", big}} {
				in := concat(grammar.Encode([]string{"PING"}), grammar.Encode(reads), grammar.Encode(reads), tail)
				nreq := 3
				if ti == 4 || ti == 6 {
					nreq = 4 // the tail is a complete top-level value of its own
				}
				run(c04Case{Kind: "store", Setup: setup, Input: in, NReq: nreq}, fmt.Sprintf("pending-large-replies:tail%d", ti))
			}
		}
	}
}

func c04Replay(raw json.RawMessage) (string, bool, error) {
	var cs c04Case
	if err := json.Unmarshal(raw, &cs); err != nil {
		return "", false, err
	}
	clause, detail := c04Check(cs)
	return fmt.Sprintf("kind=%s input=%s handler=%s/%q clause=%q %s", cs.Kind, trunc(cs.Input, 200), cs.Result, cs.Text, clause, detail), clause != "", nil
}

func c04ReplayAll(raw json.RawMessage) (string, bool, error) {
	var probe struct {
		Sched bool `json:"sched"`
	}
	json.Unmarshal(raw, &probe)
	if probe.Sched {
		return c04SchedReplay(raw)
	}
	return c04Replay(raw)
}

func init() {
	fw.Register(&fw.Prop{
		ID:          "C04",
		Level:       "exploration",
		Rule:        "(a) every valid request shape of the grammar (<=12 shapes per command; thorough: all shapes, and pairs of positions for the first 40) with each argument position, command name included, replaced by each of 13 (thorough 23) nasty strings (CR, LF, CRLF followed by forged +OK / :1 / $-1 frames, NUL, 0xff, type characters), pairs of positions for the first shapes; 21 non-command top-level values (status, error, integer, bulk, null, empty array, null/integer/status/error/nested first element), alone and doubled inside a pipeline; (b) 29 trigger commands x 10 handler result kinds (status/error/integer/bulk/array/nested carrying each nasty string, (nil,nil), (nil,err), (msg,err), nil bulk); (c) the example store preloaded with nasty keys/values/members and read back by 24 commands. (f) after CONFIG SET timeout 1, the j-th reply write (j=2..5) is cut in half by a timeout, injected only if the server armed a write deadline on the connection: nothing may follow the cut frame. (e) replies of 1000..70000 bytes (GET, LRANGE, ECHO, twice) still pending when the stream continues with a protocol error, ends, ends inside a request, or carries QUIT or a non-command value. (d) two connections running scripts with replies of every type and of different lengths through the real accept loop, every schedule within deviation bound 2 (thorough 3): each connection's bytes must decode strictly into exactly its own replies (no bytes shared between connections). Oracle: the whole reply log is a concatenation of complete strict-RESP2 values, with exactly one frame per request (fewer only if the server closed the connection before the client's end of stream was reported to it). Handler results include reply objects returned repeatedly or read before being returned, and replies nested 3..5000 arrays deep. Reply length ladder: a bulk reply of every length 0..1100 and around every power of ten and of two up to 10^5, through ECHO, as a handler's array element and from the example store.",
		Assumptions: []string{"the strict decoder in /verif/resp judges the reply stream", "panics/hangs are judged by C07/C03, not here"},
		Run:         func(c *fw.Ctx) { c04Run(c); c04Sched(c) },
		Replay:      c04ReplayAll,
	})
}
