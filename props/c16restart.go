package props

import (
	"fmt"
	exsrv "github.com/cybergarage/go-redis/examples/go-redisd/server"
	"strings"

	"github.com/anishathalye/porcupine"
	"github.com/cybergarage/go-redis/redis"
	"github.com/cybergarage/go-redis/vrt"
	"verif/fw"
	"verif/model"
	"verif/sched"
	"verif/srv"
)

// C16, lifecycle part: atomicity must survive Stop/Start and Restart issued
// while a composite command is between two of its handler operations. Client A
// sends a read-modify-write command; its handler is held (a slow store) right
// before the command's first write. Meanwhile the application restarts the
// server and client B, connecting to the restarted server, sends a write to the
// same key. Then the held handler is released, everything runs to quiescence
// and a fresh connection reads the keys. The history - A's command (whose reply
// may be lost with its connection: then it may have taken effect or not), B's
// command, the final reads - must be linearizable. Every schedule within the
// deviation bound is explored.

type c16Restart struct {
	Kind    string     `json:"kind"` // "restart"
	Initial [][]string `json:"initial"`
	A       []string   `json:"a"`
	B       []string   `json:"b"`
	How     string     `json:"how"` // "restart" | "stop-start" | "none"
	Choices []int      `json:"choices,omitempty"`
}

func (cs c16Restart) class() string {
	return "restart|" + cs.How + "|" + cs.A[0] + "+" + cs.B[0]
}

func c16RestartExplorer(cs c16Restart, bound int) *sched.Explorer {
	x := &sched.Explorer{Bound: bound}
	x.New = func() *sched.Run {
		var hist []porcupine.Operation
		var notes []string
		st := model.New()
		for _, c := range cs.Initial {
			st.Apply(c)
		}
		init := c16Encode(st)
		harnessErr := ""
		body := func() {
			store := srv.NewRefStore()
			store.DBs[0] = st.Clone()
			gate := &vrt.Mutex{}
			gate.Lock()
			armed, held := true, false
			store.Before = func(op string) {
				if armed && (op == "Set" || op == "Del") {
					// the slow store: the first write of A's command waits for the gate
					armed, held = false, true
					gate.Lock()
					gate.Unlock()
				}
				vrt.Yield("primitive " + op)
			}
			var s *redis.Server = srv.NewServer(store)
			if err := s.Start(); err != nil {
				harnessErr = "start: " + err.Error()
				return
			}
			record := func(client int, args []string, call int64, o sched.Outcome, lost bool) {
				out := "<any>"
				if o.Status == "ok" {
					out = o.Reply.String()
				} else if !lost {
					out = "<" + o.Status + ">"
				}
				hist = append(hist, porcupine.Operation{ClientId: client, Input: c16Op{Args: args}, Call: call, Output: out, Return: vrt.Step()})
			}
			aDone := false
			var aCall int64
			var aOut sched.Outcome
			vrt.Go("clientA", func() {
				cl, o := sched.Dial(":6379")
				if o.Status != "ok" {
					harnessErr = "client A: dial " + o.Status
					return
				}
				aCall = vrt.Step()
				aOut = cl.Do(cs.A...)
				aDone = true
				cl.Close()
			})
			vrt.WaitQuiet()
			if !held && !aDone {
				harnessErr = "client A neither parked at the gate nor finished"
				return
			}
			vrt.Go("restarter", func() {
				var err error
				switch cs.How {
				case "restart":
					err = s.Restart()
				case "stop-start":
					s.Stop()
					err = s.Start()
				case "none":
					// no lifecycle call: client B simply arrives while A's command is held
				}
				if err != nil {
					notes = append(notes, "restart: "+err.Error())
					return
				}
				cl, o := sched.Dial(":6379")
				if o.Status != "ok" {
					notes = append(notes, "client B: dial "+o.Status)
					return
				}
				call := vrt.Step()
				r := cl.Do(cs.B...)
				record(1, cs.B, call, r, false)
				cl.Close()
			})
			vrt.WaitQuiet()
			gate.Unlock()
			vrt.WaitQuiet()
			// A's command: answered, or lost with its connection
			record(0, cs.A, aCall, aOut, aOut.Status != "ok")
			cl, o := sched.Dial(":6379")
			if o.Status != "ok" {
				notes = append(notes, "final reader: dial "+o.Status)
				return
			}
			for _, key := range []string{"k", "j"} {
				call := vrt.Step()
				r := cl.Do("GET", key)
				record(2, []string{"GET", key}, call, r, false)
			}
			cl.Close()
		}
		return &sched.Run{
			Body: body,
			Verdict: func(r *vrt.Result) sched.Verdict {
				if v, ok := panicVerdict(r); ok {
					return v
				}
				if harnessErr != "" {
					return sched.Verdict{Obs: "HARNESS-PANIC " + harnessErr}
				}
				obs := c16HistString(hist) + " " + strings.Join(notes, "; ")
				if len(hist) != 4 {
					return sched.Verdict{Clause: "client-starved", Detail: fmt.Sprintf("%d of 4 operations completed after the restart: %s", len(hist), obs), Obs: obs}
				}
				m := c16Model
				m.Init = func() interface{} { return init }
				if porcupine.CheckOperations(m, hist) {
					return sched.Verdict{Obs: obs}
				}
				// a command whose reply was lost may also not have been executed at all
				if hist[1].Output == "<any>" {
					var without []porcupine.Operation
					without = append(without, hist[0])
					without = append(without, hist[2:]...)
					if porcupine.CheckOperations(m, without) {
						return sched.Verdict{Obs: obs}
					}
				}
				return sched.Verdict{Clause: "not-linearizable", Detail: "history " + c16HistString(hist) + " has no sequential order respecting real time, with the unanswered command executed or not (initial state " + fmt.Sprintf("%q", init) + ")", Obs: obs}
			},
		}
	}
	return x
}

func c16RestartScenarios() []c16Restart {
	var out []c16Restart
	as := [][]string{{"APPEND", "k", "2"}, {"INCR", "k"}, {"GETSET", "k", "9"}, {"MSETNX", "j", "1", "k", "4"}, {"DECRBY", "k", "3"}, {"SETNX", "k", "7"}}
	bs := [][]string{{"SET", "k", "15"}, {"INCR", "k"}, {"DEL", "k"}, {"APPEND", "k", "8"}}
	for _, how := range []string{"restart", "stop-start", "none"} {
		for _, initial := range [][][]string{nil, {{"SET", "k", "1"}}} {
			for _, a := range as {
				for _, b := range bs {
					out = append(out, c16Restart{Kind: "restart", Initial: initial, A: a, B: b, How: how})
				}
			}
		}
	}
	return out
}

func c16RestartExplore(c *fw.Ctx, cs c16Restart, bound int) {
	x := c16RestartExplorer(cs, bound)
	x.Expired = c.Expired
	x.OnExec = func(choices []int, r *vrt.Result, v sched.Verdict) {
		c.Eval()
		if strings.HasPrefix(v.Obs, "HARNESS-PANIC") {
			c.HarnessError("C16 %s %s", cs.class(), v.Obs)
		}
		if v.Clause != "" {
			cc := cs
			cc.Choices = choices
			c.Violation("C16|"+cs.class()+"|"+v.Clause, v.Detail+fmt.Sprintf(" schedule=%v", choices), cc)
		}
	}
	x.Explore()
	schedAccount(c, x, cs.class()+fmt.Sprint(cs.Initial))
}

// c16Databases: clients that selected DIFFERENT databases do not interfere at all - each one's
// replies are what it would get alone - whatever order the databases were first used in
// (the bundled example store; every schedule within the bound).
type c16DBCase struct {
	Kind    string `json:"kind"` // "databases"
	DBs     []int  `json:"databases"`
	Choices []int  `json:"choices,omitempty"`
}

func c16DBExplorer(cs c16DBCase, bound int) *sched.Explorer {
	x := &sched.Explorer{Bound: bound}
	x.New = func() *sched.Run {
		w := &mcWorld{}
		for i, db := range cs.DBs {
			v := fmt.Sprintf("client%d", i)
			w.Scripts = append(w.Scripts, [][]string{{"SELECT", fmt.Sprint(db)}, {"SETNX", "lock", v}, {"INCR", "n"}, {"APPEND", "s", "x"}, {"RPUSH", "l", v}, {"GET", "lock"}, {"LRANGE", "l", "0", "-1"}, {"KEYS", "*"}})
		}
		w.Setup = func(m *mcWorld) {
			ex := exsrv.NewServer()
			m.Srv = ex.Server
			ex.Set(nil2conn(), "zero", "0", setOptNone)
		}
		return &sched.Run{
			Body: w.body,
			Verdict: func(r *vrt.Result) sched.Verdict {
				if v, ok := panicVerdict(r); ok {
					return v
				}
				obs := repliesString(w.Replies)
				for i := range cs.DBs {
					v := fmt.Sprintf("client%d", i)
					want := []string{`+"OK"`, `:"1"`, `:"1"`, `:"1"`, `:"1"`, `$"` + v + `"`, `[$"` + v + `"]`}
					if len(w.Replies[i]) != len(want)+1 {
						return sched.Verdict{Clause: "client-starved", Detail: fmt.Sprintf("client %d got %d of %d replies: %s", i, len(w.Replies[i]), len(want)+1, obs), Obs: obs}
					}
					for j, wv := range want {
						if got := w.Replies[i][j].Reply.String(); w.Replies[i][j].Status != "ok" || got != wv {
							return sched.Verdict{Clause: "databases-interfere", Detail: fmt.Sprintf("client %d works alone in database %d, but its request #%d was answered %s (alone: %s); all replies: %s", i, cs.DBs[i], j, got, wv, obs), Obs: obs}
						}
					}
					nkeys := 4
					if cs.DBs[i] == 0 {
						nkeys = 5 // plus the key the setup put into database 0
					}
					if keys := w.Replies[i][len(want)].Reply; len(keys.Elems) != nkeys {
						return sched.Verdict{Clause: "databases-interfere", Detail: fmt.Sprintf("client %d: KEYS * in database %d lists %s, it created lock, n, s, l", i, cs.DBs[i], keys), Obs: obs}
					}
				}
				return sched.Verdict{Obs: obs}
			},
		}
	}
	return x
}

func c16Databases(c *fw.Ctx) {
	for _, dbs := range [][]int{{2, 1}, {1, 2}, {3, 1}, {1, 0}, {5, 2}} {
		if !c.Mine() {
			continue
		}
		cs := c16DBCase{Kind: "databases", DBs: dbs}
		x := c16DBExplorer(cs, 1)
		x.Expired = c.Expired
		x.OnExec = func(choices []int, r *vrt.Result, v sched.Verdict) {
			c.Eval()
			if strings.HasPrefix(v.Obs, "HARNESS-PANIC") {
				c.HarnessError("C16 databases %v %s", dbs, v.Obs)
			}
			if v.Clause != "" {
				cc := cs
				cc.Choices = choices
				c.Violation("C16|databases|"+v.Clause, v.Detail+fmt.Sprintf(" schedule=%v", choices), cc)
			}
		}
		x.Explore()
		schedAccount(c, x, fmt.Sprint("databases ", dbs))
	}
}
