package props

import (
	"bytes"
	"encoding/hex"
	"encoding/json"
	"fmt"
	"os"
	"os/exec"
	"strconv"
	"strings"
	"syscall"

	"github.com/cybergarage/go-redis/redis/proto"
	"verif/fw"
	"verif/resp"
	"verif/seq"
)

// C06: the parser is total on hostile input.

type c06Case struct {
	Input  []byte `json:"input"`
	Stride int    `json:"stride,omitempty"`
	Sub    bool   `json:"subprocess,omitempty"`
	Gen    string `json:"generated,omitempty"` // subprocess input given as "unit-hex:count:tail-hex" (too long for an argument)
}

const c06MaxValuesPerStream = 64

// c06Parse drains the stream with Next until end/error. Verdict "" = fine.
func c06Parse(input []byte, stride int) (clause, detail string) {
	r := seq.NewChunkReader(input, nil, stride)
	parser := proto.NewParserWithReader(r)
	for i := 0; i < c06MaxValuesPerStream+len(input); i++ {
		var m *proto.Message
		var err error
		if p := guard(func() { m, err = parser.Next() }); p != "" {
			if strings.HasPrefix(p, "loop budget exceeded") {
				return "spin", fmt.Sprintf("Next does not terminate: %s (%d reads after end of stream)", shortPanic(p), r.ReadsAfterEnd())
			}
			return "panic", shortPanic(p)
		}
		if err != nil || m == nil {
			return "", ""
		}
		var absent bool
		var cerr error
		if p := guard(func() { _, absent, cerr = fromProto(m, 0) }); p != "" {
			return "walk-panic", shortPanic(p)
		}
		if absent {
			return "absent-element", "Next returned an array containing an absent (nil) element"
		}
		_ = cerr
	}
	return "no-termination", "more values than bytes"
}

func shortPanic(p string) string {
	if i := strings.IndexByte(p, '\n'); i > 0 {
		p = p[:i]
	}
	if len(p) > 160 {
		p = p[:160]
	}
	return p
}

// c06Shape is the cause-key class of an input: its type byte structure with
// digits collapsed.
func c06Shape(input []byte) string {
	var b strings.Builder
	lastDigit := false
	n := 0
	for _, ch := range input {
		if n > 24 {
			b.WriteString("…")
			break
		}
		switch {
		case ch >= '0' && ch <= '9':
			if !lastDigit {
				b.WriteByte('N')
				n++
			}
			lastDigit = true
			continue
		case ch == '\r':
			b.WriteString("␍")
		case ch == '\n':
			b.WriteString("␊")
		case ch == '*' || ch == '$' || ch == '+' || ch == '-' || ch == ':':
			b.WriteByte(ch)
		default:
			b.WriteByte('x')
		}
		n++
		lastDigit = false
	}
	return b.String()
}

// c06Class is a coarser cause class used as finding identity: which frame type
// is being read when things go wrong and the magnitude class of its number.
func c06Class(input []byte, clause, detail string) string {
	switch clause {
	case "absent-element":
		return "C06|array-cut-by-eof|absent-element"
	case "panic", "walk-panic":
		d := detail
		switch {
		case strings.Contains(d, "makeslice"):
			d = "makeslice"
		case strings.Contains(d, "out of range"):
			d = "index-out-of-range"
		case strings.Contains(d, "nil pointer"):
			d = "nil-deref"
		}
		return "C06|" + c06Lead(input) + "|" + clause + ":" + d
	}
	return "C06|" + c06Lead(input) + "|" + clause
}

// c06Lead names the innermost frame kind whose declared number is extreme.
func c06Lead(input []byte) string {
	kind := "other"
	best := int64(-1)
	for i := 0; i < len(input); i++ {
		if input[i] == '*' || input[i] == '$' {
			j := i + 1
			for j < len(input) && input[j] >= '0' && input[j] <= '9' {
				j++
			}
			if j > i+1 {
				v, err := strconv.ParseInt(string(input[i+1:j]), 10, 64)
				if err != nil {
					v = 1 << 62
				}
				if v > best {
					best = v
					if input[i] == '*' {
						kind = "array-count"
					} else {
						kind = "bulk-length"
					}
				}
			}
		}
	}
	return kind
}

func c06RunOne(c *fw.Ctx, input []byte, stride int) {
	c.Eval()
	clause, detail := c06Parse(input, stride)
	if clause != "" {
		c.Violation(c06Class(input, clause, detail), fmt.Sprintf("%s: %s input=%s stride=%d", clause, detail, trunc(input, 60), stride), c06Case{Input: cp(input), Stride: stride})
	}
}

var c06Boundary = []string{"2147483647", "2147483648", "9223372036854775806", "9223372036854775807", "9223372036854775808", "10000000000000", "-1", "-2", "-9223372036854775808", "", "00", "+1", "1e3", "4294967296", "99999999999999999999"}

func c06BigNumber(s string) bool {
	v, err := strconv.ParseInt(s, 10, 64)
	if err != nil {
		// overflowing numbers: Atoi fails, no allocation → safe in-process
		return false
	}
	return v > 1<<20
}

func c06Bases() [][]byte {
	vals := []resp.Value{
		resp.S("OK"), resp.E("ERR x"), resp.I(12), resp.B("hello"), resp.B(""), resp.Nil(),
		resp.A(), resp.A(resp.B("a")), resp.Cmd("SET", "key", "value"), resp.Cmd("GET", "k"),
		resp.A(resp.A(resp.B("x"), resp.I(1)), resp.A()), resp.A(resp.A(resp.A(resp.B("deep")))),
		resp.A(resp.S("s"), resp.I(7), resp.B("b"), resp.Nil(), resp.E("e")),
		resp.Cmd("MSET", "a", "1", "b", "2"), resp.B("0123456789ab"),
	}
	var out [][]byte
	for _, v := range vals {
		out = append(out, v.Bytes())
	}
	// pipelines
	out = append(out, append(resp.Cmd("PING").Bytes(), resp.Cmd("GET", "k").Bytes()...))
	out = append(out, append(resp.Cmd("SET", "k", "v").Bytes(), append(resp.B("x").Bytes(), resp.Cmd("QUIT").Bytes()...)...))
	ten := make([]resp.Value, 12)
	for i := range ten {
		ten[i] = resp.B("e")
	}
	out = append(out, resp.A(ten...).Bytes())
	return out
}

func digitRuns(b []byte) [][2]int {
	var runs [][2]int
	for i := 0; i < len(b); {
		if (b[i] == '*' || b[i] == '$' || b[i] == ':') && i+1 < len(b) {
			j := i + 1
			if j < len(b) && b[j] == '-' {
				j++
			}
			k := j
			for k < len(b) && b[k] >= '0' && b[k] <= '9' {
				k++
			}
			if k > i+1 {
				runs = append(runs, [2]int{i + 1, k})
				i = k
				continue
			}
		}
		i++
	}
	return runs
}

func c06Run(c *fw.Ctx) {
	alpha := []byte{'*', '$', '+', '-', ':', '0', '1', '2', '9', '\r', '\n', 'a', ' '}
	maxLen := 6
	if c.Thorough() {
		maxLen = 8
	}
	// (a) all strings up to maxLen
	eachString(alpha, maxLen, func(b []byte) {
		if !c.Mine() {
			return
		}
		if len(b) >= 2 && (b[0] == '*' || b[0] == '$') {
			c.Nontrivial()
		}
		c06RunOne(c, b, 0)
		if len(b) > 1 {
			c06RunOne(c, b, 1)
		}
	})
	c.Sample(map[string]string{"family": "all strings <= maxLen over {* $ + - : 0 1 2 9 CR LF a SP}", "example": "*2\\r\\n$1"})
	// (a') every byte value as the type byte of a top-level value and of an array element
	for v := 0; v < 256; v++ {
		for _, in := range [][]byte{
			append([]byte{byte(v)}, "1\r\n"...),
			append([]byte{byte(v)}, "\r\n"...),
			append(append([]byte("*2\r\n$4\r\nINCR\r\n"), byte(v)), "1\r\n"...),
			append(append([]byte("*1\r\n"), byte(v)), "3\r\nabc\r\n"...),
			append(append([]byte("*1\r\n*1\r\n"), byte(v)), "\r\n"...),
		} {
			if !c.Mine() {
				continue
			}
			c.Nontrivial()
			c06RunOne(c, in, 0)
			c06RunOne(c, in, 1)
		}
	}
	// (a'') wide arrays: a declared count N with exactly N elements (complete) or N-1 (cut
	// short), N around the powers of two up to 8193: no absent element may come back
	for k := 3; k <= 13; k++ {
		for d := -1; d <= 1; d++ {
			n := 1<<k + d
			if !c.Mine() {
				continue
			}
			for _, el := range []string{":1\r\n", "$1\r\na\r\n", "*0\r\n"} {
				in := append([]byte("*"+strconv.Itoa(n)+"\r\n"), bytes.Repeat([]byte(el), n)...)
				c.Nontrivial()
				c06RunOne(c, in, 0)
				c06RunOne(c, in[:len(in)-len(el)], 0)
				c06RunOne(c, append([]byte("*2\r\n+x\r\n"), in...), 4096)
			}
		}
	}
	// (b) structured family
	bases := c06Bases()
	var subCases [][]byte
	structured := func(b []byte) {
		if !c.Mine() {
			return
		}
		c.Nontrivial()
		c06RunOne(c, b, 0)
		c06RunOne(c, b, 1)
	}
	for _, base := range bases {
		for k := 0; k < len(base); k++ { // truncations
			structured(base[:k])
		}
		for k := 0; k < len(base); k++ { // deletions
			structured(append(append([]byte{}, base[:k]...), base[k+1:]...))
		}
		for k := 0; k < len(base); k++ { // substitutions
			for _, a := range alpha {
				if a == base[k] {
					continue
				}
				m := append([]byte{}, base...)
				m[k] = a
				structured(m)
			}
		}
		// every one of the 256 byte values at every position (lookup tables indexed by a
		// stream byte, bytes next to the type characters, control and high bytes)
		for k := 0; k < len(base); k++ {
			for v := 0; v < 256; v++ {
				if byte(v) == base[k] || bytes.IndexByte(alpha, byte(v)) >= 0 {
					continue
				}
				if c.Quick() && len(base) > 24 && k > 12 && k < len(base)-4 {
					continue // quick: head and tail of the longer bases
				}
				m := append([]byte{}, base...)
				m[k] = byte(v)
				structured(m)
			}
		}
		for _, run := range digitRuns(base) {
			for _, num := range c06Boundary {
				m := append(append(append([]byte{}, base[:run[0]]...), num...), base[run[1]:]...)
				if c06BigNumber(num) {
					subCases = append(subCases, m)
					// also the truncated form: prefix only (declared size, then EOF)
					subCases = append(subCases, m[:run[0]+len(num)+2])
					continue
				}
				structured(m)
			}
		}
	}
	if c.Thorough() {
		for i, a := range bases {
			for j, b := range bases {
				if i == j {
					continue
				}
				for ka := 0; ka <= len(a); ka += 1 {
					for kb := 0; kb <= len(b); kb += 3 {
						structured(append(append([]byte{}, a[:ka]...), b[kb:]...))
					}
				}
			}
		}
	}
	if c.WantSample() {
		c.Sample(map[string]string{"family": "structured edits of valid streams", "example": trunc(bases[8][:11], 40)})
	}
	// (c) big declared sizes: each in a sacrificial subprocess with an address-space cap
	self, _ := os.Executable()
	for _, in := range subCases {
		if !c.Mine() {
			continue
		}
		c.Eval()
		c.Nontrivial()
		c.Count("subprocess_cases", 1)
		verdict, detail := c06Sacrifice(self, in)
		if verdict != "" {
			c.Violation("C06|"+c06Lead(in)+"|"+verdict, fmt.Sprintf("%s: %s input=%s (sacrificial subprocess, RLIMIT_AS=%d GiB)", verdict, detail, trunc(in, 60), c06LimitGiB), c06Case{Input: in, Sub: true})
		}
	}
	// (d) nesting depth: nothing but array headers, up to 8 million levels (32 MB)
	for _, unit := range []string{"*1\r\n", "*2\r\n:1\r\n", "*2\r\n$1\r\na\r\n"} {
		for _, n := range []int{100, 128, 129, 1000, 100000, 2000000, 8000000} {
			for _, tail := range []string{":1\r\n", "", "*0\r\n"} {
				if !c.Mine() {
					continue
				}
				if c.Quick() && n > 2000000 {
					continue
				}
				spec := fmt.Sprintf("%s:%d:%s", hex.EncodeToString([]byte(unit)), n, hex.EncodeToString([]byte(tail)))
				c.Eval()
				c.Nontrivial()
				c.Count("subprocess_cases", 1)
				verdict, detail := c06Sacrifice(self, nil, spec)
				if verdict != "" {
					c.Violation("C06|nesting|"+verdict, fmt.Sprintf("%s: %s input=%d x %q + %q (sacrificial subprocess, RLIMIT_AS=%d GiB)", verdict, detail, n, unit, tail, c06LimitGiB), c06Case{Gen: spec, Sub: true})
				}
			}
		}
	}
	if len(subCases) > 0 && c.WantSample() {
		c.Sample(map[string]string{"family": "declared sizes > 2^20 run in a sacrificial subprocess", "example": trunc(subCases[0], 50)})
	}
}

const c06LimitGiB = 8

// c06Sacrifice parses the input in a child process whose address space is
// capped; the verdict is the actual fate of that process.
func c06Sacrifice(self string, input []byte, gen ...string) (verdict, detail string) {
	arg := hex.EncodeToString(input)
	if len(gen) > 0 {
		arg = "gen:" + gen[0]
	}
	cmd := exec.Command(self, "aux", "c06-parse", arg)
	cmd.Env = append(os.Environ(), "GOMAXPROCS=1", "GOGC=off")
	var out, errb bytes.Buffer
	cmd.Stdout = &out
	cmd.Stderr = &tailBuf{max: 4000, b: &errb}
	err := cmd.Run()
	o := strings.TrimSpace(out.String())
	if err == nil {
		if o == "ok" {
			return "", ""
		}
		if strings.HasPrefix(o, "bad ") {
			parts := strings.SplitN(o[4:], " ", 2)
			d := ""
			if len(parts) > 1 {
				d = parts[1]
			}
			if parts[0] == "panic" {
				switch {
				case strings.Contains(d, "makeslice"):
					return "panic:makeslice", d
				case strings.Contains(d, "out of range"):
					return "panic:index-out-of-range", d
				}
			}
			return parts[0], d
		}
		return "harness", "unexpected child output: " + o
	}
	e := errb.String()
	switch {
	case strings.Contains(e, "out of memory") || strings.Contains(e, "cannot allocate memory"):
		return "process-abort:out-of-memory", "fatal error: out of memory"
	case strings.Contains(e, "stack overflow"):
		return "process-abort:stack-overflow", "fatal error: stack overflow"
	}
	if len(e) > 300 {
		e = e[:300]
	}
	return "process-abort", fmt.Sprintf("%v: %s", err, e)
}

type tailBuf struct {
	max int
	b   *bytes.Buffer
}

func (t *tailBuf) Write(p []byte) (int, error) {
	if t.b.Len() < t.max {
		t.b.Write(p)
	}
	return len(p), nil
}

func c06Aux(args []string) int {
	if len(args) < 1 {
		return 2
	}
	var in []byte
	var err error
	if spec, ok := strings.CutPrefix(args[0], "gen:"); ok {
		parts := strings.Split(spec, ":")
		if len(parts) != 3 {
			return 2
		}
		unit, e1 := hex.DecodeString(parts[0])
		n, e2 := strconv.Atoi(parts[1])
		tail, e3 := hex.DecodeString(parts[2])
		if e1 != nil || e2 != nil || e3 != nil {
			return 2
		}
		in = append(bytes.Repeat(unit, n), tail...)
	} else if in, err = hex.DecodeString(args[0]); err != nil {
		return 2
	}
	lim := uint64(c06LimitGiB) << 30
	syscall.Setrlimit(syscall.RLIMIT_AS, &syscall.Rlimit{Cur: lim, Max: lim})
	clause, detail := c06Parse(in, 0)
	if clause == "" {
		fmt.Println("ok")
	} else {
		fmt.Printf("bad %s %s\n", clause, detail)
	}
	return 0
}

func c06Replay(raw json.RawMessage) (string, bool, error) {
	var cs c06Case
	if err := json.Unmarshal(raw, &cs); err != nil {
		return "", false, err
	}
	if cs.Sub && cs.Gen != "" {
		self, _ := os.Executable()
		v, d := c06Sacrifice(self, nil, cs.Gen)
		return fmt.Sprintf("generated=%s subprocess verdict=%q %s", cs.Gen, v, d), v != "", nil
	}
	if cs.Sub {
		self, _ := os.Executable()
		v, d := c06Sacrifice(self, cs.Input)
		return fmt.Sprintf("input=%s subprocess verdict=%q %s", trunc(cs.Input, 200), v, d), v != "", nil
	}
	clause, detail := c06Parse(cs.Input, cs.Stride)
	return fmt.Sprintf("input=%s stride=%d clause=%q %s", trunc(cs.Input, 200), cs.Stride, clause, detail), clause != "", nil
}

func init() {
	fw.RegisterAux("c06-parse", c06Aux)
	fw.Register(&fw.Prop{
		ID:    "C06",
		Level: "exploration",
		Rule:  "(a) ALL byte strings of length <=6 (thorough <=8) over {* $ + - : 0 1 2 9 CR LF a SP}, each whole and 1-byte-at-a-time; every one of the 256 byte values as the type byte of a top-level value, of a command argument and of a nested element; arrays with a declared count of 2^k-1, 2^k, 2^k+1 (k=3..13) elements, complete, one element short, and nested; (b) around 18 valid base streams: every truncation, every single-byte deletion, every single-byte substitution from the alphabet and by every other byte value (quick: at the first 12 and last 4 positions of bases longer than 24 bytes), every digit run replaced by each of 15 boundary numbers (thorough: splices of two bases); (c) declared sizes > 2^20 parsed in a sacrificial subprocess with RLIMIT_AS=8GiB whose actual fate (return, panic, fatal out-of-memory, fatal stack overflow) is the verdict; (d) nesting: 100 .. 2*10^6 (thorough 8*10^6) repetitions of an array header (alone, or behind a first element) closed, cut off, or ended by an empty array, in the same kind of subprocess. Non-trivial = the string starts a length-prefixed frame (family a) or is a structured edit (b, c).",
		Assumptions: []string{
			"an address-space cap of 8 GiB stands for 'finite memory'; a fatal out-of-memory abort of the child counts as the process aborting",
			"all byte strings up to 1 MiB and coverage-guided fuzzing are not claimed",
		},
		Run:    c06Run,
		Replay: c06Replay,
	})
}
