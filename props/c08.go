package props

import (
	"crypto/tls"
	"encoding/json"
	"fmt"
	"strings"
	"time"

	"github.com/cybergarage/go-redis/redis"
	"github.com/cybergarage/go-redis/vrt"
	"verif/fw"
	"verif/resp"
	"verif/sched"
	"verif/seq"
	"verif/srv"
)

// C08: password gate.

const c08Pass = "Secret1"

type c08Event struct {
	Elems []resp.Value `json:"-"`
	Raw   []byte       `json:"raw"`
	Class string       `json:"class"` // auth-good | auth-refuse | auth-free | probe-handler | probe-framework | probe-select | probe-app
	Pw    string       `json:"-"`
}

type c08Case struct {
	Kind    string       `json:"kind"` // state | sched
	History [][]byte     `json:"history,omitempty"`
	Classes []string     `json:"classes,omitempty"`
	Scripts [][][]string `json:"scripts,omitempty"`
	Choices []int        `json:"choices,omitempty"`
	TLS     bool         `json:"tls,omitempty"`     // state: the connection arrived over the TLS port (no client certificate)
	Program []string     `json:"program,omitempty"` // runtime: password set / changed / removed while the server lives
}

func swapCase(s string) string {
	b := []byte(s)
	for i, c := range b {
		switch {
		case c >= 'a' && c <= 'z':
			b[i] = c - 32
		case c >= 'A' && c <= 'Z':
			b[i] = c + 32
		}
	}
	return string(b)
}

func c08Events() []c08Event {
	mk := func(class string, elems ...resp.Value) c08Event {
		return c08Event{Elems: elems, Raw: resp.A(elems...).Bytes(), Class: class}
	}
	P := c08Pass
	var ev []c08Event
	ev = append(ev, mk("auth-good", resp.B("AUTH"), resp.B(P)))
	ev = append(ev, mk("auth-good", resp.B("auth"), resp.B(P)))
	dict := []string{"", "Sec\r\nret1", P + "x", P + "\x00", swapCase(P), " " + P, "wrong", P + "\r\n", P + "\r\nx", P + "\n", P + "\r", "\r\n" + P}
	for i := 1; i < len(P); i++ {
		dict = append(dict, P[:i])
	}
	for _, d := range dict {
		ev = append(ev, mk("auth-refuse", resp.B("AUTH"), resp.B(d)))
	}
	ev = append(ev, mk("auth-refuse", resp.B("AUTH"), resp.Nil()))
	ev = append(ev, mk("auth-refuse", resp.B("AUTH")))
	for _, u := range []string{"admin", P} {
		for _, x := range []string{P, "", "wrong"} {
			ev = append(ev, mk("auth-refuse", resp.B("AUTH"), resp.B(u), resp.B(x)))
		}
	}
	ev = append(ev, mk("auth-refuse", resp.B("AUTH"), resp.B(""), resp.B("wrong")))
	ev = append(ev, mk("auth-refuse", resp.B("AUTH"), resp.B(""), resp.B("")))
	ev = append(ev, mk("auth-refuse", resp.B("AUTH"), resp.Nil(), resp.B("")))
	// the password followed by something that is not a bulk string: a two-argument form whose
	// password is not the password
	ev = append(ev, mk("auth-refuse", resp.B("AUTH"), resp.B(P), resp.Nil()))
	ev = append(ev, mk("auth-refuse", resp.B("AUTH"), resp.B(P), resp.I(1)))
	ev = append(ev, mk("auth-refuse", resp.B("AUTH"), resp.B(P), resp.A()))
	ev = append(ev, mk("auth-refuse", resp.B("AUTH"), resp.B(P), resp.A(resp.B(P))))
	// forms the statement does not settle: no expectation on the reply
	free := []c08Event{
		mk("auth-free", resp.B("AUTH"), resp.B(""), resp.B(P)),
		mk("auth-free", resp.B("AUTH"), resp.B("default"), resp.B(P)),
		mk("auth-free", resp.B("AUTH"), resp.B("a"), resp.B("b"), resp.B(P)),
	}
	for i := range free {
		free[i].Pw = P
	}
	ev = append(ev, free...)
	ev = append(ev,
		mk("probe-handler", resp.B("GET"), resp.B("k")),
		mk("probe-handler", resp.B("SET"), resp.B("k"), resp.B("v")),
		mk("probe-framework", resp.B("PING")),
		mk("probe-framework", resp.B("ECHO"), resp.B("m")),
		mk("probe-framework", resp.B("CONFIG"), resp.B("GET"), resp.B("requirepass")),
		mk("probe-select", resp.B("SELECT"), resp.B("1")),
		mk("probe-app", resp.B("MYCMD"), resp.B("x")),
	)
	return ev
}

type c08State struct {
	Auth     bool
	User     string
	Pw       string
	DB       int
	Unlocked bool
}

// c08Replay runs a history on one fresh connection and judges every step.
func c08RunHistory(events []c08Event, overTLS bool) (st c08State, clause, detail string) {
	d := srv.NewDouble()
	s := srv.NewServer(d)
	s.SetRequirePass(c08Pass)
	installPassword(s, c08Pass)
	appCalls := 0
	s.RegisterExexutor("MYCMD", func(conn *redis.Conn, cmd string, args redis.Arguments) (*redis.Message, error) {
		appCalls++
		return redis.NewBulkMessage("app"), nil
	})
	var in []byte
	var ends []int
	for _, e := range events {
		in = append(in, e.Raw...)
		ends = append(ends, len(in))
	}
	// a read never crosses a request boundary, so that also a server that reads ahead
	// through a buffer asks for request k+1 only after it has processed request k
	conn := seq.NewConn(seq.Script{Input: in, Splits: ends[:max(len(ends)-1, 0)]})
	// observe the live connection object after each request through the registry
	type snap struct {
		auth     bool
		user, pw string
		db       int
		calls    int
		app      int
	}
	snaps := make([]snap, 0, len(events)+1)
	take := func() {
		cs := s.Conns()
		sn := snap{calls: len(d.Calls), app: appCalls, db: -1}
		if len(cs) == 1 {
			sn.auth = cs[0].IsAuthrized()
			sn.user, _ = cs[0].UserName()
			sn.pw, _ = cs[0].Password()
			sn.db = int(cs[0].Database())
		}
		snaps = append(snaps, sn)
	}
	next := 0
	conn.OnRead = func(delivered int, starving bool) {
		for next < len(ends) && delivered >= ends[next] && len(snaps) <= next {
			// all bytes of request `next` were delivered and the loop is reading
			// again: request `next` has been processed iff its reply was written
			break
		}
		if len(snaps) == 0 {
			take() // initial state
		}
		k := 0
		for k < len(ends) && ends[k] <= delivered {
			k++
		}
		for len(snaps) < k+1 {
			take()
		}
	}
	var tlsState *tls.ConnectionState
	if overTLS {
		tlsState = &tls.ConnectionState{HandshakeComplete: true, Version: tls.VersionTLS13}
	}
	out := srv.RunConnTLS(s, conn, tlsState)
	if cl, dt := crashClause(out); cl != "" {
		return st, cl, dt
	}
	vals, derr := resp.DecodeAll(out.Reply)
	if derr != nil || len(vals) != len(events) {
		return st, "reply-count", fmt.Sprintf("%d requests, replies %s err=%v", len(events), valuesString(vals), derr)
	}
	if len(snaps) != len(events)+1 {
		return st, "", "" // harness could not observe (connection ended early)
	}
	unlocked := false
	for i, e := range events {
		before, after := snaps[i], snaps[i+1]
		rep := vals[i]
		what := trunc(e.Raw, 60)
		switch e.Class {
		case "auth-good":
			if !rep.Equal(resp.S("OK")) {
				return st, "good-password-refused", fmt.Sprintf("%s (the exact password) answered %s", what, rep)
			}
			unlocked = true
		case "auth-refuse":
			if !rep.IsError() {
				return st, "wrong-credentials-accepted", fmt.Sprintf("%s answered %s instead of an error", what, rep)
			}
			if after.auth != before.auth {
				return st, "refused-auth-changed-authorization", fmt.Sprintf("%s was refused but the connection's authorization changed from %v to %v", what, before.auth, after.auth)
			}
		case "auth-free":
			if rep.Equal(resp.S("OK")) && e.Pw == c08Pass {
				unlocked = true
			}
		default: // probes
			called := after.calls > before.calls || after.app > before.app
			executed := called || !rep.IsError() || after.db != before.db
			if !unlocked && executed {
				return st, "executed-before-auth", fmt.Sprintf("%s was executed (reply %s, handler called=%v, db %d->%d) on a connection that never presented the password", what, rep, called, before.db, after.db)
			}
			if unlocked && rep.IsError() {
				return st, "refused-after-auth", fmt.Sprintf("%s was refused (%s) although the password was presented on this connection", what, rep)
			}
		}
		if after.auth && !unlocked {
			return st, "authorized-without-password", fmt.Sprintf("after %s the connection is authorized although the exact password was never accepted on it", what)
		}
		if !after.auth && unlocked {
			return st, "authorization-lost", fmt.Sprintf("after %s the connection is no longer authorized although the password was accepted earlier", what)
		}
	}
	last := snaps[len(snaps)-1]
	return c08State{Auth: last.auth, User: last.user, Pw: last.pw, DB: last.db, Unlocked: unlocked}, "", ""
}

func c08StateSearch(c *fw.Ctx) {
	for _, overTLS := range []bool{false, true} {
		c08StateSearchOn(c, overTLS)
	}
}

func c08StateSearchOn(c *fw.Ctx, overTLS bool) {
	events := c08Events()
	// work units: first event; each worker owns a share
	seen := map[string]bool{}
	type node struct{ hist []c08Event }
	var frontier []node
	visit := func(hist []c08Event) {
		c.Eval()
		c.Count("transitions", 1)
		st, clause, detail := c08RunHistory(hist, overTLS)
		if clause != "" {
			var raws [][]byte
			var classes []string
			for _, e := range hist {
				raws = append(raws, e.Raw)
				classes = append(classes, e.Class)
			}
			last := hist[len(hist)-1]
			transport := "plain"
			if overTLS {
				transport = "tls"
			}
			c.Violation("C08|state/"+transport+"|"+clause+"|"+last.Class, detail+fmt.Sprintf(" transport=%s history=%s", transport, c08HistString(hist)), c08Case{Kind: "state", History: raws, Classes: classes, TLS: overTLS})
			return
		}
		key := fmt.Sprintf("%v|%q|%q|%d|%v", st.Auth, st.User, st.Pw, st.DB, st.Unlocked)
		c.DistinctAdd("states", fmt.Sprintf("state|%v|", overTLS)+key)
		if seen[key] {
			return
		}
		seen[key] = true
		c.Nontrivial()
		frontier = append(frontier, node{hist})
	}
	for i, e := range events {
		if i%c.N != c.Shard {
			continue
		}
		visit([]c08Event{e})
	}
	maxDepth := 4
	if c.Thorough() {
		maxDepth = 6
	}
	for d := 1; d < maxDepth && len(frontier) > 0; d++ {
		cur := frontier
		frontier = nil
		for _, n := range cur {
			if c.Expired() {
				return
			}
			for _, e := range events {
				visit(append(append([]c08Event{}, n.hist...), e))
			}
		}
	}
	if len(frontier) == 0 {
		c.Count("closed_state_searches", 1)
	} else {
		c.Count("depth_bounded_state_searches", 1)
	}
	if c.WantSample() {
		c.Sample(map[string]any{"kind": "state", "events": len(events), "example_history": c08HistString(events[:3])})
	}
}

func c08HistString(h []c08Event) string {
	var p []string
	for _, e := range h {
		p = append(p, trunc(e.Raw, 50))
	}
	return "[" + strings.Join(p, " ") + "]"
}

// ---- SCHED part: authorization is per connection ----

func c08Scripts(i int) [][][]string {
	k := fmt.Sprintf("k%d", i)
	P := c08Pass
	return [][][]string{
		{{"AUTH", P}, {"GET", k}},
		{{"GET", k}},
		{{"AUTH", "wrong"}, {"GET", k}},
		{{"AUTH", ""}, {"GET", k}},
		{{"AUTH", P}, {"AUTH", "wrong"}, {"GET", k}},
		{{"GET", k}, {"AUTH", P}, {"GET", k}},
		{{"AUTH", "admin", "wrong"}, {"GET", k}},
		{{"AUTH", "admin", P}, {"AUTH", P}, {"GET", k}},
	}
}

func c08SchedExplorer(cs c08Case, bound int) *sched.Explorer {
	x := &sched.Explorer{Bound: bound}
	x.New = func() *sched.Run {
		var viol []string
		unlocked := make([]bool, len(cs.Scripts))
		w := &mcWorld{Scripts: cs.Scripts}
		w.Setup = func(m *mcWorld) {
			d := srv.NewDouble()
			d.OnCall = func(conn *redis.Conn, c srv.Call) {
				for _, a := range c.Args {
					if s, ok := a.(string); ok && len(s) == 2 && s[0] == 'k' {
						ci := int(s[1] - '0')
						if ci < len(unlocked) && !unlocked[ci] {
							viol = append(viol, "executed-before-auth\x00"+fmt.Sprintf("handler %s was called for client %d, which has not presented the password on its connection", c.Method, ci))
						}
					}
				}
			}
			m.Srv = srv.NewServer(d)
			m.Srv.SetRequirePass(c08Pass)
		}
		w.AfterReply = func(ci, idx int, o sched.Outcome) {
			cmd := cs.Scripts[ci][idx]
			if o.Status != "ok" {
				viol = append(viol, "request-"+o.Status+"\x00"+fmt.Sprintf("client %d %v: %s", ci, cmd, o))
				return
			}
			switch {
			case cmd[0] == "AUTH" && len(cmd) == 2 && cmd[1] == c08Pass:
				if !o.Reply.Equal(resp.S("OK")) {
					viol = append(viol, "good-password-refused\x00"+fmt.Sprintf("client %d: AUTH with the password answered %s", ci, o.Reply))
					return
				}
				unlocked[ci] = true
			case cmd[0] == "AUTH":
				if !o.Reply.IsError() {
					viol = append(viol, "wrong-credentials-accepted\x00"+fmt.Sprintf("client %d: %q answered %s", ci, cmd, o.Reply))
				}
			default:
				if unlocked[ci] && o.Reply.IsError() {
					viol = append(viol, "refused-after-auth\x00"+fmt.Sprintf("client %d: %v refused (%s) after its own successful AUTH", ci, cmd, o.Reply))
				}
				if !unlocked[ci] && !o.Reply.IsError() {
					viol = append(viol, "executed-before-auth\x00"+fmt.Sprintf("client %d: %v answered %s although only other connections authenticated", ci, cmd, o.Reply))
				}
			}
		}
		return &sched.Run{
			Body: w.body,
			Verdict: func(r *vrt.Result) sched.Verdict {
				if v, ok := panicVerdict(r); ok {
					return v
				}
				obs := repliesString(w.Replies)
				for i, sc := range cs.Scripts {
					if len(w.Replies[i]) != len(sc) && len(viol) == 0 {
						viol = append(viol, "client-starved\x00"+fmt.Sprintf("client %d got %d of %d replies", i, len(w.Replies[i]), len(sc)))
					}
				}
				if len(viol) > 0 {
					p := strings.SplitN(viol[0], "\x00", 2)
					return sched.Verdict{Clause: p[0], Detail: p[1], Obs: obs}
				}
				return sched.Verdict{Obs: obs}
			},
		}
	}
	return x
}

func c08Run(c *fw.Ctx) {
	c08StateSearch(c)
	c08Runtime(c)
	n := len(c08Scripts(0))
	for a := 0; a < n; a++ {
		for b := 0; b < n; b++ {
			if !c.Mine() {
				continue
			}
			if c.Expired() {
				return
			}
			cs := c08Case{Kind: "sched", Scripts: [][][]string{c08Scripts(0)[a], c08Scripts(1)[b]}}
			c08Explore(c, cs, 2)
		}
	}
	if c.Thorough() {
		for a := 0; a < n; a++ {
			for b := 0; b < n; b++ {
				for d := 0; d < n; d++ {
					if !c.Mine() {
						continue
					}
					if c.Expired() {
						return
					}
					cs := c08Case{Kind: "sched", Scripts: [][][]string{c08Scripts(0)[a], c08Scripts(1)[b], c08Scripts(2)[d]}}
					c08Explore(c, cs, 2)
				}
			}
		}
	}
}

func c08Explore(c *fw.Ctx, cs c08Case, bound int) {
	x := c08SchedExplorer(cs, bound)
	x.Expired = c.Expired
	first := true
	name := fmt.Sprint(cs.Scripts)
	x.OnExec = func(choices []int, r *vrt.Result, v sched.Verdict) {
		c.Eval()
		if strings.HasPrefix(v.Obs, "HARNESS-PANIC") {
			c.HarnessError("C08 %s", v.Obs)
		}
		if first {
			first = false
			if c.WantSample() {
				c.Sample(map[string]any{"kind": "sched", "scripts": cs.Scripts, "schedule": choices, "replies": v.Obs})
			}
		}
		if v.Clause != "" {
			cc := cs
			cc.Choices = choices
			c.Violation("C08|sched|"+v.Clause, v.Detail+fmt.Sprintf(" scripts=%v schedule=%v", cs.Scripts, choices), cc)
		}
	}
	x.Explore()
	schedAccount(c, x, name)
}

func c08Replay(raw json.RawMessage) (string, bool, error) {
	var cs c08Case
	if err := json.Unmarshal(raw, &cs); err != nil {
		return "", false, err
	}
	if cs.Kind == "state" {
		var hist []c08Event
		for i, r := range cs.History {
			e := c08Event{Raw: r, Class: cs.Classes[i]}
			if e.Class == "auth-free" {
				e.Pw = c08Pass
			}
			hist = append(hist, e)
		}
		st, clause, detail := c08RunHistory(hist, cs.TLS)
		return fmt.Sprintf("history=%s state=%+v clause=%q %s", c08HistString(hist), st, clause, detail), clause != "", nil
	}
	x := c08SchedExplorer(cs, 0)
	if cs.Kind == "runtime" {
		x = c08RuntimeExplorer(cs.Program, 0)
	}
	run := x.New()
	r := vrt.Run(vrt.Options{Choices: cs.Choices}, run.Body, run.AtQuiet)
	if r.Diverged != "" {
		return "", false, fmt.Errorf("schedule does not replay: %s", r.Diverged)
	}
	v := run.Verdict(r)
	return fmt.Sprintf("scripts=%v program=%v schedule=%v clause=%q %s obs=%s", cs.Scripts, cs.Program, cs.Choices, v.Clause, v.Detail, v.Obs), v.Clause != "", nil
}

func init() {
	fw.Register(&fw.Prop{
		ID:          "C08",
		Level:       "model_checking",
		Rule:        "(RUNTIME) 11 programs in which the required password is set, changed or removed while the server object lives (SetRequirePass / RemoveRequirePass with and without Restart, Stop+Start, CONFIG SET requirepass sent by a client) with connections opened in between: the password that counts for the gate and for AUTH is the one configured at that moment; every schedule within deviation bound 1 (thorough 2). (STATE) breadth-first search over event histories on one connection of a server with requirepass=Secret1, once as a plain connection and once as a connection that arrived over the TLS port (finished handshake, no client-certificate rule); events = AUTH with each candidate of a dictionary built around the password (empty, null bulk, every strict prefix, password+suffix, +NUL, case-swapped, embedded CRLF, leading space), two-argument forms with wrong/empty users, missing and surplus arguments, forms the statement leaves open (no expectation on the reply), and probes (GET/SET via the handler, PING/ECHO/CONFIG, SELECT, an application executor); canonical state = (IsAuthrized, UserName, Password, Database) read from the live connection object through Server.Conns() at every step plus the model's 'unlocked'; depth 4 (thorough 6) or closure. (SCHED) two connections (thorough three) each running one of 8 scripts (one- and two-argument AUTH) through the real accept loop, every schedule within deviation bound 2; a handler call or non-error reply for a client that has not itself presented the password is a violation. Runtime programs with background steps (an application goroutine calling SetRequirePass, an authorized client sending CONFIG SET requirepass, concurrently with a client that connects, probes and tries wrong passwords; deviation bound 2) and with a password removed and replaced while an unauthenticated connection is open. AUTH forms include the password followed by a null, an integer or an array; CONFIG SET requirepass by one connection leaves the authorization of the others as it was.",
		Assumptions: []string{"AUTH '' P, AUTH default P and three-argument AUTH carry no expectation on the reply, only the gate invariant afterwards"},
		Run:         c08Run,
		Replay:      c08Replay,
		Budget: func(tier string) time.Duration {
			if tier == "thorough" {
				return 20 * time.Minute
			}
			return 4 * time.Minute
		},
		Finish: schedFinish,
	})
}
