package props

import (
	"crypto/tls"
	"encoding/json"
	"fmt"
	"strings"
	"time"

	"github.com/cybergarage/go-redis/redis"
	"github.com/cybergarage/go-redis/redis/auth"
	"github.com/cybergarage/go-redis/vrt"
	"verif/fw"
	"verif/grammar"
	"verif/resp"
	"verif/sched"
	"verif/seq"
	"verif/srv"
)

// C19: connection resources are released however the connection ends.

type c19Case struct {
	Kind string `json:"kind"` // seq | sched
	// seq
	Input     []byte `json:"input,omitempty"`
	Reset     bool   `json:"reset,omitempty"`
	FailWrite int    `json:"fail_write_from,omitempty"`
	CloseErr  bool   `json:"close_err,omitempty"` // the transport's Close closes but reports an error
	Label     string `json:"label,omitempty"`
	// sched
	Background int `json:"background,omitempty"`
	// Stalled: one more client has pipelined requests and never reads the replies - the
	// server's reply write to it is parked for good. The other connections must still come
	// and go, and be released, as if it were not there.
	Stalled   bool     `json:"stalled_reader,omitempty"`
	Endings   []string `json:"endings,omitempty"`
	StopAtEnd bool     `json:"stop_at_end,omitempty"`
	StopRace  string   `json:"stop_race,omitempty"` // Stop runs concurrently with: connecting | in-flight | tls-handshaking
	Choices   []int    `json:"choices,omitempty"`
}

// ---- sequential part ----

func c19SeqCheck(cs c19Case) (clause, detail string) {
	d := srv.NewDouble()
	catalogueDouble(d)
	s := srv.NewServer(d)
	end := seq.EndEOF
	if cs.Reset {
		end = seq.EndReset
	}
	out := srv.RunConn(s, seq.NewConn(seq.Script{Input: cs.Input, End: end, FailWriteFrom: cs.FailWrite, CloseErr: cs.CloseErr}))
	if out.Deadlock != "" {
		return "goroutine-not-ended", "the connection goroutine blocks forever: " + out.Panic
	}
	if out.Spin != "" {
		// a loop that never ends keeps goroutine, socket and registry entry for good
		return "goroutine-not-ended", "the connection goroutine never ends: it spins at " + out.Spin
	}
	if out.Panic != "" {
		return "", "" // C07
	}
	if !out.Returned {
		return "goroutine-not-ended", "the connection loop did not return"
	}
	if out.Closes == 0 {
		return "socket-not-closed", "the connection loop returned without closing the transport"
	}
	if out.ConnsLeft != 0 {
		return "registry-entry-left", fmt.Sprintf("%d registry entries left after the connection ended", out.ConnsLeft)
	}
	return "", ""
}

func c19Seq(c *fw.Ctx) {
	cat := catalogue()
	reps := representatives(cat)
	run := func(cs c19Case, key string) {
		c.Eval()
		c.Nontrivial()
		if clause, detail := c19SeqCheck(cs); clause != "" {
			c.Violation("C19|seq|"+key+"|"+clause, detail+" input="+trunc(cs.Input, 100), cs)
		}
	}
	ping := grammar.Encode([]string{"PING"})
	quit := grammar.Encode([]string{"QUIT"})
	for _, a := range reps {
		if !c.Mine() {
			continue
		}
		for _, pre := range [][]byte{nil, ping} {
			in := concat(pre, a.Bytes)
			for cut := 0; cut <= len(in); cut++ {
				run(c19Case{Kind: "seq", Input: in[:cut], Label: a.Label}, "eof")
				run(c19Case{Kind: "seq", Input: in[:cut], Reset: true, Label: a.Label}, "reset")
				run(c19Case{Kind: "seq", Input: in[:cut], Reset: true, CloseErr: true, Label: a.Label}, "reset+close-error")
			}
			for j := 1; j <= 3; j++ {
				run(c19Case{Kind: "seq", Input: concat(in, ping), FailWrite: j, Label: a.Label}, "write-fails")
				run(c19Case{Kind: "seq", Input: concat(in, ping), FailWrite: j, Reset: true, Label: a.Label}, "write-fails")
				run(c19Case{Kind: "seq", Input: concat(in, ping), FailWrite: j, Reset: true, CloseErr: true, Label: a.Label}, "write-fails+close-error")
			}
			// QUIT at each pipeline position
			run(c19Case{Kind: "seq", Input: concat(quit, in), Label: a.Label}, "quit")
			run(c19Case{Kind: "seq", Input: concat(pre, quit, a.Bytes), Label: a.Label}, "quit")
			run(c19Case{Kind: "seq", Input: concat(in, quit), Label: a.Label}, "quit")
			run(c19Case{Kind: "seq", Input: concat(in, quit), FailWrite: 1, Label: a.Label}, "quit")
		}
	}
	// malformed frames
	alpha := []byte{'*', '$', '+', '-', ':', '0', '1', '2', '9', '\r', '\n', 'a'}
	for _, base := range c06Bases() {
		if !c.Mine() {
			continue
		}
		for k := 0; k < len(base); k++ {
			for _, a := range alpha {
				m := append([]byte{}, base...)
				m[k] = a
				run(c19Case{Kind: "seq", Input: concat(ping, m), Label: "malformed"}, "malformed")
			}
		}
	}
	if c.WantSample() {
		c.Sample(map[string]any{"kind": "seq", "endings": "EOF/reset at every offset, failing Write from call 1..3, QUIT at each position, every single-byte substitution of valid streams"})
	}
}

// ---- SCHED part ----

var c19Endings = []string{"eof-boundary", "eof-mid-request", "reset", "quit", "malformed", "stop-reading-then-reset", "tls-handshake-garbage", "tls-rejected-cert", "tls-abort-after-hello", "tls-valid-then-reset", "tls-valid-then-eof"}

type c19World struct {
	cs      c19Case
	kit     *tlsKit
	srv     *redis.Server
	bg      []*sched.Client
	viol    []string
	err     string
	racers  []*vrt.Conn
	ended   []string // server-side names of the connections that ended
	stopped bool
	inStop  bool // the harness thread is inside Server.Stop
	stalled int  // 1: a client that never reads its replies is connected
}

func (w *c19World) fail(clause, detail string) { w.viol = append(w.viol, clause+"\x00"+detail) }

// checkReleased is called by the harness thread at quiescence after an ending.
func (w *c19World) checkReleased(mode string, raw *vrt.Conn, step int) {
	e := vrt.Cur()
	if raw == nil {
		return
	}
	sname := raw.Peer().Name()
	w.ended = append(w.ended, sname)
	if !raw.PeerClosed() {
		w.fail("socket-not-closed", fmt.Sprintf("ending #%d (%s): the server never closed its side of the connection", step, mode))
	}
	for _, t := range e.ThreadStates() {
		if !t.Finished && (strings.HasSuffix(t.Parked, ":"+sname)) {
			w.fail("goroutine-not-ended", fmt.Sprintf("ending #%d (%s): a server goroutine (%s) is still parked at %s", step, mode, sched.ThreadSummaryName(t.Name), t.Parked))
		}
	}
	if n := len(w.srv.Conns()); n != len(w.bg)+w.stalled {
		w.fail("registry-entry-left", fmt.Sprintf("ending #%d (%s): the registry holds %d connections, %d are alive", step, mode, n, len(w.bg)+w.stalled))
	}
}

// c19Deep parses "stop-reading-<n>-then-close" / "stop-reading-<n>-then-reset": a client that
// pipelines n requests without reading one reply (so that the server's Write parks with n-1
// requests still unread behind it) and then closes or resets.
func c19Deep(mode string) (n int, how string, ok bool) {
	if _, err := fmt.Sscanf(mode, "stop-reading-%d-then-%s", &n, &how); err != nil || n <= 0 {
		return 0, "", false
	}
	return n, how, how == "close" || how == "reset"
}

func (w *c19World) ending(mode string, step int) {
	plain := ":6379"
	tlsAddr := ":6380"
	if n, how, ok := c19Deep(mode); ok {
		cl, o := sched.Dial(plain)
		if o.Status != "ok" {
			w.fail("dial-refused", fmt.Sprintf("ending #%d (%s): plain dial refused", step, mode))
			return
		}
		raw := cl.Raw()
		cl.Do("SET", "k", "v")
		raw.Capacity = 8
		for i := 0; i < n; i++ {
			cl.Send(resp.Cmd("ECHO", "0123456789").Bytes())
		}
		vrt.WaitQuiet()
		if how == "close" {
			cl.Close()
		} else {
			raw.Reset()
		}
		vrt.WaitQuiet()
		w.checkReleased(mode, raw, step)
		return
	}
	switch mode {
	case "eof-boundary", "eof-mid-request", "reset", "quit", "malformed", "stop-reading-then-reset", "nested-request-then-eof":
		cl, o := sched.Dial(plain)
		if o.Status != "ok" {
			w.fail("dial-refused", fmt.Sprintf("ending #%d (%s): plain dial refused", step, mode))
			return
		}
		raw := cl.Raw()
		cl.Do("SET", "k", "v")
		switch mode {
		case "eof-boundary":
			cl.Close()
		case "eof-mid-request":
			cl.Send([]byte("*3\r\n$3\r\nSET\r\n$1\r\nk\r\n$5\r\nab"))
			vrt.WaitQuiet()
			cl.Close()
		case "reset":
			cl.Send([]byte("*2\r\n$3\r\nGET\r\n"))
			vrt.WaitQuiet()
			raw.Reset()
		case "quit":
			cl.Do("QUIT")
		case "malformed":
			cl.Send([]byte("*2\r\n$3\r\nGET\r\n?oops\r\n"))
			cl.Recv()
		case "nested-request-then-eof":
			// a request whose first element is itself an array (whatever the server
			// makes of it, the connection must still end cleanly)
			cl.Send([]byte("*1\r\n*1\r\n$4\r\nPING\r\n"))
			vrt.WaitQuiet()
			cl.Close()
		case "stop-reading-then-reset":
			raw.Capacity = 8
			for i := 0; i < 6; i++ {
				cl.Send(resp.Cmd("ECHO", "0123456789").Bytes())
			}
			vrt.WaitQuiet()
			raw.Reset()
		}
		vrt.WaitQuiet()
		w.checkReleased(mode, raw, step)
	default:
		raw, err := vrt.Dial(tlsAddr)
		if err != nil {
			w.fail("dial-refused", fmt.Sprintf("ending #%d (%s): TLS dial refused", step, mode))
			return
		}
		switch mode {
		case "tls-handshake-garbage":
			raw.Write([]byte(strings.Repeat("\x16\x03\x01junk!", 6)))
			buf := make([]byte, 128)
			raw.ReadOrQuiet(buf)
			raw.Close()
		case "tls-abort-after-hello":
			tc := tls.Client(&abortConn{Conn: raw}, w.kit.clientTLSConfig(w.kit.Clients["valid"]))
			tc.Handshake()
		case "tls-rejected-cert":
			tc := tls.Client(raw, w.kit.clientTLSConfig(w.kit.Clients["wrong-name"]))
			if tc.Handshake() == nil {
				c := sched.Wrap(tc, raw)
				c.Do("GET", "k")
			}
			raw.Close()
		case "tls-valid-then-reset", "tls-valid-then-eof":
			tc := tls.Client(raw, w.kit.clientTLSConfig(w.kit.Clients["valid"]))
			if err := tc.Handshake(); err != nil {
				w.fail("valid-tls-client-rejected", fmt.Sprintf("ending #%d (%s): handshake failed: %v", step, mode, err))
				raw.Close()
				break
			}
			c := sched.Wrap(tc, raw)
			if o := c.Do("PING"); o.Status != "ok" {
				w.fail("valid-tls-client-not-served", fmt.Sprintf("ending #%d (%s): PING got %s", step, mode, o))
			}
			if mode == "tls-valid-then-reset" {
				raw.Reset()
			} else {
				tc.Close()
			}
		}
		vrt.WaitQuiet()
		w.checkReleased(mode, raw, step)
	}
}

func (w *c19World) body() {
	kit, err := getKit()
	if err != nil {
		w.err = err.Error()
		return
	}
	w.kit = kit
	s := srv.NewServer(srv.NewDouble())
	w.srv = s
	s.SetPort(6379)
	s.SetTLSPort(6380)
	if e := s.SetTLSCertFile(kit.ServerCert); e != nil {
		w.err = e.Error()
		return
	}
	s.SetTLSKeyFile(kit.ServerKey)
	s.SetTLSCaCertFile(kit.CAFile)
	s.AddAuthenticator(auth.NewCertificateAuthenticatorWith(auth.WithCommonName("localhost")))
	if e := s.Start(); e != nil {
		w.err = "start: " + e.Error()
		return
	}
	for i := 0; i < w.cs.Background; i++ {
		cl, o := sched.Dial(":6379")
		if o.Status != "ok" {
			w.err = "background dial refused"
			return
		}
		cl.Do("PING")
		w.bg = append(w.bg, cl)
	}
	if w.cs.Stalled {
		cl, o := sched.Dial(":6379")
		if o.Status != "ok" {
			w.err = "stalled client: dial refused"
			return
		}
		cl.Raw().Capacity = 8
		for i := 0; i < 6; i++ {
			cl.Send(resp.Cmd("ECHO", "0123456789abcdef").Bytes())
		}
		w.stalled = 1
	}
	vrt.WaitQuiet()
	if w.cs.StopRace == "" {
		for i, mode := range w.cs.Endings {
			w.ending(mode, i)
		}
	}
	if w.cs.StopRace != "" {
		w.stopRace()
		return
	}
	// background connections must still be served
	for i, cl := range w.bg {
		if o := cl.Do("PING"); o.Status != "ok" || string(o.Reply.Data) != "PONG" {
			w.fail("other-connection-disturbed", fmt.Sprintf("background connection %d: PING got %s after the endings", i, o))
		}
	}
	if w.cs.StopAtEnd {
		if err := s.Stop(); err != nil {
			w.fail("stop-failed", "Stop returned "+err.Error())
		}
		w.stopped = true
	}
}

// stopRace: Stop runs while other clients are connecting, have a command in
// flight, or are in the middle of a TLS handshake.
func (w *c19World) stopRace() {
	var racers []*vrt.Conn
	switch w.cs.StopRace {
	case "connecting":
		vrt.Go("client-racer", func() {
			cl, o := sched.Dial(":6379")
			if o.Status != "ok" {
				return
			}
			racers = append(racers, cl.Raw())
			cl.Do("PING")
			cl.Recv()
		})
	case "backlog":
		// dialled but not yet accepted when Stop begins; the client then sends PING
		cl, o := sched.Dial(":6379")
		if o.Status == "ok" {
			racers = append(racers, cl.Raw())
			vrt.Go("client-racer", func() {
				cl.Do("PING")
				cl.Recv()
			})
		}
	case "in-flight":
		cl, o := sched.Dial(":6379")
		if o.Status == "ok" {
			racers = append(racers, cl.Raw())
			cl.Do("PING")
			cl.Send([]byte("*3\r\n$3\r\nSET\r\n$1\r\nk\r\n$3\r\nab"))
			vrt.Go("client-racer", func() {
				cl.Send([]byte("c\r\n"))
				cl.Recv()
				cl.Recv()
			})
		}
	case "tls-handshaking":
		vrt.Go("client-racer", func() {
			raw, err := vrt.Dial(":6380")
			if err != nil {
				return
			}
			racers = append(racers, raw)
			tc := tls.Client(raw, w.kit.clientTLSConfig(w.kit.Clients["valid"]))
			if tc.Handshake() == nil {
				c := sched.Wrap(tc, raw)
				c.Do("PING")
				c.Recv()
			}
		})
	case "write-parked", "tls-write-parked", "write-parked-150":
		// a client that pipelines and stops reading: the server's reply Write is parked
		// on the full connection when Stop runs
		if w.cs.StopRace == "write-parked" || w.cs.StopRace == "write-parked-150" {
			cl, o := sched.Dial(":6379")
			if o.Status == "ok" {
				racers = append(racers, cl.Raw())
				cl.Raw().Capacity = 8
				depth := 6
				if w.cs.StopRace == "write-parked-150" {
					depth = 150
				}
				for i := 0; i < depth; i++ {
					cl.Send(resp.Cmd("ECHO", "0123456789").Bytes())
				}
				vrt.WaitQuiet()
			}
		} else {
			raw, err := vrt.Dial(":6380")
			if err == nil {
				racers = append(racers, raw)
				tc := tls.Client(raw, w.kit.clientTLSConfig(w.kit.Clients["valid"]))
				if tc.Handshake() == nil {
					c := sched.Wrap(tc, raw)
					c.Do("PING")
					raw.Capacity = 8
					for i := 0; i < 6; i++ {
						c.Send(resp.Cmd("ECHO", "0123456789").Bytes())
					}
					vrt.WaitQuiet()
				}
			}
		}
	case "after-second-start":
		// Start on the running server (refused or not) must not make the
		// server forget the connections it is serving
		cl, o := sched.Dial(":6379")
		if o.Status == "ok" {
			racers = append(racers, cl.Raw())
			cl.Do("PING")
		}
		before := len(w.srv.Conns())
		w.srv.Start()
		vrt.WaitQuiet()
		if n := len(w.srv.Conns()); n != before {
			w.fail("registry-entry-lost", fmt.Sprintf("Start on the running server: the registry held %d connection(s) before and %d after, all are still open", before, n))
		}
		if o.Status == "ok" {
			if o := cl.Do("PING"); o.Status != "ok" || string(o.Reply.Data) != "PONG" {
				w.fail("other-connection-disturbed", fmt.Sprintf("PING after a second Start got %s", o))
			}
		}
	case "registry-polled-during-churn":
		// an application goroutine enumerates the registry while clients come and go
		// (registry readers and writers contend), then Stop
		vrt.Go("client-racer", func() {
			for i := 0; i < 3; i++ {
				w.srv.Conns()
				vrt.Yield("application-poll")
			}
		})
		for i := 0; i < 2; i++ {
			vrt.Go("client-racer", func() {
				cl, o := sched.Dial(":6379")
				if o.Status != "ok" {
					return
				}
				cl.Do("PING")
				cl.Close()
			})
		}
		vrt.WaitQuiet()
	case "port-disabled-by-api", "port-disabled-by-client":
		// the configuration says "no plain port" / "no TLS port" by the time Stop runs (the
		// application prepared the next start, or a client sent CONFIG SET): the listening
		// sockets this run opened and their accept loops must still be released
		cl, o := sched.Dial(":6379")
		if o.Status == "ok" {
			racers = append(racers, cl.Raw())
			cl.Do("PING")
			if w.cs.StopRace == "port-disabled-by-client" {
				cl.Do("CONFIG", "SET", "port", "0")
				cl.Do("CONFIG", "SET", "tls-port", "0")
			}
		}
		if w.cs.StopRace == "port-disabled-by-api" {
			w.srv.SetPort(0)
			w.srv.SetTLSPort(0)
		}
		vrt.WaitQuiet()
	case "tls-stalled":
		raw, err := vrt.Dial(":6380")
		if err == nil {
			racers = append(racers, raw)
			vrt.WaitQuiet() // the server is now waiting for a ClientHello that never comes
		}
	}
	w.inStop = true
	if err := w.srv.Stop(); err != nil {
		w.fail("stop-note", "")
		w.viol = w.viol[:len(w.viol)-1]
	}
	w.inStop = false
	w.stopped = true
	w.racers = racers
}

func (w *c19World) atQuiet(e *vrt.Exec) {
	if w.err != "" || w.srv == nil {
		return
	}
	if w.inStop {
		parked := ""
		for _, t := range e.ThreadStates() {
			if t.ID == 0 {
				parked = t.Parked
			}
		}
		w.fail("stop-did-not-return", fmt.Sprintf("Server.Stop (%s) never returned: the calling goroutine is parked at %s and nothing can wake it", w.cs.StopRace, parked))
		return
	}
	if w.stopped {
		for i, cl := range w.bg {
			if !cl.Raw().PeerClosed() {
				w.fail("socket-not-closed", fmt.Sprintf("Stop: background connection %d was not closed by the server", i))
			}
		}
		for _, t := range e.ThreadStates() {
			if t.ID != 0 && !t.Finished && t.Name != "client-racer" {
				w.fail("goroutine-not-ended", fmt.Sprintf("Stop: server goroutine %s still alive, parked at %s", sched.ThreadSummaryName(t.Name), t.Parked))
			}
		}
		for i, rc := range w.racers {
			if !rc.PeerClosed() && !rc.ClosedLocally() {
				w.fail("socket-not-closed", fmt.Sprintf("Stop: the connection of racing client %d (%s) was not closed by the server", i, w.cs.StopRace))
			}
		}
		if n := len(w.srv.Conns()); n != 0 {
			w.fail("registry-entry-left", fmt.Sprintf("Stop: %d registry entries left", n))
		}
		if e.PortBound("6379") || e.PortBound("6380") {
			w.fail("listener-not-closed", "Stop: a listening socket is still open")
		}
	}
}

func c19Explorer(cs c19Case, bound int) *sched.Explorer {
	x := &sched.Explorer{Bound: bound}
	x.New = func() *sched.Run {
		w := &c19World{cs: cs}
		return &sched.Run{Body: w.body, AtQuiet: w.atQuiet, Verdict: func(r *vrt.Result) sched.Verdict {
			if v, ok := panicVerdict(r); ok {
				return v
			}
			if w.err != "" {
				return sched.Verdict{Obs: "HARNESS-PANIC setup: " + w.err}
			}
			obs := fmt.Sprintf("ended=%v %s", w.ended, sched.ThreadSummary(r))
			for _, t := range r.Threads {
				if t.ID == 0 && !t.Finished && len(w.viol) == 0 && !w.inStop {
					w.fail("other-connection-starved", fmt.Sprintf("a client waits for a reply that never comes (the harness thread is parked at %s): %s", t.Parked, obs))
				}
			}
			if len(w.viol) > 0 {
				p := strings.SplitN(w.viol[0], "\x00", 2)
				return sched.Verdict{Clause: p[0], Detail: p[1], Obs: obs}
			}
			return sched.Verdict{Obs: obs}
		}}
	}
	return x
}

func c19Run(c *fw.Ctx) {
	defer cleanupKit()
	c19Seq(c)
	seqsOf := func(n int) [][]string {
		var seqs [][]string
		var rec func(cur []string)
		rec = func(cur []string) {
			if len(cur) == n {
				seqs = append(seqs, append([]string{}, cur...))
				return
			}
			for _, m := range c19Endings {
				rec(append(cur, m))
			}
		}
		rec(nil)
		return seqs
	}
	var races, len12, len3 []c19Case
	for _, race := range []string{"connecting", "backlog", "in-flight", "tls-handshaking", "tls-stalled", "after-second-start", "write-parked", "tls-write-parked", "port-disabled-by-api", "port-disabled-by-client", "registry-polled-during-churn"} {
		for bg := 0; bg <= 1; bg++ {
			races = append(races, c19Case{Kind: "sched", Background: bg, StopRace: race, Endings: []string{"stop:" + race}})
		}
	}
	for _, m := range []string{"eof-boundary", "eof-mid-request", "reset", "quit", "malformed", "tls-valid-then-eof"} {
		len12 = append(len12, c19Case{Kind: "sched", Background: 1, Stalled: true, Endings: []string{m}, StopAtEnd: true})
	}
	for bg := 0; bg <= 1; bg++ {
		len12 = append(len12, c19Case{Kind: "sched", Background: bg, Endings: []string{"nested-request-then-eof"}, StopAtEnd: true},
			c19Case{Kind: "sched", Background: bg, Endings: []string{"nested-request-then-eof", "quit"}, StopAtEnd: bg == 0})
	}
	for n := 1; n <= 3; n++ {
		for _, endings := range seqsOf(n) {
			for bg := 0; bg <= 2; bg++ {
				cs := c19Case{Kind: "sched", Background: bg, Endings: endings, StopAtEnd: bg != 1}
				if n == 3 {
					len3 = append(len3, cs)
				} else {
					len12 = append(len12, cs)
				}
			}
		}
	}
	// phases in order of increasing cost; each is complete only if every worker
	// finished its share (<phase>_done == <phase>_scenarios in the evidence counters)
	phase := func(name string, list []c19Case, bound int) bool {
		if c.Shard == 0 {
			c.Count(name+"_scenarios", int64(len(list)))
		}
		for _, cs := range list {
			if !c.Mine() {
				continue
			}
			if c.Expired() {
				c.Cap("phase %s (deviation bound %d) stopped by the internal deadline; see the %s_done counter", name, bound, name)
				return false
			}
			c19Explore(c, cs, bound)
			c.Count(name+"_done", 1)
		}
		return true
	}
	// churn: every ending mode three times over, with two connections kept open,
	// then back to the idle baseline
	var cycle []string
	for r := 0; r < 3; r++ {
		cycle = append(cycle, c19Endings...)
	}
	var rev []string
	for i := len(c19Endings) - 1; i >= 0; i-- {
		rev = append(rev, c19Endings[i], c19Endings[i])
	}
	churn := []c19Case{
		{Kind: "sched", Background: 2, Endings: cycle, StopAtEnd: true},
		{Kind: "sched", Background: 2, Endings: rev, StopAtEnd: true},
		{Kind: "sched", Background: 0, Endings: cycle, StopAtEnd: false},
		// many connections open at once (whatever the registry does when it grows), then Stop
		{Kind: "sched", Background: 70, Endings: []string{"eof-boundary", "reset", "tls-valid-then-reset"}, StopAtEnd: true},
		// pipeline ladder of the client that never reads: 20, 70, 150 requests behind the parked
		// Write (whatever queue the server puts between executing and writing, it fills up)
		{Kind: "sched", Background: 1, Endings: []string{"stop-reading-20-then-close", "stop-reading-70-then-reset", "stop-reading-150-then-close", "stop-reading-70-then-close", "stop-reading-150-then-reset"}, StopAtEnd: true},
		{Kind: "sched", Background: 0, Endings: []string{"stop-reading-150-then-close"}, StopAtEnd: false},
		{Kind: "sched", Background: 1, StopRace: "write-parked-150", Endings: []string{"stop:write-parked-150"}},
	}
	if !phase("p1_stop_races_bound2", races, 2) || !phase("p1_endings_len2_bound1", len12, 1) || !phase("p1_churn_bound0", churn, 0) || !c.Thorough() {
		return
	}
	_ = phase("p2_endings_len3_bound0", len3, 0) &&
		phase("p2_churn_bound1", churn, 1) &&
		phase("p3_stop_races_bound3", races, 3) &&
		phase("p4_endings_len2_bound2", len12, 2) &&
		phase("p5_endings_len3_bound1", len3, 1)
}

func c19Explore(c *fw.Ctx, cs c19Case, bound int) {
	x := c19Explorer(cs, bound)
	x.Expired = c.Expired
	first := true
	name := fmt.Sprintf("%v|bg=%d|stalled=%v", cs.Endings, cs.Background, cs.Stalled)
	x.OnExec = func(choices []int, r *vrt.Result, v sched.Verdict) {
		c.Eval()
		if strings.HasPrefix(v.Obs, "HARNESS-PANIC") {
			c.HarnessError("C19 %s %s", name, v.Obs)
		}
		if first {
			first = false
			c.Nontrivial()
			if c.WantSample() {
				c.Sample(map[string]any{"kind": "sched", "endings": cs.Endings, "background_connections": cs.Background, "stop_at_end": cs.StopAtEnd, "schedule_points": len(r.Points)})
			}
		}
		if v.Clause != "" {
			cc := cs
			cc.Choices = choices
			mode := cs.Endings[len(cs.Endings)-1]
			if i := strings.Index(v.Detail, "("); i >= 0 && strings.HasPrefix(v.Detail, "ending #") {
				if j := strings.Index(v.Detail[i:], ")"); j > 0 {
					mode = v.Detail[i+1 : i+j]
				}
			}
			c.Violation("C19|sched|"+mode+"|"+v.Clause, v.Detail+fmt.Sprintf(" endings=%v background=%d schedule=%v", cs.Endings, cs.Background, choices), cc)
		}
	}
	x.Explore()
	st := x.Stats
	c.Count("transitions", st.Transitions)
	for o := range st.Observations() {
		c.DistinctAdd("states", name+"|"+o)
	}
	for _, d := range st.Diverged {
		c.HarnessError("C19 %s: %s", name, d)
	}
	if st.Deadlines > 0 {
		c.HarnessError("C19 %s: %d executions hit the watchdog (first at schedule %v)", name, st.Deadlines, st.DeadlineAt)
	}
	if st.WarmStart {
		c.Count("warm_start_scenarios", 1)
	}
	if st.Nondeterministic {
		c.HarnessError("C19: replaying the default schedule gave a different execution (uncaptured nondeterminism)")
	}
}

func c19Replay(raw json.RawMessage) (string, bool, error) {
	defer cleanupKit()
	var cs c19Case
	if err := json.Unmarshal(raw, &cs); err != nil {
		return "", false, err
	}
	if cs.Kind == "seq" {
		clause, detail := c19SeqCheck(cs)
		return fmt.Sprintf("input=%s reset=%v failwrite=%d clause=%q %s", trunc(cs.Input, 200), cs.Reset, cs.FailWrite, clause, detail), clause != "", nil
	}
	x := c19Explorer(cs, 0)
	run := x.New()
	r := vrt.Run(vrt.Options{Choices: cs.Choices}, run.Body, run.AtQuiet)
	if r.Diverged != "" {
		return "", false, fmt.Errorf("schedule does not replay: %s", r.Diverged)
	}
	v := run.Verdict(r)
	return fmt.Sprintf("endings=%v background=%d schedule=%v clause=%q %s obs=%s", cs.Endings, cs.Background, cs.Choices, v.Clause, v.Detail, v.Obs), v.Clause != "", nil
}

func init() {
	fw.Register(&fw.Prop{
		ID:          "C19",
		Level:       "fault_enumeration",
		Rule:        "(sequential) representative requests, alone and behind a PING: end of stream at EVERY byte offset with EOF, with reset, and with reset where the transport's Close reports an error although it closes (TLS peer gone), a Write failing from call 1..3, QUIT at each pipeline position (also with a failing write), every single-byte substitution of 18 valid streams; oracle: loop returned, transport closed, registry empty. (scheduled) a server with plain and TLS port started with Start(), 0..2 background connections, then every sequence of 1..2 endings out of {EOF at a boundary, EOF inside a request, reset inside a request, QUIT, malformed frame, client that stops reading until the server's Write parks and then resets, TLS garbage handshake, TLS abort after ClientHello, TLS certificate rejected by the common-name rule, valid TLS client then reset, valid TLS client then orderly close}, real crypto/tls, every schedule with <=1 deviation (thorough phases, in order: sequences of 3 endings on the default schedule, Stop races at bound 3, sequences of <=2 endings at bound 2, sequences of 3 at bound 1; each complete only when its <phase>_done counter equals <phase>_scenarios); after each ending, at quiescence: the server closed that socket, no server goroutine is parked on it, the registry holds exactly the background connections, which are still served; finally Stop releases everything (sockets, goroutines, registry, listeners). Plus churn (every ending mode three times in a row, forwards and pairwise backwards, with two connections kept open, and three endings next to 70 open connections followed by Stop; default schedule; thorough: one deviation), and Stop racing with a connecting client, a client still in the accept backlog, a client with a command in flight, a client in the TLS handshake one stalled before its ClientHello, a plain and a TLS client that pipelined requests and stopped reading so that the server's reply Write is parked, and Stop after a second Start() on the running server, which must leave registry and connections as they were (deviation bound 2). A connection loop that spins or waits for a lock it holds itself is reported as a goroutine that never ends. Stop scenarios also with the ports disabled in the configuration (by the API, by CONFIG SET) before Stop. Stop after an application goroutine enumerated the registry while clients came and went (vrt.RWMutex excludes new readers while a writer waits, as sync.RWMutex does, so recursive read locking deadlocks). The in-memory connections implement CloseWrite (half close), so a server that lingers after QUIT until the client closes is seen holding socket and goroutine. Six endings are also run beside a client that never reads its replies. Pipeline ladder of the client that never reads (churn phase): 20, 70 and 150 requests behind the parked Write, then close or reset, and Stop with 150 behind the parked Write.",
		Assumptions: []string{"the in-memory transport is the only kind of descriptor the framework opens besides listeners: 'descriptor released' = Close called on it", "10^4-cycle churn and /proc/self/fd counts are replaced by zero residue per ending from every reachable small registry state"},
		Run:         c19Run,
		Replay:      c19Replay,
		Budget: func(tier string) time.Duration {
			if tier == "thorough" {
				return 25 * time.Minute
			}
			return 4 * time.Minute
		},
	})
}
