package props

import (
	"bytes"
	"fmt"
	"strconv"
	"strings"

	"github.com/cybergarage/go-redis/redis/proto"
	"verif/fw"
	"verif/resp"
)

// C01, edit part: serialize must describe the value as it is NOW. A value tree
// is built (through the constructors, or by parsing its canonical encoding),
// serialized, then edited in place at one node through the public mutators
// (Message.Append / Array.Append on an array node, SetBytes on a leaf, SetArray
// on an array node) and serialized again - every node of every tree, every
// edit, and for small trees every ordered pair of edits. Each serialization is
// compared with the canonical encoding of the reference tree carrying the same
// edits, and the bytes returned earlier must not change under the caller.

type c01Edit struct {
	Path []int  `json:"path"`
	Op   string `json:"op"` // "append:<leaf#>" | "append-arr:<leaf#>" | "setbytes:<payload#>" | "setnil" | "setarray" | "walk" | "none"
}

var c01EditLeaves = []resp.Value{resp.B("new"), resp.A(), resp.I(7), resp.A(resp.S("in"))}
var c01EditPayloads = [][]byte{[]byte(""), []byte("new\r\nvalue"), []byte("x")}

func pathKey(p []int) string {
	s := make([]string, len(p))
	for i, x := range p {
		s[i] = strconv.Itoa(x)
	}
	return strings.Join(s, ".")
}

func c01Build(v resp.Value, path []int, nodes map[string]*proto.Message) *proto.Message {
	var m *proto.Message
	if v.Kind == resp.Array {
		arr := proto.NewArray()
		for i, e := range v.Elems {
			arr.Append(c01Build(e, append(append([]int{}, path...), i), nodes))
		}
		m = proto.NewMessageWithType(proto.ArrayMessage).SetArray(arr)
	} else {
		m = toProto(v)
	}
	nodes[pathKey(path)] = m
	return m
}

// c01Index records the nodes of a parsed message by walking it once (the
// cursors of its arrays end up at the end, as they do in an application that
// has read the value).
func c01Index(m *proto.Message, path []int, nodes map[string]*proto.Message) error {
	nodes[pathKey(path)] = m
	if m.Type != proto.ArrayMessage {
		return nil
	}
	arr, err := m.Array()
	if err != nil || arr == nil {
		return fmt.Errorf("array message without array: %v", err)
	}
	for i := 0; i < arr.Size(); i++ {
		e, nerr := arr.Next()
		if nerr != nil || e == nil {
			return fmt.Errorf("element %d missing: %v", i, nerr)
		}
		if err := c01Index(e, append(append([]int{}, path...), i), nodes); err != nil {
			return err
		}
	}
	return nil
}

func valueAt(v *resp.Value, path []int) *resp.Value {
	for _, i := range path {
		v = &v.Elems[i]
	}
	return v
}

func cloneValue(v resp.Value) resp.Value {
	out := v
	out.Data = cp(v.Data)
	if v.Kind == resp.Array {
		out.Elems = make([]resp.Value, len(v.Elems))
		for i, e := range v.Elems {
			out.Elems[i] = cloneValue(e)
		}
	}
	return out
}

func eachPath(v resp.Value, path []int, f func(path []int, node resp.Value)) {
	f(path, v)
	if v.Kind == resp.Array {
		for i, e := range v.Elems {
			eachPath(e, append(append([]int{}, path...), i), f)
		}
	}
}

// c01EditsFor lists the edits applicable to the node.
func c01EditsFor(path []int, node resp.Value) []c01Edit {
	var out []c01Edit
	if node.Kind == resp.Array {
		for i := range c01EditLeaves {
			out = append(out, c01Edit{Path: path, Op: "append:" + strconv.Itoa(i)}, c01Edit{Path: path, Op: "append-arr:" + strconv.Itoa(i)})
		}
		out = append(out, c01Edit{Path: path, Op: "setarray"})
		return out
	}
	for i := range c01EditPayloads {
		out = append(out, c01Edit{Path: path, Op: "setbytes:" + strconv.Itoa(i)})
	}
	if node.Kind == resp.Bulk {
		out = append(out, c01Edit{Path: path, Op: "setnil"})
	}
	return out
}

// apply performs the edit on the reference tree and on the library tree.
func (e c01Edit) apply(ref *resp.Value, nodes map[string]*proto.Message) error {
	rv := valueAt(ref, e.Path)
	m := nodes[pathKey(e.Path)]
	if m == nil {
		return fmt.Errorf("no node at %v", e.Path)
	}
	op, arg, _ := strings.Cut(e.Op, ":")
	n, _ := strconv.Atoi(arg)
	switch op {
	case "append", "append-arr":
		leaf := c01EditLeaves[n]
		child := append(append([]int{}, e.Path...), len(rv.Elems))
		cm := c01Build(leaf, child, nodes)
		if op == "append" {
			if err := m.Append(cm); err != nil {
				return err
			}
		} else {
			arr, err := m.Array()
			if err != nil || arr == nil {
				return fmt.Errorf("Array(): %v", err)
			}
			arr.Append(cm)
		}
		rv.Elems = append(rv.Elems, cloneValue(leaf))
	case "setarray":
		arr := proto.NewArray()
		arr.Append(c01Build(resp.I(7), append(append([]int{}, e.Path...), 0), nodes))
		m.SetArray(arr)
		rv.Elems = []resp.Value{resp.I(7)}
	case "setbytes":
		m.SetBytes(cp(c01EditPayloads[n]))
		rv.Data, rv.Null = cp(c01EditPayloads[n]), false
		if rv.Kind != resp.Bulk && bytes.ContainsAny(rv.Data, "\r\n") {
			// a line type cannot carry CR/LF: use the payload without them
			rv.Data = bytes.ReplaceAll(bytes.ReplaceAll(rv.Data, []byte("\r"), nil), []byte("\n"), nil)
			m.SetBytes(cp(rv.Data))
		}
	case "setnil":
		m.SetBytes(nil)
		rv.Data, rv.Null = nil, true
	case "walk":
		// read the array at the node to its end, as an application consuming it does
		if arr, err := m.Array(); err == nil && arr != nil {
			for {
				if x, _ := arr.Next(); x == nil {
					break
				}
			}
		}
	}
	return nil
}

type c01EditCase struct {
	Kind   string    `json:"kind"` // "edit"
	Source string    `json:"source"`
	Value  []byte    `json:"value"`
	Edits  []c01Edit `json:"edits"`
}

func c01CheckEdits(cs c01EditCase) (clause, detail string) {
	v, n, derr := resp.Decode(cs.Value, 0)
	if derr != nil || n != len(cs.Value) {
		return "", ""
	}
	ref := cloneValue(v)
	nodes := map[string]*proto.Message{}
	var root *proto.Message
	if cs.Source == "parsed" {
		var perr error
		if p := guard(func() { root, perr = proto.NewParserWithBytes(cp(cs.Value)).Next() }); p != "" || perr != nil || root == nil {
			return "", "" // the value part reports parse failures
		}
		if err := c01Index(root, nil, nodes); err != nil {
			return "parse-structure", err.Error()
		}
	} else {
		root = c01Build(v, nil, nodes)
	}
	type kept struct {
		got, want []byte
		after     string
	}
	var retained []kept
	encode := func(after string) (string, string) {
		var got []byte
		var err error
		if p := guard(func() { got, err = root.RESPBytes() }); p != "" {
			return "serialize-panic", p
		}
		want := ref.Bytes()
		if err != nil || !bytes.Equal(got, want) {
			return "serialize-after-edit", fmt.Sprintf("%s value %s: after %s serialize returns %s (err=%v), the value now is %s", cs.Source, trunc(cs.Value, 60), after, trunc(got, 80), err, trunc(want, 80))
		}
		retained = append(retained, kept{got: got, want: cp(want), after: after})
		return "", ""
	}
	if cl, d := encode("construction"); cl != "" {
		return cl, d
	}
	if cl, d := encode("a first serialization"); cl != "" {
		return cl, d
	}
	for i, e := range cs.Edits {
		var aerr error
		if p := guard(func() { aerr = e.apply(&ref, nodes) }); p != "" {
			return "edit-panic", p
		}
		if aerr != nil {
			return "edit-error", aerr.Error()
		}
		if cl, d := encode(fmt.Sprintf("edit #%d %s at %v", i+1, e.Op, e.Path)); cl != "" {
			return cl, d
		}
	}
	for _, k := range retained {
		if !bytes.Equal(k.got, k.want) {
			return "retained-encoding-changed", fmt.Sprintf("the bytes returned after %s now read %s (they were %s)", k.after, trunc(k.got, 80), trunc(k.want, 80))
		}
	}
	return "", ""
}

func c01Edits(c *fw.Ctx, trees []resp.Value) {
	for _, t := range trees {
		if !c.Mine() {
			continue
		}
		var edits []c01Edit
		nodesN := 0
		eachPath(t, nil, func(path []int, node resp.Value) {
			nodesN++
			edits = append(edits, c01EditsFor(path, node)...)
			if node.Kind == resp.Array {
				edits = append(edits, c01Edit{Path: path, Op: "walk"})
			}
		})
		run := func(src string, es []c01Edit) {
			cs := c01EditCase{Kind: "edit", Source: src, Value: t.Bytes(), Edits: es}
			c.Eval()
			c.Nontrivial()
			if clause, detail := c01CheckEdits(cs); clause != "" {
				ops := make([]string, len(es))
				for i, e := range es {
					ops[i], _, _ = strings.Cut(e.Op, ":")
				}
				c.Violation("C01|edit:"+src+":"+strings.Join(ops, "+")+"|"+clause, detail, cs)
			}
		}
		for _, src := range []string{"built", "parsed"} {
			run(src, nil)
			for _, e := range edits {
				run(src, []c01Edit{e})
			}
			if nodesN > 4 && !c.Thorough() {
				continue
			}
			// ordered pairs: the second edit is listed against the tree after the first
			for _, e1 := range edits {
				ref := cloneValue(t)
				if e1.apply(&ref, map[string]*proto.Message{pathKey(e1.Path): dummyFor(*valueAt(&ref, e1.Path))}) != nil {
					continue
				}
				eachPath(ref, nil, func(path []int, node resp.Value) {
					for _, e2 := range c01EditsFor(path, node) {
						run(src, []c01Edit{e1, e2})
					}
				})
			}
		}
	}
}

// dummyFor gives apply a library node of the right shape when only the
// reference side of an edit is wanted.
func dummyFor(v resp.Value) *proto.Message {
	return c01Build(v, nil, map[string]*proto.Message{})
}

// c01SharedBuffer: serialization reads its values, it does not write into them. The bulk
// payloads of an array are consecutive sub-slices of ONE buffer owned by the caller (each with
// spare capacity reaching into its neighbour), followed by two guard bytes: the encoding must
// be canonical and the caller's buffer must be byte for byte what it was.
func c01SharedBuffer(payloads [][]byte) (clause, detail string) {
	var buf []byte
	var bounds [][2]int
	for _, p := range payloads {
		bounds = append(bounds, [2]int{len(buf), len(buf) + len(p)})
		buf = append(buf, p...)
	}
	buf = append(buf, 0xA5, 0x5A, 0xA5, 0x5A)
	before := cp(buf)
	arr := proto.NewArray()
	want := resp.A()
	for i, b := range bounds {
		arr.Append(proto.NewMessageWithType(proto.BulkMessage).SetBytes(buf[b[0]:b[1]]))
		want.Elems = append(want.Elems, resp.Value{Kind: resp.Bulk, Data: cp(payloads[i])})
	}
	m := proto.NewMessageWithType(proto.ArrayMessage).SetArray(arr)
	for round := 1; round <= 2; round++ {
		var got []byte
		var err error
		if p := guard(func() { got, err = m.RESPBytes() }); p != "" {
			return "serialize-panic", p
		}
		if err != nil || !bytes.Equal(got, want.Bytes()) {
			return "serialize-bytes", fmt.Sprintf("serialization #%d of payloads %q that are sub-slices of one buffer = %s, canonical %s", round, payloads, trunc(got, 80), trunc(want.Bytes(), 80))
		}
		if !bytes.Equal(buf, before) {
			return "serialize-wrote-into-value", fmt.Sprintf("serializing payloads %q changed the caller's buffer from %q to %q", payloads, trunc(before, 60), trunc(buf, 60))
		}
	}
	return "", ""
}

func c01Shared(c *fw.Ctx) {
	sets := [][][]byte{
		{[]byte("alpha"), []byte("beta"), []byte("gamma")}, {[]byte(""), []byte("value")}, {[]byte("a"), []byte(""), []byte("b")},
		{[]byte("x")}, {[]byte("")}, {[]byte("\r\n"), []byte("\r\n")}, {[]byte("ab"), []byte("cd"), []byte("ef"), []byte("gh")},
	}
	for b := 0; b < 256; b++ {
		sets = append(sets, [][]byte{{byte(b)}, {byte(b), byte(b)}})
	}
	for _, L := range []int{0, 1, 2, 3, 62, 63, 64, 65, 1022, 1023, 1024, 1025, 4095, 4096, 4097} {
		sets = append(sets, [][]byte{bytes.Repeat([]byte("p"), L), bytes.Repeat([]byte("q"), L)})
	}
	for _, ps := range sets {
		if !c.Mine() {
			continue
		}
		c.Eval()
		c.Nontrivial()
		if clause, detail := c01SharedBuffer(ps); clause != "" {
			c.Violation("C01|shared-buffer|"+clause, detail, c01EditCase{Kind: "shared", Value: resp.A().Bytes()})
		}
	}
}
