package props

import (
	"encoding/json"
	"fmt"
	"github.com/cybergarage/go-redis/vrt"
	"sort"
	"strings"
	"time"

	exsrv "github.com/cybergarage/go-redis/examples/go-redisd/server"
	"github.com/cybergarage/go-redis/redis/glob"
	"verif/fw"
	"verif/grammar"
	"verif/resp"
	"verif/seq"
	"verif/srv"
)

// C17: key patterns match as Redis globs.

type c17Case struct {
	Kind    string `json:"kind"` // match | server
	Pattern string `json:"pattern"`
	Key     string `json:"key,omitempty"`
	// kind "history": Pattern is compiled, then Distance other patterns, then
	// Pattern again - the second compilation is the one that is checked
	Distance int `json:"distance,omitempty"`
}

// c17Pool is the fixed list of "other" patterns of the history part.
func c17Pool() []string {
	var pool []string
	eachString([]byte{'a', 'b', '*', '?', '.', '+', '(', '|', '$'}, 4, func(b []byte) { pool = append(pool, string(b)) })
	return pool
}

// c17History: whatever the library keeps between compilations (the package is
// process-wide state) must not change what a pattern means when it comes
// round again after d other patterns.
func c17History(pattern string, d int, pool, keys []string) (clause, detail string, n int) {
	if cl, _, _ := c17Match(pattern, keys); cl != "" {
		return "", "", 0 // reported by the match part
	}
	// the others start at a place in the pool that depends on the case, so that
	// successive cases do not present the same (possibly remembered) patterns
	start := d * 17
	for _, ch := range pattern {
		start = start*131 + int(ch)
	}
	done := 0
	for i := 0; done < d && i < len(pool); i++ {
		o := pool[(start+i)%len(pool)]
		if o == pattern {
			continue
		}
		guard(func() { glob.Compile(o) })
		done++
	}
	clause, detail, n = c17Match(pattern, keys)
	if clause != "" {
		clause, detail = "after-other-patterns:"+clause, fmt.Sprintf("compiled again after %d other patterns: %s", d, detail)
	}
	return clause, detail, n
}

func c17Match(pattern string, keys []string) (clause, detail string, n int) {
	var g *glob.Glob
	var err error
	if p := guard(func() { g, err = glob.Compile(pattern) }); p != "" {
		return "compile-panic", fmt.Sprintf("glob.Compile(%q) panicked: %s", pattern, p), 0
	}
	if err != nil || g == nil {
		return "compile-error", fmt.Sprintf("glob.Compile(%q) failed: %v", pattern, err), 0
	}
	for _, k := range keys {
		n++
		if got, want := g.MatchString(k), grammar.GlobMatch(pattern, k); got != want {
			return "match", fmt.Sprintf("pattern %q key %q: library %v, glob semantics %v", pattern, k, got, want), n
		}
	}
	return "", "", n
}

func c17Server(pattern string, keys []string) (clause, detail string) {
	ex := exsrv.NewServer()
	var load []byte
	for _, k := range keys {
		load = append(load, grammar.Encode([]string{"SET", k, "v"})...)
	}
	if o := srv.RunConn(ex.Server, seq.NewConn(seq.Script{Input: load})); o.Panic != "" || o.Spin != "" {
		return "", ""
	}
	in := concat(grammar.Encode([]string{"KEYS", pattern}), grammar.Encode([]string{"SCAN", "0", "MATCH", pattern, "COUNT", "1000"}))
	o := srv.RunConn(ex.Server, seq.NewConn(seq.Script{Input: in}))
	if cl, dt := crashClause(o); cl != "" {
		return cl, dt
	}
	vals, derr := resp.DecodeAll(o.Reply)
	if derr != nil || len(vals) != 2 {
		return "reply", fmt.Sprintf("replies %s err=%v", valuesString(vals), derr)
	}
	var want []string
	for _, k := range keys {
		if grammar.GlobMatch(pattern, k) {
			want = append(want, k)
		}
	}
	sort.Strings(want)
	list := func(v resp.Value) ([]string, bool) {
		if v.Kind != resp.Array {
			return nil, false
		}
		var out []string
		for _, e := range v.Elems {
			out = append(out, string(e.Data))
		}
		sort.Strings(out)
		return out, true
	}
	gotKeys, ok1 := list(vals[0])
	if !ok1 {
		return "keys-reply", fmt.Sprintf("KEYS %q replied %s", pattern, vals[0])
	}
	if strings.Join(gotKeys, "\x00") != strings.Join(want, "\x00") {
		return "keys-set", fmt.Sprintf("KEYS %q selected %q, glob semantics select %q", pattern, gotKeys, want)
	}
	if vals[1].Kind != resp.Array || len(vals[1].Elems) != 2 {
		return "scan-reply", fmt.Sprintf("SCAN MATCH %q replied %s", pattern, vals[1])
	}
	gotScan, ok2 := list(vals[1].Elems[1])
	if !ok2 || strings.Join(gotScan, "\x00") != strings.Join(want, "\x00") {
		return "scan-set", fmt.Sprintf("SCAN 0 MATCH %q COUNT 1000 selected %q, KEYS/glob semantics select %q", pattern, gotScan, want)
	}
	// a complete SCAN iteration (follow the returned cursor until it is 0) with small
	// COUNTs must select the same keys, each once
	for _, count := range []string{"1", "2", "7"} {
		seen := map[string]int{}
		cursor := "0"
		done := false
		for round := 0; round <= len(keys)+2; round++ {
			o := srv.RunConn(ex.Server, seq.NewConn(seq.Script{Input: grammar.Encode([]string{"SCAN", cursor, "MATCH", pattern, "COUNT", count})}))
			if cl, dt := crashClause(o); cl != "" {
				return cl, dt
			}
			v, _, derr := resp.Decode(o.Reply, 0)
			if derr != nil || v.Kind != resp.Array || len(v.Elems) != 2 || v.Elems[1].Kind != resp.Array {
				return "scan-reply", fmt.Sprintf("SCAN %s MATCH %q COUNT %s replied %s", cursor, pattern, count, trunc(o.Reply, 80))
			}
			for _, e := range v.Elems[1].Elems {
				seen[string(e.Data)]++
			}
			cursor = string(v.Elems[0].Data)
			if cursor == "0" {
				done = true
				break
			}
		}
		if !done {
			return "scan-iteration-endless", fmt.Sprintf("SCAN MATCH %q COUNT %s: after %d calls over %d keys the cursor is still %s (never 0)", pattern, count, len(keys)+3, len(keys), cursor)
		}
		var got []string
		for k, n := range seen {
			if n > 1 {
				return "scan-iteration-duplicate", fmt.Sprintf("SCAN MATCH %q COUNT %s returned %q %d times in one iteration over an unchanged keyspace", pattern, count, k, n)
			}
			got = append(got, k)
		}
		sort.Strings(got)
		if strings.Join(got, "\x00") != strings.Join(want, "\x00") {
			return "scan-iteration-set", fmt.Sprintf("a complete SCAN MATCH %q COUNT %s iteration selected %q, KEYS/glob semantics select %q", pattern, count, got, want)
		}
	}
	return "", ""
}

func c17Run(c *fw.Ctx) {
	alpha := []byte{'a', 'b', '*', '?', '.', '+', '(', '|', '$'}
	pl, kl := 4, 4
	if c.Thorough() {
		alpha = append(alpha, ')', '^', '{', '}')
		pl, kl = 4, 5
	}
	var keys []string
	eachString(alpha, kl, func(b []byte) { keys = append(keys, string(b)) })
	eachString(alpha, pl, func(b []byte) {
		if !c.Mine() {
			return
		}
		if c.Expired() {
			return
		}
		p := string(b)
		clause, detail, n := c17Match(p, keys)
		c.EvalN(int64(n))
		if strings.ContainsAny(p, ".+(|$)^{}") {
			c.Nontrivial()
		}
		if c.WantSample() {
			c.Sample(map[string]any{"pattern": p, "keys": fmt.Sprintf("all %d keys of length <=%d", len(keys), kl)})
		}
		if clause != "" {
			c.Violation("C17|"+clause+"|"+metaClass(p), detail, c17Case{Kind: "match", Pattern: p})
		}
	})
	if c.Thorough() {
		// the property's full product: patterns of length exactly 5 x keys <= 5 over the 9-symbol alphabet
		base := []byte{'a', 'b', '*', '?', '.', '+', '(', '|', '$'}
		var keys9 []string
		eachString(base, 5, func(b []byte) { keys9 = append(keys9, string(b)) })
		eachString(base, 5, func(b []byte) {
			if len(b) != 5 || !c.Mine() || c.Expired() {
				return
			}
			p := string(b)
			clause, detail, n := c17Match(p, keys9)
			c.EvalN(int64(n))
			if strings.ContainsAny(p, ".+(|$") {
				c.Nontrivial()
			}
			if clause != "" {
				c.Violation("C17|"+clause+"|"+metaClass(p), detail, c17Case{Kind: "match", Pattern: p})
			}
		})
	}
	// a pattern that comes round again after d other patterns (d around every power of two)
	pool := c17Pool()
	var keys3 []string
	eachString(alpha, 3, func(b []byte) { keys3 = append(keys3, string(b)) })
	var dist []int
	for k := 0; k <= 10; k++ {
		for _, d := range []int{1<<k - 1, 1 << k, 1<<k + 1} {
			if d >= 1 && (len(dist) == 0 || d > dist[len(dist)-1]) {
				dist = append(dist, d)
			}
		}
	}
	if c.Thorough() {
		dist = append(dist, 4095, 4096, 4097, 7000)
	}
	bases := []string{"a*", "?b", "a.b", "*", "a+", "(a|b)", "$", "ab", "a?*", ".*"}
	for _, base := range bases {
		for _, d := range dist {
			if !c.Mine() {
				continue
			}
			clause, detail, n := c17History(base, d, pool, keys3)
			c.EvalN(int64(n))
			c.Nontrivial()
			if clause != "" {
				c.Violation("C17|"+clause+"|"+metaClass(base), detail, c17Case{Kind: "history", Pattern: base, Distance: d})
			}
		}
	}
	c17Concurrent(c)
	// through the server: KEYS and SCAN MATCH against a store holding all keys of length <= 2.
	// The server part's alphabet also has '/', ':' and '-' (separators of real key names,
	// characters that other globbing libraries treat specially).
	salpha := append(append([]byte{}, alpha...), '/', ':', '-')
	var small []string
	eachString(salpha, 2, func(b []byte) { small = append(small, string(b)) })
	eachString(salpha, 3, func(b []byte) {
		if !c.Mine() {
			return
		}
		p := string(b)
		c.Eval()
		c.Nontrivial()
		if clause, detail := c17Server(p, small); clause != "" {
			c.Violation("C17|server|"+clause+"|"+metaClass(p), detail, c17Case{Kind: "server", Pattern: p})
		}
	})
}

func metaClass(p string) string {
	var m []string
	for _, ch := range ".+(|$)^{}" {
		if strings.ContainsRune(p, ch) {
			m = append(m, string(ch))
		}
	}
	if len(m) == 0 {
		return "plain"
	}
	return "meta:" + strings.Join(m, "")
}

func c17Replay(raw json.RawMessage) (string, bool, error) {
	var cs c17Case
	if err := json.Unmarshal(raw, &cs); err != nil {
		return "", false, err
	}
	alpha := []byte{'a', 'b', '*', '?', '.', '+', '(', '|', '$', ')', '^', '{', '}'}
	if cs.Kind == "server" {
		var small []string
		eachString(append(append([]byte{}, alpha...), '/', ':', '-'), 2, func(b []byte) { small = append(small, string(b)) })
		clause, detail := c17Server(cs.Pattern, small)
		return fmt.Sprintf("pattern=%q clause=%q %s", cs.Pattern, clause, detail), clause != "", nil
	}
	if cs.Kind == "concurrent" {
		var pc c17Pair
		if err := json.Unmarshal(raw, &pc); err != nil {
			return "", false, err
		}
		var keys []string
		eachString([]byte{'a', 'b', '*', '?', '.', '+', '(', '|', '$'}, 2, func(b []byte) { keys = append(keys, string(b)) })
		run := c17PairExplorer(pc, 0, keys).New()
		r := vrt.Run(vrt.Options{Choices: pc.Choices, FineLoops: true}, run.Body, run.AtQuiet)
		if r.Diverged != "" {
			return "", false, fmt.Errorf("schedule does not replay: %s", r.Diverged)
		}
		v := run.Verdict(r)
		return fmt.Sprintf("patterns=%q schedule=%v clause=%q %s", pc.P, pc.Choices, v.Clause, v.Detail), v.Clause != "", nil
	}
	if cs.Kind == "history" {
		var keys3 []string
		eachString(alpha, 3, func(b []byte) { keys3 = append(keys3, string(b)) })
		clause, detail, _ := c17History(cs.Pattern, cs.Distance, c17Pool(), keys3)
		return fmt.Sprintf("pattern=%q distance=%d clause=%q %s", cs.Pattern, cs.Distance, clause, detail), clause != "", nil
	}
	var keys []string
	eachString(alpha, 4, func(b []byte) { keys = append(keys, string(b)) })
	clause, detail, _ := c17Match(cs.Pattern, keys)
	return fmt.Sprintf("pattern=%q clause=%q %s", cs.Pattern, clause, detail), clause != "", nil
}

func init() {
	fw.Register(&fw.Prop{
		ID:          "C17",
		Level:       "exploration",
		Rule:        "alphabet {a b * ? . + ( | $} (thorough adds ) ^ { }): ALL patterns of length <=4 x ALL keys of length <=4 (thorough: patterns <=4 x keys <=5 over 13 symbols, and the property's full product patterns <=5 x keys <=5 over the 9-symbol alphabet) compared with a recursive reference matcher; and, through the real server over the example store holding all keys of length <=2, KEYS p, SCAN 0 MATCH p COUNT 1000 and complete SCAN iterations (cursor followed until 0) with COUNT 1, 2 and 7 for every pattern of length <=3 against the reference selection (each key once, the iteration ends). evaluations counts (pattern,key) matches; non-trivial = patterns containing a regular-expression metacharacter. History part: 10 base patterns compiled again after d = 2^k-1, 2^k, 2^k+1 (k<=10) other patterns. Concurrent part: 49 ordered pairs of patterns compiled and matched by two goroutines with every loop iteration of the glob package a scheduling point, every schedule within deviation bound 2 (thorough 3).",
		Assumptions: []string{"'[', ']' and '\\' are not in the alphabet (Redis gives them a meaning the statement does not fix)", "random longer patterns are not claimed; the full <=5 x <=5 product is enumerated in the thorough tier only"},
		Run:         c17Run,
		Replay:      c17Replay,
		Budget: func(tier string) time.Duration {
			if tier == "thorough" {
				return 20 * time.Minute
			}
			return 0
		},
	})
}
