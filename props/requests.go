package props

import (
	"errors"
	"fmt"
	"strings"

	"github.com/cybergarage/go-redis/redis"
	"verif/grammar"
	"verif/resp"
	"verif/srv"
)

// reqItem is one request of the shared request catalogue.
type reqItem struct {
	Label string       // "<CMD>|<class>"
	Elems []resp.Value // the request array elements
	Bytes []byte
	Kind  string // valid | bad | surplus | unknown | handler-error | quit
}

func mkItem(label, kind string, elems []resp.Value) reqItem {
	return reqItem{Label: label, Kind: kind, Elems: elems, Bytes: resp.A(elems...).Bytes()}
}

func bulkElems(args []string) []resp.Value {
	out := make([]resp.Value, len(args))
	for i, a := range args {
		out[i] = resp.B(a)
	}
	return out
}

// errKey makes the catalogue double return a handler error.
const errKey = "errkey"

// catalogueDouble configures the double used with the catalogue: content
// tokens, typed results where the framework needs them to proceed, and a
// handler error for errKey.
func catalogueDouble(d *srv.Double) {
	d.ContentTokens = true
	d.Result = func(d *srv.Double, c srv.Call) (*redis.Message, error) {
		for _, a := range c.Args {
			if s, ok := a.(string); ok && s == errKey {
				return nil, errors.New("handler failed")
			}
			if l, ok := a.([]string); ok {
				for _, s := range l {
					if s == errKey {
						return nil, errors.New("handler failed")
					}
				}
			}
		}
		switch c.Method {
		case "HGetAll":
			return redis.NewStringArrayMessage([]string{"f1", "tok:" + c.Key(), "f2", "v2"}), nil
		case "SMembers":
			return redis.NewStringArrayMessage([]string{"tok:" + c.Key(), "m2"}), nil
		case "ZRange", "ZRangeByScore":
			return redis.NewStringArrayMessage([]string{"tok:" + c.Key(), "1", "m2", "2"}), nil
		}
		return redis.NewBulkMessage("tok:" + c.Key()), nil
	}
}

// catalogue builds the request catalogue: every command with its valid shapes
// (each option word, list arities 1..3), ill-formed and surplus-argument
// shapes, unknown commands, handler errors and QUIT.
func catalogue() []reqItem {
	var out []reqItem
	seen := map[string]bool{}
	add := func(it reqItem) {
		k := string(it.Bytes)
		if seen[k] {
			return
		}
		seen[k] = true
		out = append(out, it)
	}
	for _, s := range grammar.Specs {
		if s.Name == "QUIT" {
			continue
		}
		first := true
		grammar.EachWellFormed(s, true, 1, func(r grammar.Req) {
			add(mkItem(s.Name+"|valid:"+r.Shape, "valid", bulkElems(r.Args)))
			if first {
				first = false
				add(mkItem(s.Name+"|surplus", "surplus", bulkElems(append(append([]string{}, r.Args...), "surplus"))))
				low := append([]string{}, r.Args...)
				low[0] = strings.ToLower(low[0])
				add(mkItem(s.Name+"|valid-lower", "valid", bulkElems(low)))
			}
		})
		grammar.EachBad(s, func(b grammar.Bad) {
			add(mkItem(s.Name+"|bad:"+b.Class, "bad", b.Elems))
		})
	}
	// option words in every ordered pair (and alone): legal ones, legal ones with their value,
	// a sibling command's word, an unknown word, a word whose value is missing. Nothing is
	// claimed about the reply's content; every such request is answered once and the
	// connection goes on.
	type optFam struct {
		head   []string   // the request up to the options
		tail   []string   // what follows the options
		tokens [][]string // option tokens
	}
	rangeTokens := [][]string{{"BYSCORE"}, {"BYLEX"}, {"REV"}, {"WITHSCORES"}, {"LIMIT", "0", "1"}, {"WITHSCORE"}, {"LIMIT", "1"}}
	expTokens := [][]string{{"NX"}, {"XX"}, {"GT"}, {"LT"}, {"FOO"}}
	for _, f := range []optFam{
		{head: []string{"ZRANGE", "z", "0", "-1"}, tokens: rangeTokens},
		{head: []string{"ZREVRANGE", "z", "0", "-1"}, tokens: rangeTokens},
		{head: []string{"ZRANGEBYSCORE", "z", "-inf", "+inf"}, tokens: rangeTokens},
		{head: []string{"ZREVRANGEBYSCORE", "z", "+inf", "-inf"}, tokens: rangeTokens},
		{head: []string{"SET", "k", "v"}, tokens: [][]string{{"NX"}, {"XX"}, {"GET"}, {"KEEPTTL"}, {"EX", "10"}, {"PX", "10"}, {"EXAT", "100"}, {"PXAT", "100"}, {"FOO"}, {"EX"}}},
		{head: []string{"ZADD", "z"}, tail: []string{"1", "m"}, tokens: [][]string{{"NX"}, {"XX"}, {"GT"}, {"LT"}, {"CH"}, {"INCR"}, {"FOO"}}},
		{head: []string{"EXPIRE", "k", "10"}, tokens: expTokens},
		{head: []string{"EXPIREAT", "k", "10"}, tokens: expTokens},
		{head: []string{"SCAN", "0"}, tokens: [][]string{{"MATCH", "a*"}, {"COUNT", "5"}, {"TYPE", "string"}, {"FOO"}, {"MATCH"}}},
	} {
		mk := func(toks ...[]string) {
			args := append([]string{}, f.head...)
			label := ""
			for _, t := range toks {
				args = append(args, t...)
				label += "+" + strings.Join(t, "_")
			}
			args = append(args, f.tail...)
			add(mkItem(f.head[0]+"|options:"+label[1:], "options", bulkElems(args)))
		}
		for _, a := range f.tokens {
			mk(a)
			for _, b := range f.tokens {
				mk(a, b)
			}
		}
	}
	grammar.ConfigRequests(func(r grammar.Req) {
		add(mkItem("CONFIG|valid:"+r.Shape, "valid", bulkElems(r.Args)))
	})
	for _, a := range [][]string{{"AUTH", "pw"}, {"AUTH", "user", "pw"}, {"PING"}, {"PING", "hello"}} {
		add(mkItem(a[0]+"|valid", "valid", bulkElems(a)))
	}
	for _, a := range [][]string{{"NOSUCH"}, {"NOSUCH", "a", "b"}, {""}, {"GETX", "k"}} {
		add(mkItem("unknown|"+fmt.Sprint(len(a)), "unknown", bulkElems(a)))
	}
	// arguments with line breaks and format verbs where the server quotes them in an error reply
	for _, a := range [][]string{{"SET", "k", "v", "bo\r\ngus"}, {"NO\nSUCH", "x"}, {"RENAME", "missing\r\n", "x"}, {"EXPIRE", "k", "1\r\n2"}, {"ZADD", "z", "x\ry", "m"}, {"CONFIG", "NO\r\nSUCH"}, {"SET", "k", "v", "%s%d"}, {"NO%sSUCH"}, {"INCRBY", "k", "%d"}} {
		add(mkItem(a[0]+"|nasty-argument", "bad", bulkElems(a)))
	}
	for _, a := range [][]string{{"GET", errKey}, {"SET", errKey, "v"}, {"DEL", "a", errKey}, {"INCR", errKey}, {"HGETALL", errKey}, {"MGET", "a", errKey}, {"ZCARD", errKey}, {"LPUSH", errKey, "x"},
		{"HMGET", "h", errKey}, {"HMGET", "h", "f1", errKey, "f2"}, {"HMGET", "h", "f1", "f2", errKey}, {"MGET", errKey, "a"}, {"MSET", "a", "1", errKey, "2"}, {"HMSET", "h", "f", "1", errKey, "2"},
		{"APPEND", errKey, "x"}, {"STRLEN", errKey}, {"HKEYS", errKey}, {"SCARD", errKey}, {"ZREVRANGE", errKey, "0", "-1"}, {"GETRANGE", errKey, "0", "1"}} {
		add(mkItem(a[0]+"|handler-error", "handler-error", bulkElems(a)))
	}
	add(mkItem("QUIT|valid", "quit", bulkElems([]string{"QUIT"})))
	add(mkItem("QUIT|lower", "quit", bulkElems([]string{"quit"})))
	add(mkItem("QUIT|surplus", "quit", bulkElems([]string{"QUIT", "x"})))
	return out
}

// representatives picks one request per executor family plus the special kinds.
func representatives(cat []reqItem) []reqItem {
	var out []reqItem
	fam := map[string]bool{}
	for _, it := range cat {
		name := it.Label[:strings.IndexByte(it.Label, '|')]
		s := grammar.Lookup(name)
		if s == nil || it.Kind != "valid" {
			continue
		}
		if !fam[s.Family] {
			fam[s.Family] = true
			out = append(out, it)
		}
	}
	pick := func(label string) {
		for _, it := range cat {
			if strings.HasPrefix(it.Label, label) {
				out = append(out, it)
				return
			}
		}
	}
	pick("QUIT|valid")
	pick("unknown|")
	pick("SET|bad:missing-arg")
	pick("GET|handler-error")
	pick("CONFIG|valid:GET")
	pick("ZADD|valid:flags:NX")
	pick("SELECT|valid")
	pick("MSET|bad:odd-pairs")
	return out
}
