package props

import (
	"encoding/json"
	"fmt"
	"sort"
	"strings"
	"time"

	exsrv "github.com/cybergarage/go-redis/examples/go-redisd/server"
	"verif/fw"
	"verif/grammar"
	"verif/model"
	"verif/resp"
	"verif/seq"
	"verif/srv"
)

// C18: the bundled example store returns what was stored (explicit-state
// search over programs, every transition executed on the real example server).

type c18Case struct {
	Type    string     `json:"type"`
	Program [][]string `json:"program"`
}

var c18Unordered = map[string]bool{"SMEMBERS": true, "HKEYS": true, "HVALS": true, "KEYS": true}

func sortedElems(v resp.Value) []string {
	var out []string
	for _, e := range v.Elems {
		out = append(out, e.String())
	}
	sort.Strings(out)
	return out
}

// c18Same compares a reply of the example server with the model's reply under
// the conventions of DESIGN.md appendix C. It returns "" or a clause.
func c18Same(cmd []string, got, want resp.Value, st *model.State) string {
	name := strings.ToUpper(cmd[0])
	if want.IsError() {
		if got.IsError() {
			return ""
		}
		return "error-expected"
	}
	if got.IsError() {
		return "unexpected-error"
	}
	if want.Null && got.Null && (got.Kind == resp.Bulk || got.Kind == resp.Array) {
		return "" // $-1 and *-1 both say "nothing there"
	}
	if got.Kind != want.Kind {
		if got.Kind == resp.Status && want.Kind == resp.Bulk && !want.Null && string(got.Data) == string(want.Data) {
			return "reply-type:status-for-bulk"
		}
		return "reply-type"
	}
	if want.Kind != resp.Array {
		if got.Equal(want) {
			return ""
		}
		return "reply-value"
	}
	if len(got.Elems) != len(want.Elems) {
		return "reply-length"
	}
	switch {
	case c18Unordered[name]:
		if strings.Join(sortedElems(got), "\x00") == strings.Join(sortedElems(want), "\x00") {
			return ""
		}
		return "reply-members"
	case name == "HGETALL":
		pairs := func(v resp.Value) []string {
			var out []string
			for i := 0; i+1 < len(v.Elems); i += 2 {
				out = append(out, v.Elems[i].String()+"="+v.Elems[i+1].String())
			}
			sort.Strings(out)
			return out
		}
		if strings.Join(pairs(got), "\x00") == strings.Join(pairs(want), "\x00") {
			return ""
		}
		return "reply-pairs"
	case name == "ZRANGE" || name == "ZRANGEBYSCORE" || name == "ZREVRANGE" || name == "ZREVRANGEBYSCORE":
		// Order by score is required; the order among members of equal score
		// is not (DESIGN.md appendix C). The reply is right iff it lists
		// distinct members of the set and the score at every position is the
		// score Redis has at that position.
		if got.Equal(want) {
			return ""
		}
		if st == nil {
			return "reply-order"
		}
		step := 1
		for _, a := range cmd {
			if strings.EqualFold(a, "WITHSCORES") {
				step = 2
			}
		}
		scores := map[string]float64{}
		if e := st.Keys[cmd[1]]; e != nil {
			scores = e.ZSet
		}
		used := map[string]bool{}
		for i := 0; i+step-1 < len(want.Elems); i += step {
			gm, wm := string(got.Elems[i].Data), string(want.Elems[i].Data)
			gs, isMember := scores[gm]
			if !isMember || used[gm] {
				return "reply-members"
			}
			used[gm] = true
			if gs != scores[wm] {
				return "reply-order"
			}
			if step == 2 && !got.Elems[i+1].Equal(resp.B(model.FmtScore(gs))) {
				return "reply-score"
			}
		}
		return ""
	}
	for i := range want.Elems {
		if cl := c18Same([]string{"elem"}, got.Elems[i], want.Elems[i], nil); cl != "" {
			return cl
		}
	}
	return ""
}

type c18Type struct {
	Name    string
	Cmds    [][]string
	Readout [][]string
}

func c18Types() []c18Type {
	keys := []string{"k1", "k2"}
	generic := [][]string{
		{"DEL", "k1"}, {"DEL", "k1", "k2"}, {"EXISTS", "k1", "k2", "k1"}, {"RENAME", "k1", "k2"}, {"RENAME", "k2", "k1"}, {"RENAME", "k1", "k1"},
		{"RENAMENX", "k1", "k2"}, {"RENAMENX", "k2", "k2"}, {"TYPE", "k1"}, {"TYPE", "k2"}, {"KEYS", "*"}, {"KEYS", "k?"},
		// repeated and missing keys in one request
		{"EXISTS", "k1", "k2", "k1"}, {"DEL", "k1", "k1"}, {"DEL", "k3", "k2", "k3"}, {"EXISTS", "k3"},
	}
	common := [][]string{{"EXISTS", "k1"}, {"EXISTS", "k2"}, {"TYPE", "k1"}, {"TYPE", "k2"}, {"KEYS", "*"}}
	var str, hash, list, set, zset [][]string
	for _, k := range keys {
		for _, v := range []string{"x", "", "y\r\nz", "5"} {
			str = append(str, []string{"SET", k, v})
		}
		for _, v := range []string{"x", ""} {
			str = append(str, []string{"SETNX", k, v}, []string{"GETSET", k, v}, []string{"APPEND", k, v})
		}
		// SET with the options the framework parses
		str = append(str, []string{"SET", k, "n", "NX"}, []string{"SET", k, "u", "XX"}, []string{"SET", k, "g", "GET"}, []string{"SET", k, "h", "XX", "GET"}, []string{"SET", k, "i", "NX", "GET"})
		str = append(str, []string{"GET", k}, []string{"STRLEN", k}, []string{"INCR", k}, []string{"DECRBY", k, "1"}, []string{"DECRBY", k, "-1"})
		for _, f := range []string{"a", "b"} {
			for _, v := range []string{"x", "y\r\nz"} {
				hash = append(hash, []string{"HSET", k, f, v})
			}
			hash = append(hash, []string{"HSETNX", k, f, ""}, []string{"HGET", k, f}, []string{"HDEL", k, f}, []string{"HEXISTS", k, f})
		}
		hash = append(hash, []string{"HDEL", k, "a", "a"}, []string{"HMSET", k, "a", "1", "a", "2"}, []string{"HMGET", k, "a", "a"}, []string{"HSTRLEN", k, "a"},
			[]string{"HDEL", k, "a", "b"}, []string{"HGETALL", k}, []string{"HLEN", k}, []string{"HKEYS", k}, []string{"HVALS", k},
			[]string{"HMSET", k, "a", "1", "b", ""}, []string{"HMGET", k, "b", "a", "zz"})
		for _, v := range []string{"x", "y\r\nz"} {
			list = append(list, []string{"LPUSH", k, v}, []string{"RPUSH", k, v})
		}
		list = append(list, []string{"LPUSH", k, "a", "b"}, []string{"RPUSH", k, "a", "b"}, []string{"LPUSHX", k, "c"}, []string{"RPUSHX", k, "c"},
			[]string{"LPOP", k}, []string{"LPOP", k, "2"}, []string{"RPOP", k}, []string{"RPOP", k, "2"}, []string{"LPOP", k, "9"}, []string{"LPUSH", k, "a", "a"},
			[]string{"LRANGE", k, "0", "-1"}, []string{"LRANGE", k, "1", "1"}, []string{"LRANGE", k, "-1", "5"}, []string{"LINDEX", k, "0"}, []string{"LINDEX", k, "-1"}, []string{"LINDEX", k, "1"}, []string{"LLEN", k})
		for _, m := range []string{"a", "b"} {
			set = append(set, []string{"SADD", k, m}, []string{"SREM", k, m}, []string{"SISMEMBER", k, m})
			for _, sc := range []string{"1", "2"} {
				zset = append(zset, []string{"ZADD", k, sc, m})
			}
			zset = append(zset, []string{"ZREM", k, m}, []string{"ZSCORE", k, m}, []string{"ZINCRBY", k, "1", m}, []string{"ZINCRBY", k, "-1", m})
		}
		set = append(set, []string{"SREM", k, "a", "a"}, []string{"SREM", k, "zz", "a"},
			[]string{"SADD", k, "a", "b", "a"}, []string{"SREM", k, "a", "b"}, []string{"SMEMBERS", k}, []string{"SCARD", k})
		zset = append(zset, []string{"ZADD", k, "2", "a", "1", "b"}, []string{"ZRANGE", k, "0", "-1"}, []string{"ZRANGE", k, "0", "-1", "WITHSCORES"},
			[]string{"ZRANGEBYSCORE", k, "1", "2"}, []string{"ZRANGEBYSCORE", k, "-inf", "+inf", "WITHSCORES"}, []string{"ZRANGEBYSCORE", k, "(1", "2"}, []string{"ZCARD", k},
			// partial index ranges (tie order is left open by the oracle), the
			// ZRANGE options the framework parses (REV, BYSCORE, LIMIT), reverse commands
			[]string{"ZRANGE", k, "0", "0"}, []string{"ZRANGE", k, "1", "-1", "WITHSCORES"}, []string{"ZRANGE", k, "0", "-1", "REV"}, []string{"ZRANGE", k, "0", "0", "REV", "WITHSCORES"},
			[]string{"ZRANGE", k, "1", "2", "BYSCORE"}, []string{"ZRANGE", k, "2", "(1", "BYSCORE", "REV"}, []string{"ZRANGE", k, "-inf", "+inf", "BYSCORE", "LIMIT", "1", "1"},
			[]string{"ZREVRANGE", k, "0", "0"}, []string{"ZREVRANGE", k, "0", "-1", "WITHSCORES"}, []string{"ZREVRANGEBYSCORE", k, "2", "1"}, []string{"ZREVRANGEBYSCORE", k, "+inf", "-inf", "LIMIT", "1", "1"},
			[]string{"ZRANGEBYSCORE", k, "-inf", "+inf", "LIMIT", "1", "1"},
			// ZADD options
			[]string{"ZADD", k, "NX", "3", "a"}, []string{"ZADD", k, "XX", "3", "a"}, []string{"ZADD", k, "XX", "CH", "0", "b", "0", "c"}, []string{"ZADD", k, "GT", "2", "a"}, []string{"ZADD", k, "LT", "CH", "2", "a"}, []string{"ZADD", k, "INCR", "1", "a"}, []string{"ZADD", k, "XX", "INCR", "1", "b"})
	}
	str = append(str, []string{"MSET", "k1", "x", "k2", ""}, []string{"MSET", "k2", "5", "k2", "x"}, []string{"MGET", "k1", "k2"},
		// all or nothing (the pair list is walked in every order the map iteration gives: sorted here)
		[]string{"MSETNX", "k1", "m", "k2", "m"}, []string{"MSETNX", "k2", "n", "k1", "n", "k3", "n"}, []string{"MSETNX", "k0", "o", "k2", "o"}, []string{"GET", "k0"}, []string{"GET", "k3"},
		[]string{"INCRBY", "k1", "0"}, []string{"DECRBY", "k2", "0"})
	mk := func(name string, cmds [][]string, ro [][]string) c18Type {
		return c18Type{Name: name, Cmds: append(append([][]string{}, cmds...), generic...), Readout: append(append([][]string{}, common...), ro...)}
	}
	return []c18Type{
		mk("string", str, [][]string{{"GET", "k1"}, {"GET", "k2"}}),
		mk("hash", hash, [][]string{{"HGETALL", "k1"}, {"HGETALL", "k2"}}),
		mk("list", list, [][]string{{"LRANGE", "k1", "0", "-1"}, {"LRANGE", "k2", "0", "-1"}}),
		mk("set", set, [][]string{{"SMEMBERS", "k1"}, {"SMEMBERS", "k2"}}),
		mk("zset", zset, [][]string{{"ZRANGE", "k1", "0", "-1", "WITHSCORES"}, {"ZRANGE", "k2", "0", "-1", "WITHSCORES"}}),
	}
}

// c18Step runs program on a fresh example server followed by the read-out, and
// compares the last command's reply and the read-out with the model.
// It returns the violation (if any), the model state after the program and
// the observed read-out (canonical), which together identify the state.
func c18Step(t c18Type, program [][]string) (clause, detail string, st *model.State, readout string, crashed bool) {
	ex := exsrv.NewServer()
	var input []byte
	for _, c := range program {
		input = append(input, grammar.Encode(c)...)
	}
	for _, c := range t.Readout {
		input = append(input, grammar.Encode(c)...)
	}
	out := srv.RunConn(ex.Server, seq.NewConn(seq.Script{Input: input}))
	st = model.New()
	var wants []resp.Value
	for _, c := range program {
		wants = append(wants, st.Apply(c))
	}
	if cl, dt := crashClause(out); cl != "" {
		return cl, dt, st, "", true
	}
	vals, derr := resp.DecodeAll(out.Reply)
	if derr != nil || len(vals) != len(program)+len(t.Readout) {
		return "reply-stream", fmt.Sprintf("%d commands, %d replies, err=%v", len(program)+len(t.Readout), len(vals), derr), st, "", true
	}
	last := len(program) - 1
	var ro []string
	for _, v := range vals[len(program):] {
		ro = append(ro, v.String())
	}
	readout = strings.Join(ro, " ")
	if last >= 0 {
		if cl := c18Same(program[last], vals[last], wants[last], st); cl != "" && cl[0] != '~' {
			return strings.ToUpper(program[last][0]) + "|" + cl, fmt.Sprintf("%s replied %s, Redis replies %s", argsString(program[last]), vals[last], wants[last]), st, readout, false
		}
	}
	ref := st.Clone()
	for i, c := range t.Readout {
		want := ref.Apply(c)
		if cl := c18Same(c, vals[len(program)+i], want, ref); cl != "" && cl[0] != '~' {
			after := "initial state"
			if last >= 0 {
				after = strings.ToUpper(program[last][0])
			}
			return "after-" + after + "|" + strings.ToUpper(c[0]) + "|" + cl, fmt.Sprintf("after the program, %s replied %s, Redis replies %s", argsString(c), vals[len(program)+i], want), st, readout, false
		}
	}
	return "", "", st, readout, false
}

func c18Run(c *fw.Ctx) {
	c18Index(c)
	depth := 4
	if c.Thorough() {
		depth = 7
	}
	types := c18Types()
	// work units: (type, first command index); each worker owns the units with
	// index % N == shard. All units advance one depth level at a time, so that a
	// run cut by the deadline has still covered every unit up to a common depth
	// (level_<d>_units_done == units in the evidence counters).
	var units []*c18Unit
	n := 0
	for _, t := range types {
		for first := range t.Cmds {
			mine := n%c.N == c.Shard
			n++
			if mine {
				units = append(units, &c18Unit{t: t, first: first, seen: map[string]bool{}})
			}
		}
	}
	if c.Shard == 0 {
		c.Count("units", int64(n))
	}
	for d := 1; d <= depth; d++ {
		for _, u := range units {
			if u.closed {
				c.Count(fmt.Sprintf("level_%d_units_done", d), 1)
				continue
			}
			if !u.step(c, d) {
				c.Cap("level %d (programs of %d commands) was not completed for every unit before the internal deadline; all units are complete up to level %d", d, d, d-1)
				return
			}
			c.Count(fmt.Sprintf("level_%d_units_done", d), 1)
		}
	}
	for _, u := range units {
		if u.closed {
			c.Count("closed_units", 1)
		} else {
			c.Count("depth_bounded_units", 1)
		}
	}
}

// c18Unit is the breadth-first search from one first command.
type c18Unit struct {
	t        c18Type
	first    int
	seen     map[string]bool
	frontier [][][]string
	closed   bool // no new state at the last level: the reachable state space is exhausted
}

func (u *c18Unit) visit(c *fw.Ctx, prog [][]string, next *[][][]string) {
	c.Eval()
	c.Count("transitions", 1)
	clause, detail, st, readout, crashed := c18Step(u.t, prog)
	if clause != "" {
		c.Violation("C18|"+u.t.Name+"|"+clause, detail+" program="+fmt.Sprint(prog), c18Case{Type: u.t.Name, Program: prog})
		return // violating states are terminal
	}
	if crashed {
		return
	}
	key := st.Canon() + "#" + readout
	c.DistinctAdd("states", u.t.Name+"|"+key)
	if u.seen[key] {
		c.Count("merges", 1)
		return
	}
	u.seen[key] = true
	c.Nontrivial()
	if c.WantSample() && len(prog) >= 3 {
		c.Sample(map[string]any{"type": u.t.Name, "program": prog, "model_state": st.Canon()})
	}
	*next = append(*next, prog)
}

// step explores the programs of length d of this unit; false = deadline hit.
func (u *c18Unit) step(c *fw.Ctx, d int) bool {
	var next [][][]string
	if d == 1 {
		u.visit(c, [][]string{u.t.Cmds[u.first]}, &next)
	} else {
		for _, prog := range u.frontier {
			if c.Expired() {
				return false
			}
			for _, cmd := range u.t.Cmds {
				u.visit(c, append(append([][]string{}, prog...), cmd), &next)
			}
		}
	}
	u.frontier = next
	if len(next) == 0 {
		u.closed = true
	}
	return true
}

func c18Replay(raw json.RawMessage) (string, bool, error) {
	var probe struct {
		Kind string `json:"kind"`
	}
	json.Unmarshal(raw, &probe)
	if probe.Kind == "index" {
		var ic c18IndexCase
		if err := json.Unmarshal(raw, &ic); err != nil {
			return "", false, err
		}
		clause, detail := c18IndexCheck(ic)
		return fmt.Sprintf("setup=%q cmd=%q clause=%q %s", ic.Setup, ic.Cmd, clause, detail), clause != "", nil
	}
	var cs c18Case
	if err := json.Unmarshal(raw, &cs); err != nil {
		return "", false, err
	}
	for _, t := range c18Types() {
		if t.Name == cs.Type {
			clause, detail, st, ro, _ := c18Step(t, cs.Program)
			return fmt.Sprintf("program=%v clause=%q %s model={%s} readout=%s", cs.Program, clause, detail, st.Canon(), ro), clause != "", nil
		}
	}
	return "", false, fmt.Errorf("unknown type %s", cs.Type)
}

func init() {
	fw.Register(&fw.Prop{
		ID:    "C18",
		Level: "model_checking",
		Rule:  "explicit-state breadth-first search per data type (string, hash, list, set, sorted set) over programs of concrete commands on keys {k1,k2}, fields/members {a,b}, values {x, empty, y CRLF z, 5}, scores {1,2}, increments ±1, indices {0,-1,1}, pop counts {none,2}, sorted-set reads by index (full and partial ranges), by score, with REV / BYSCORE / LIMIT / WITHSCORES and the ZREV* forms, ZADD with NX/XX/GT/LT/CH/INCR, plus DEL/EXISTS/RENAME/RENAMENX (onto absent, existing and identical keys)/TYPE/KEYS for every type. A state is (Redis-model state, full read-out of the example server); each successor is obtained by replaying the program on a fresh real example server plus one command; states are de-duplicated per (type, first command) unit; search to depth 4 (thorough 7, or closure where it closes); all units advance level by level, so a run cut by the deadline is still complete up to the last level whose level_<d>_units_done counter equals units. Range replies are judged up to the order among members of equal score. Every reply and the read-out are compared with the model under the conventions of DESIGN.md appendix C. Index part: LINDEX with every index -6..6 and LRANGE / ZRANGE (also REV) / ZREVRANGE WITHSCORES / GETRANGE with every index pair from -6..6 against lists, sorted sets and strings of length 0..4.",
		Assumptions: []string{
			"each key is used with one data type, no expiry",
			"replies whose order Redis leaves unspecified are compared as multisets; members of equal score as sets; $-1 and *-1 both count as 'nothing'",
			"violating states are not expanded further (the first divergence on a path is reported)",
		},
		Run:    c18Run,
		Replay: c18Replay,
		Budget: func(tier string) time.Duration {
			if tier == "thorough" {
				return 25 * time.Minute
			}
			return 5 * time.Minute
		},
		Finish: func(tier string, m *fw.Result, cov map[string]any) {
			cov["states"] = m.Counters["distinct_states"]
			cov["transitions"] = m.Counters["transitions"]
			cov["traces_validated_against_impl"] = m.Evaluations
		},
	})
}
