package props

import (
	"crypto/tls"
	"encoding/json"
	"errors"
	"fmt"
	exsrv "github.com/cybergarage/go-redis/examples/go-redisd/server"
	"sort"
	"strings"
	"time"
	"unsafe"

	"github.com/cybergarage/go-redis/redis"
	"github.com/cybergarage/go-redis/vrt"
	"verif/fw"
	"verif/resp"
	"verif/sched"
	"verif/srv"
)

// C14: no data races in server state shared between connections.
// Every explored execution feeds its instrumented accesses to a vector-clock
// (FastTrack-style) happens-before oracle; races are unordered site pairs.

type c14Case struct {
	Scenario string   `json:"scenario"`
	Choices  []int    `json:"choices,omitempty"`
	Racy     []string `json:"racy_set,omitempty"`
}

type c14Scenario struct {
	Name string
	New  func() *sched.Run
}

func c14Verdict(extra func() string) func(r *vrt.Result) sched.Verdict {
	return func(r *vrt.Result) sched.Verdict {
		if v, ok := panicVerdict(r); ok {
			return v
		}
		obs := sched.ThreadSummary(r)
		if extra != nil {
			obs += " " + extra()
		}
		return sched.Verdict{Obs: obs}
	}
}

func c14Scenarios() []c14Scenario {
	mc := func(name string, scripts [][][]string, setup func(s *redis.Server)) c14Scenario {
		return c14Scenario{Name: name, New: func() *sched.Run {
			w := &mcWorld{Scripts: scripts}
			w.Setup = func(m *mcWorld) {
				d := srv.NewDouble()
				catalogueDouble(d)
				m.Srv = srv.NewServer(d)
				if setup != nil {
					setup(m.Srv)
				}
			}
			return &sched.Run{Body: w.body, Verdict: c14Verdict(func() string { return repliesString(w.Replies) })}
		}}
	}
	var out []c14Scenario
	// S1: two clients CONFIG SET / CONFIG GET
	out = append(out, mc("S1-config-set-get", [][][]string{
		{{"CONFIG", "SET", "a", "1"}, {"CONFIG", "GET", "a"}},
		{{"CONFIG", "GET", "a"}, {"CONFIG", "SET", "b", "2", "a", "3"}},
	}, nil))
	// S2: a client connects (the accept path reads the configuration) while another CONFIG SETs
	out = append(out, mc("S2-connect-vs-config-set", [][][]string{
		{{"CONFIG", "SET", "requirepass", "pw"}, {"PING"}},
		{{"PING"}},
		{{"AUTH", "pw"}, {"GET", "k"}},
	}, nil))
	// S6: two clients running commands of every family against a race-free double
	fam := func(i int) [][]string {
		k := fmt.Sprintf("k%d", i)
		return [][]string{{"SET", k, "v"}, {"INCR", k}, {"MSET", k, "1", "j", "2"}, {"HMSET", k, "f", "v"}, {"LPUSH", k, "a"}, {"SADD", k, "m"}, {"ZADD", k, "1", "m"}, {"ZREVRANGE", k, "0", "-1"}, {"SELECT", "1"}, {"KEYS", "*"}, {"SCAN", "0", "MATCH", "a*"}, {"NOSUCH"}, {"QUIT"}}
	}
	out = append(out, mc("S6-all-families", [][][]string{fam(0), fam(1)}, nil))
	out = append(out, mc("S6b-auth", [][][]string{
		{{"AUTH", "pw"}, {"GET", "k0"}, {"AUTH", "bad"}},
		{{"GET", "k1"}, {"AUTH", "pw"}, {"GET", "k1"}},
	}, func(s *redis.Server) { s.SetRequirePass("pw") }))
	// S12/S13: an application goroutine uses the configuration API of the running server
	// (setters, getters, removal) while clients read and write the configuration -
	// literally and through patterns - and connect
	appCfg := func(name string, scripts [][][]string, app func(s *redis.Server)) c14Scenario {
		return c14Scenario{Name: name, New: func() *sched.Run {
			w := &mcWorld{Scripts: scripts}
			w.Setup = func(m *mcWorld) {
				d := srv.NewDouble()
				catalogueDouble(d)
				m.Srv = srv.NewServer(d)
				m.Srv.SetConfig("maxclients", "10")
			}
			w.Background = func(m *mcWorld) { app(m.Srv) }
			return &sched.Run{Body: w.body, Verdict: c14Verdict(func() string { return repliesString(w.Replies) })}
		}}
	}
	out = append(out, appCfg("S12-app-config-vs-config-commands", [][][]string{
		{{"CONFIG", "GET", "*"}, {"CONFIG", "GET", "max*"}, {"CONFIG", "GET", "x?z"}, {"CONFIG", "GET", "[xm]*"}},
		{{"CONFIG", "SET", "xyz", "1"}, {"CONFIG", "GET", "xyz"}, {"CONFIG", "GET", "maxclients", "port"}},
	}, func(s *redis.Server) {
		s.SetConfig("xyz", "2")
		s.AppendConfig("xyz", "3")
		s.ConfigString("xyz")
		s.ConfigInteger("maxclients")
		s.RemoveConfig("xyz")
		s.SetConfig("maxmemory", "0")
	}))
	out = append(out, appCfg("S13-app-server-config-vs-clients", [][][]string{
		{{"PING"}, {"CONFIG", "GET", "requirepass"}, {"CONFIG", "GET", "*pass"}},
		{{"AUTH", "pw"}, {"CONFIG", "GET", "port", "tls-port"}, {"GET", "k"}},
	}, func(s *redis.Server) {
		s.SetRequirePass("pw")
		s.ConfigRequirePass()
		s.ConfigPort()
		s.IsTLSPortEnabled()
		s.SetTLSPort(0)
		s.RemoveRequirePass()
		s.SetRequirePass("pw2")
	}))
	// S3: connect / disconnect of two clients while the harness enumerates the registry
	out = append(out, c14Scenario{Name: "S3-registry-queries", New: func() *sched.Run {
		var s *redis.Server
		seen := 0
		return &sched.Run{
			Body: func() {
				s = srv.NewServer(srv.NewDouble())
				if s.Start() != nil {
					return
				}
				for i := 0; i < 2; i++ {
					vrt.Go(fmt.Sprintf("client%d", i), func() {
						cl, o := sched.Dial(":6379")
						if o.Status != "ok" {
							return
						}
						cl.Do("PING")
						cl.Close()
					})
				}
				for i := 0; i < 3; i++ {
					for _, c := range s.Conns() {
						seen++
						s.ConnByUUID(c.UUID())
						c.Database()
						c.IsAuthrized()
						c.Timestamp()
					}
					vrt.Yield("harness-poll")
				}
			},
			Verdict: c14Verdict(func() string { return fmt.Sprint("seen=", seen) }),
		}
	}})
	// S8: two application goroutines enumerate the registry at the same time
	// (after a connect, so that whatever the enumeration caches was just
	// invalidated), while a further client connects and Stop enumerates internally
	enumerators := func(name string, withStop bool) c14Scenario {
		return c14Scenario{Name: name, New: func() *sched.Run {
			seen := 0
			return &sched.Run{
				Body: func() {
					s := srv.NewServer(srv.NewDouble())
					if s.Start() != nil {
						return
					}
					if cl, o := sched.Dial(":6379"); o.Status == "ok" {
						cl.Do("PING")
					}
					for i := 0; i < 2; i++ {
						vrt.Go(fmt.Sprintf("app%d", i), func() {
							for _, c := range s.Conns() {
								seen++
								s.ConnByUUID(c.UUID())
							}
						})
					}
					if withStop {
						s.Stop()
						return
					}
					vrt.Go("client1", func() {
						if cl, o := sched.Dial(":6379"); o.Status == "ok" {
							cl.Do("PING")
							cl.Close()
						}
					})
				},
				Verdict: c14Verdict(func() string { return fmt.Sprint("seen=", seen) }),
			}
		}}
	}
	out = append(out, enumerators("S8-two-enumerators", false), enumerators("S9-enumerators-vs-stop", true))
	// S10: clients that are already connected send connection-state commands (AUTH with one
	// and two arguments, SELECT) exactly while Stop / Restart closes their connections
	stateVsClose := func(name string, call func(s *redis.Server) error, password bool) c14Scenario {
		return c14Scenario{Name: name, New: func() *sched.Run {
			var outcomes []string
			return &sched.Run{
				Body: func() {
					s := srv.NewServer(srv.NewDouble())
					if password {
						s.SetRequirePass("pw")
					}
					if s.Start() != nil {
						return
					}
					var cls []*sched.Client
					for i := 0; i < 2; i++ {
						if cl, o := sched.Dial(":6379"); o.Status == "ok" {
							cl.Do("PING")
							cls = append(cls, cl)
						}
					}
					for i, cl := range cls {
						i, cl := i, cl
						vrt.Go(fmt.Sprintf("client%d", i), func() {
							var r sched.Outcome
							if i == 0 {
								r = cl.Do("AUTH", "pw")
							} else {
								r = cl.Do("AUTH", "user", "pw")
							}
							r2 := cl.Do("SELECT", "3")
							outcomes = append(outcomes, r.Status+r2.Status)
						})
					}
					outcomes = append(outcomes, fmt.Sprint("call:", call(s)))
				},
				Verdict: c14Verdict(func() string { sort.Strings(outcomes); return strings.Join(outcomes, ",") }),
			}
		}}
	}
	out = append(out, stateVsClose("S10-auth-vs-stop", func(s *redis.Server) error { return s.Stop() }, true),
		stateVsClose("S11-auth-vs-restart", func(s *redis.Server) error { return s.Restart() }, false))
	// S18/S19: connected clients CONFIG SET the parameters that Start itself reads (TLS files
	// and port, to the values they already have, so nothing changes) exactly while Restart /
	// Stop+Start reopens the listeners from the configuration
	startParamsVsReopen := func(name string, call func(s *redis.Server) error) c14Scenario {
		return c14Scenario{Name: name, New: func() *sched.Run {
			var outcomes []string
			return &sched.Run{
				Body: func() {
					kit, err := getKit()
					if err != nil {
						return
					}
					s := srv.NewServer(srv.NewDouble())
					s.SetTLSPort(6380)
					s.SetTLSCertFile(kit.ServerCert)
					s.SetTLSKeyFile(kit.ServerKey)
					s.SetTLSCaCertFile(kit.CAFile)
					if s.Start() != nil {
						return
					}
					var cls []*sched.Client
					for i := 0; i < 2; i++ {
						if cl, o := sched.Dial(":6379"); o.Status == "ok" {
							cl.Do("PING")
							cls = append(cls, cl)
						}
					}
					for i, cl := range cls {
						i, cl := i, cl
						vrt.Go(fmt.Sprintf("client%d", i), func() {
							var r, r2 sched.Outcome
							if i == 0 {
								r = cl.Do("CONFIG", "SET", "tls-cert-file", kit.ServerCert)
								r2 = cl.Do("CONFIG", "SET", "tls-key-file", kit.ServerKey)
							} else {
								r = cl.Do("CONFIG", "SET", "tls-ca-cert-file", kit.CAFile, "tls-port", "6380")
								r2 = cl.Do("CONFIG", "GET", "tls-cert-file", "port")
							}
							outcomes = append(outcomes, r.Status+r2.Status)
						})
					}
					outcomes = append(outcomes, fmt.Sprint("call:", call(s)))
				},
				Verdict: c14Verdict(func() string { sort.Strings(outcomes); return strings.Join(outcomes, ",") }),
			}
		}}
	}
	out = append(out, startParamsVsReopen("S18-config-set-start-parameters-vs-restart", func(s *redis.Server) error { return s.Restart() }),
		startParamsVsReopen("S19-config-set-start-parameters-vs-stop-start", func(s *redis.Server) error {
			if err := s.Stop(); err != nil {
				return err
			}
			return s.Start()
		}))
	// S14/S15: Stop / Restart sweeping three idle connections, two of which report an error
	// from Close (whatever the sweep does with the errors, in whatever goroutines)
	failingClose := func(name string, call func(s *redis.Server) error) c14Scenario {
		return c14Scenario{Name: name, New: func() *sched.Run {
			note := ""
			return &sched.Run{
				Body: func() {
					s := srv.NewServer(srv.NewDouble())
					if s.Start() != nil {
						return
					}
					for i := 0; i < 3; i++ {
						cl, o := sched.Dial(":6379")
						if o.Status != "ok" {
							return
						}
						cl.Do("PING")
						if i != 1 {
							cl.Raw().Peer().CloseErr = errors.New("failed to send closeNotify alert (but connection was closed anyway)")
						}
					}
					if err := call(s); err != nil {
						note = "error reported"
					}
				},
				Verdict: c14Verdict(func() string { return note }),
			}
		}}
	}
	out = append(out, failingClose("S14-stop-with-failing-closes", func(s *redis.Server) error { return s.Stop() }))
	out = append(out, failingClose("S15-restart-with-failing-closes", func(s *redis.Server) error { return s.Restart() }))
	// S4: Stop concurrent with a client mid-command and a client connecting
	lifecycle := func(name string, call func(s *redis.Server) error, idleFirst bool) c14Scenario {
		return c14Scenario{Name: name, New: func() *sched.Run {
			var outcomes []string
			return &sched.Run{
				Body: func() {
					s := srv.NewServer(srv.NewDouble())
					if s.Start() != nil {
						return
					}
					var idle *sched.Client
					if idleFirst {
						idle, _ = sched.Dial(":6379")
						if idle != nil {
							idle.Do("PING")
						}
					}
					for i := 0; i < 2; i++ {
						i := i
						vrt.Go(fmt.Sprintf("client%d", i), func() {
							cl, o := sched.Dial(":6379")
							if o.Status != "ok" {
								outcomes = append(outcomes, "refused")
								return
							}
							r := cl.Do("SET", fmt.Sprintf("k%d", i), "v")
							r2 := cl.Do("CONFIG", "GET", "port")
							r3 := cl.Do("AUTH", "pw")
							outcomes = append(outcomes, r.String()+r2.String()+r3.String())
							cl.Close()
						})
					}
					err := call(s)
					outcomes = append(outcomes, fmt.Sprint("call:", err))
					if idle != nil {
						idle.Recv()
					}
				},
				Verdict: c14Verdict(func() string { sort.Strings(outcomes); return strings.Join(outcomes, ",") }),
			}
		}}
	}
	// S7: the TLS accept path (real handshake) concurrent with Stop and with CONFIG SET
	out = append(out, c14Scenario{Name: "S7-tls-accept-vs-stop", New: func() *sched.Run {
		var outcomes []string
		return &sched.Run{
			Body: func() {
				kit, err := getKit()
				if err != nil {
					return
				}
				s := srv.NewServer(srv.NewDouble())
				s.SetTLSPort(6380)
				s.SetTLSCertFile(kit.ServerCert)
				s.SetTLSKeyFile(kit.ServerKey)
				s.SetTLSCaCertFile(kit.CAFile)
				if s.Start() != nil {
					return
				}
				for i := 0; i < 2; i++ {
					i := i
					vrt.Go(fmt.Sprintf("client%d", i), func() {
						raw, err := vrt.Dial(":6380")
						if err != nil {
							outcomes = append(outcomes, "refused")
							return
						}
						tc := tls.Client(raw, kit.clientTLSConfig(kit.Clients["valid"]))
						if tc.Handshake() != nil {
							outcomes = append(outcomes, "handshake-failed")
							raw.Close()
							return
						}
						cl := sched.Wrap(tc, raw)
						r := cl.Do("CONFIG", "SET", fmt.Sprintf("k%d", i), "v")
						outcomes = append(outcomes, r.String())
						tc.Close()
					})
				}
				err = s.Stop()
				outcomes = append(outcomes, fmt.Sprint("stop:", err != nil))
			},
			Verdict: c14Verdict(func() string { sort.Strings(outcomes); return strings.Join(outcomes, ",") }),
		}
	}})
	// S16: an application goroutine enumerates the registry and reads every accessor of every
	// connection while TLS clients are between connect, handshake and their first command
	out = append(out, c14Scenario{Name: "S16-registry-accessors-vs-tls-handshake", New: func() *sched.Run {
		seen := 0
		return &sched.Run{
			Body: func() {
				kit, err := getKit()
				if err != nil {
					return
				}
				s := srv.NewServer(srv.NewDouble())
				s.SetTLSPort(6380)
				s.SetTLSCertFile(kit.ServerCert)
				s.SetTLSKeyFile(kit.ServerKey)
				s.SetTLSCaCertFile(kit.CAFile)
				if s.Start() != nil {
					return
				}
				for i := 0; i < 2; i++ {
					vrt.Go(fmt.Sprintf("client%d", i), func() {
						raw, err := vrt.Dial(":6380")
						if err != nil {
							return
						}
						// a slow client: it sends its ClientHello only when everything else has come to
						// rest (the server has registered the connection and waits in the handshake)
						raw.ReadOrQuiet(make([]byte, 1))
						tc := tls.Client(raw, kit.clientTLSConfig(kit.Clients["valid"]))
						if tc.Handshake() != nil {
							raw.Close()
							return
						}
						sched.Wrap(tc, raw).Do("PING")
						// stays connected: the application looks at it below
					})
				}
				for i := 0; i < 3; i++ {
					vrt.WaitQuiet() // the clients are connected and slow to start, in the handshake, or served
					for _, c := range s.Conns() {
						seen++
						c.IsTLSConnection()
						c.TLSConnectionState()
						c.UserName()
						c.Password()
						c.Database()
						c.IsAuthrized()
						c.Timestamp()
						c.UUID()
						// not SpanContext(): the span context is the working state of the connection's own
						// loop (rewritten for every request), not something a registry query reads
					}
					vrt.Yield("application-poll")
				}
			},
			Verdict: c14Verdict(func() string { return fmt.Sprint("seen=", seen) }),
		}
	}})
	// S17: the bundled example store behind two clients working on the same keys, one of them
	// wrapping its requests in an extra array level (nested command arrays are unwrapped and
	// executed like flat ones)
	out = append(out, c14Scenario{Name: "S17-example-store-flat-and-nested-requests", New: func() *sched.Run {
		var outcomes []string
		return &sched.Run{
			Body: func() {
				// the handler of the second server stands for any application store that relies on the
				// framework executing one command at a time: every handler call writes one shared word
				canary := new(int)
				d := srv.NewDouble()
				d.OnCall = func(conn *redis.Conn, c srv.Call) {
					vrt.Access(unsafe.Pointer(canary), "application store (relies on one command at a time)", "handler."+c.Method, true)
					*canary++
				}
				ds := srv.NewServer(d)
				ds.SetPort(6390)
				if ds.Start() != nil {
					return
				}
				ex := exsrv.NewServer()
				if ex.Start() != nil {
					return
				}
				for i := 0; i < 2; i++ {
					i := i
					vrt.Go(fmt.Sprintf("dclient%d", i), func() {
						cl, o := sched.Dial(":6390")
						if o.Status != "ok" {
							return
						}
						for _, r := range [][]string{{"SET", "k", "v"}, {"INCR", "n"}, {"MSET", "a", "1", "b", "2"}} {
							b := resp.Cmd(r...).Bytes()
							if i == 1 {
								b = append([]byte("*1\r\n"), b...)
							}
							cl.Send(b)
							outcomes = append(outcomes, cl.Recv().Status)
						}
						cl.Close()
					})
				}
				reqs := [][]string{{"RPUSH", "l", "x"}, {"INCR", "n"}, {"HSET", "h", "f", "v"}, {"SADD", "s", "m"}, {"ZADD", "z", "1", "m"}, {"EXPIRE", "l", "100"}, {"LRANGE", "l", "0", "-1"}}
				for i := 0; i < 2; i++ {
					i := i
					vrt.Go(fmt.Sprintf("client%d", i), func() {
						cl, o := sched.Dial(":6379")
						if o.Status != "ok" {
							return
						}
						for _, r := range reqs {
							b := resp.Cmd(r...).Bytes()
							if i == 1 {
								b = append([]byte("*1\r\n"), b...)
							}
							cl.Send(b)
							outcomes = append(outcomes, cl.Recv().Status)
						}
						cl.Close()
					})
				}
			},
			Verdict: c14Verdict(func() string { return strings.Join(outcomes, ",") }),
		}
	}})
	out = append(out, lifecycle("S4-stop-vs-clients", func(s *redis.Server) error { return s.Stop() }, false))
	out = append(out, lifecycle("S5-restart-with-idle-client", func(s *redis.Server) error { return s.Restart() }, true))
	out = append(out, lifecycle("S5b-restart-with-new-password", func(s *redis.Server) error { s.SetRequirePass("pw"); return s.Restart() }, true))
	return out
}

// c14Framework reports whether a race concerns framework state (both sites in
// the framework packages; the example store's own types are not part of C14).
func c14Framework(r vrt.Race) bool {
	for _, t := range []string{"Record.", "List.", "Set.", "ZSet.", "Hash.", "Database.", "Databases.", "Records."} {
		if strings.HasPrefix(r.Loc, t) {
			return false
		}
	}
	return true
}

func c14Run(c *fw.Ctx) {
	defer cleanupKit()
	bound := 2
	if c.Thorough() {
		bound = 3
	}
	for _, sc := range c14Scenarios() {
		racy := map[string]bool{}
		for round := 1; round <= 3; round++ {
			x := &sched.Explorer{New: sc.New, Bound: bound, RaceDetect: true, Racy: racy}
			x.ShardDepth = 1
			x.Owned = c.Mine
			x.Expired = c.Expired
			sched.SharedCounter = func() bool { return c.Shard == 0 }
			firstSched := map[string][]int{}
			x.OnExec = func(choices []int, r *vrt.Result, v sched.Verdict) {
				c.Eval()
				if strings.HasPrefix(v.Obs, "HARNESS-PANIC") {
					c.HarnessError("C14 %s %s", sc.Name, v.Obs)
				}
				if v.Clause != "" {
					c.Violation("C14|"+sc.Name+"|"+v.Clause, v.Detail, c14Case{Scenario: sc.Name, Choices: choices})
				}
				for _, rc := range r.Races {
					k := rc.Loc + "|" + rc.SiteA + "|" + rc.SiteB
					if _, ok := firstSched[k]; !ok {
						firstSched[k] = choices
					}
				}
				if c.WantSample() && len(choices) > 3 {
					c.Sample(map[string]any{"scenario": sc.Name, "schedule": choices, "threads": sched.ThreadSummary(r)})
				}
			}
			x.Explore()
			schedAccount(c, x, sc.Name+fmt.Sprint("|round", round))
			grew := false
			for k, rc := range x.Stats.Races {
				if !c14Framework(rc) {
					continue
				}
				var rs []string
				for l := range racy {
					rs = append(rs, l)
				}
				sort.Strings(rs)
				c.Violation("C14|race|"+rc.SiteA+" <-> "+rc.SiteB, fmt.Sprintf("data race on %s: %s and %s are not ordered by happens-before (%s); first seen in scenario %s schedule %v", rc.Loc, rc.SiteA, rc.SiteB, rc.Kind, sc.Name, firstSched[k]), c14Case{Scenario: sc.Name, Choices: firstSched[k], Racy: rs})
				if !racy[rc.Loc] {
					racy[rc.Loc] = true
					grew = true
				}
			}
			c.Count("racy_set_rounds", 1)
			if !grew {
				break
			}
			// next round: accesses to the racy locations become scheduling points
			next := map[string]bool{}
			for l := range racy {
				next[l] = true
			}
			racy = next
		}
	}
}

func c14Replay(raw json.RawMessage) (string, bool, error) {
	var cs c14Case
	if err := json.Unmarshal(raw, &cs); err != nil {
		return "", false, err
	}
	for _, sc := range c14Scenarios() {
		if sc.Name != cs.Scenario {
			continue
		}
		racy := map[string]bool{}
		for _, l := range cs.Racy {
			racy[l] = true
		}
		run := sc.New()
		r := vrt.Run(vrt.Options{Choices: cs.Choices, RaceDetect: true, Racy: racy}, run.Body, run.AtQuiet)
		if r.Diverged != "" {
			return "", false, fmt.Errorf("schedule does not replay: %s", r.Diverged)
		}
		var races []string
		viol := false
		for _, rc := range r.Races {
			if c14Framework(rc) {
				races = append(races, rc.String())
				viol = true
			}
		}
		v := run.Verdict(r)
		return fmt.Sprintf("scenario=%s schedule=%v races=%v clause=%q threads=%s", cs.Scenario, cs.Choices, races, v.Clause, sched.ThreadSummary(r)), viol || v.Clause != "", nil
	}
	return "", false, fmt.Errorf("unknown scenario %s", cs.Scenario)
}

func init() {
	fw.Register(&fw.Prop{
		ID:    "C14",
		Level: "model_checking",
		Rule:  "21 scenarios on the real Start/accept loop/connection goroutines over the in-memory network: two clients doing CONFIG SET/GET; a client connecting while another CONFIG SETs requirepass; two clients running a command of every executor family (and AUTH sequences) against a race-free double; two clients connecting/disconnecting while the harness enumerates the registry (Conns, ConnByUUID, connection accessors); Stop concurrent with clients mid-command and connecting; Restart with an idle client; Restart after SetRequirePass; two TLS clients (real handshake) doing CONFIG SET while Stop runs; two application goroutines enumerating the registry at once right after a connect, with a further client connecting or with Stop running; two connected clients sending AUTH (one- and two-argument) and SELECT while Stop / Restart closes their connections; an application goroutine calling the configuration API (SetConfig, AppendConfig, RemoveConfig, ConfigString, SetRequirePass, RemoveRequirePass, SetTLSPort, ...) while two clients read the configuration literally and through patterns, write it, connect and authenticate; Stop / Restart sweeping connections whose Close reports an error; two connected clients CONFIG SETting the parameters Start reads (tls-cert-file, tls-key-file, tls-ca-cert-file, tls-port, to their current values) while Restart or Stop+Start reopens the listeners; an application goroutine reading every accessor of every registered connection while TLS clients handshake; two clients on the same keys of the bundled example store, one with flat and one with nested command arrays. A handler that writes one shared word on every call stands for any application store relying on one command at a time: handler calls not ordered by happens-before are reported. Local variables shared with a goroutine through a closure started by a go statement are instrumented like fields. Every schedule within deviation bound 2 (thorough 3) is executed with every field access of the instrumented framework feeding a vector-clock happens-before oracle (edges: go, mutex/RWMutex release-acquire, sync.Map per key, connection write->read, dial->accept, close->EOF/error; scheduler hand-offs are NOT edges); locations found racy become scheduling points and the exploration is repeated until the racy set is stable. A race is an unordered pair of access sites on one location with at least one write; a WaitGroup's first increment from zero and a blocking Wait count as read and write of one location, as in the Go race detector.",
		Assumptions: []string{
			"setters documented as pre-start configuration (SetTracer, SetCommandHandler, RegisterExexutor, SetPort) are called before Start only; SetRequirePass before Restart is called by the lifecycle thread between Stop-free calls as the repository's own tests do",
			"the race-detector stress with 2..32 clients is replaced by exhaustive small scenarios: a race is a pair of accesses, two contending threads exhibit it",
			"network operations are modelled as happens-before edges per connection (causal), which is coarser for the oracle than the Go memory model and finer than the race detector's global I/O edge",
		},
		Run:    c14Run,
		Replay: c14Replay,
		Budget: func(tier string) time.Duration {
			if tier == "thorough" {
				return 25 * time.Minute
			}
			return 4 * time.Minute
		},
		Finish: schedFinish,
	})
}
