package props

import (
	"fmt"
	"verif/fw"

	"github.com/cybergarage/go-redis/vrt"
	"verif/seq"

	"github.com/cybergarage/go-redis/redis/proto"
	"verif/resp"
)

// toProto builds the library's message object for a value tree using only the
// exported constructors/setters of redis/proto.
func toProto(v resp.Value) *proto.Message {
	switch v.Kind {
	case resp.Status:
		return proto.NewMessageWithType(proto.StringMessage).SetBytes(cp(v.Data))
	case resp.Error:
		return proto.NewMessageWithType(proto.ErrorMessage).SetBytes(cp(v.Data))
	case resp.Integer:
		return proto.NewMessageWithType(proto.IntegerMessage).SetBytes(cp(v.Data))
	case resp.Bulk:
		if v.Null {
			return proto.NewMessageWithType(proto.BulkMessage).SetBytes(nil)
		}
		return proto.NewMessageWithType(proto.BulkMessage).SetBytes(cp(v.Data))
	case resp.Array:
		arr := proto.NewArray()
		for _, e := range v.Elems {
			arr.Append(toProto(e))
		}
		return proto.NewMessageWithType(proto.ArrayMessage).SetArray(arr)
	}
	panic("bad kind")
}

func cp(b []byte) []byte {
	out := make([]byte, len(b))
	copy(out, b)
	return out
}

// fromProto converts a parsed library message into a value tree. absent is
// set when an array holds an absent (nil) element.
func fromProto(m *proto.Message, depth int) (v resp.Value, absent bool, err error) {
	if m == nil {
		return resp.Value{}, true, nil
	}
	if depth > 1000 {
		return resp.Value{}, false, fmt.Errorf("too deep")
	}
	switch m.Type {
	case proto.StringMessage, proto.ErrorMessage, proto.IntegerMessage:
		b, _ := m.Bytes()
		k := resp.Status
		if m.Type == proto.ErrorMessage {
			k = resp.Error
		} else if m.Type == proto.IntegerMessage {
			k = resp.Integer
		}
		return resp.Value{Kind: k, Data: cp(b)}, false, nil
	case proto.BulkMessage:
		if m.IsNil() {
			return resp.Nil(), false, nil
		}
		b, _ := m.Bytes()
		return resp.Value{Kind: resp.Bulk, Data: cp(b)}, false, nil
	case proto.ArrayMessage:
		arr, aerr := m.Array()
		if aerr != nil {
			return resp.Value{}, false, aerr
		}
		if arr == nil {
			return resp.Value{}, false, fmt.Errorf("array message without array")
		}
		out := resp.Value{Kind: resp.Array, Elems: []resp.Value{}}
		n := arr.Size()
		for i := 0; i < n; i++ {
			e, nerr := arr.Next()
			if nerr != nil {
				return resp.Value{}, false, nerr
			}
			if e == nil {
				absent = true
				out.Elems = append(out.Elems, resp.Value{Kind: resp.Bulk, Null: true})
				continue
			}
			ev, ab, cerr := fromProto(e, depth+1)
			if cerr != nil {
				return resp.Value{}, false, cerr
			}
			absent = absent || ab
			out.Elems = append(out.Elems, ev)
		}
		return out, absent, nil
	}
	return resp.Value{}, false, fmt.Errorf("unknown message type %d", m.Type)
}

func init() {
	seq.OnTransport = vrt.ResetTicks
	seq.OnDelivered = vrt.SeqDelivered
	seq.OnNewConn = vrt.ResetSeqAllowance
	fw.Poisoned = vrt.WatchdogFired
}

// guard runs f (with a fresh loop-iteration budget) and converts a panic into a string.
func guard(f func()) (panicked string) {
	vrt.ResetTicks()
	defer func() {
		if r := recover(); r != nil {
			panicked = fmt.Sprint(r)
		}
	}()
	f()
	return ""
}

func trunc(b []byte, n int) string {
	if len(b) <= n {
		return fmt.Sprintf("%q", b)
	}
	return fmt.Sprintf("%q...(%d bytes)", b[:n], len(b))
}
