package props

import (
	"fmt"
	"strings"

	"github.com/cybergarage/go-redis/redis"
	"github.com/cybergarage/go-redis/vrt"
	"verif/sched"
)

// mcWorld is the shared multi-client SCHED scenario: the real server started
// with Start() over the in-memory network and N scripted client threads.
type mcWorld struct {
	Srv      *redis.Server
	Scripts  [][][]string
	Replies  [][]sched.Outcome
	Dialed   []string
	Setup    func(w *mcWorld)
	StartErr error
	// Reconnect[i] > 0: client i closes and re-dials before request index Reconnect[i].
	Reconnect []int
	// AfterReply is called in the client's thread after each reply.
	AfterReply func(client, idx int, o sched.Outcome)
	// AfterAll is run by the harness thread once every client is done or parked.
	AfterAll func()
	// BeforeSend is called in the client's thread right before a request is sent.
	BeforeSend func(client, idx int)
	// OnReconnect is called in the client's thread right after it re-dialled.
	OnReconnect func(client int)
	// Background, if set, runs as one more thread next to the clients.
	Background func(w *mcWorld)
	Port       string
	clients    []*sched.Client
	Notes      []string
}

func (w *mcWorld) body() {
	if w.Port == "" {
		w.Port = "6379"
	}
	w.Replies = make([][]sched.Outcome, len(w.Scripts))
	w.Dialed = make([]string, len(w.Scripts))
	w.clients = make([]*sched.Client, len(w.Scripts))
	if w.Setup != nil {
		w.Setup(w)
	}
	if err := w.Srv.Start(); err != nil {
		w.StartErr = err
		return
	}
	for i := range w.Scripts {
		i := i
		vrt.Go(fmt.Sprintf("client%d", i), func() {
			cl, o := sched.Dial(":" + w.Port)
			w.Dialed[i] = o.Status
			if o.Status != "ok" {
				return
			}
			w.clients[i] = cl
			for j, cmd := range w.Scripts[i] {
				if len(w.Reconnect) > i && w.Reconnect[i] == j && j > 0 {
					cl.Close()
					cl, o = sched.Dial(":" + w.Port)
					if o.Status != "ok" {
						w.Dialed[i] = "re-" + o.Status
						return
					}
					w.clients[i] = cl
					if w.OnReconnect != nil {
						w.OnReconnect(i)
					}
				}
				if w.BeforeSend != nil {
					w.BeforeSend(i, j)
				}
				r := cl.Do(cmd...)
				w.Replies[i] = append(w.Replies[i], r)
				if w.AfterReply != nil {
					w.AfterReply(i, j, r)
				}
				if r.Status != "ok" {
					break
				}
			}
			cl.Close()
		})
	}
	if w.Background != nil {
		vrt.Go("background", func() { w.Background(w) })
	}
	if w.AfterAll != nil {
		vrt.WaitQuiet()
		w.AfterAll()
	}
}

// panicVerdict returns a verdict if any managed thread ended by a panic.
func panicVerdict(r *vrt.Result) (sched.Verdict, bool) {
	for _, t := range r.Threads {
		if t.Panic != "" {
			site := t.Stack
			if i := strings.Index(site, " <- "); i > 0 {
				site = site[:i]
			}
			if t.ID == 0 || strings.HasPrefix(t.Name, "client") || t.Name == "pinger" {
				return sched.Verdict{Clause: "", Detail: "", Obs: "HARNESS-PANIC " + t.Panic + " " + t.Stack}, true
			}
			return sched.Verdict{Clause: "panic@" + site, Detail: fmt.Sprintf("goroutine %q ended by panic (process abort): %s [%s]", t.Name, t.Panic, t.Stack), Obs: "panic"}, true
		}
	}
	return sched.Verdict{}, false
}

func repliesString(rs [][]sched.Outcome) string {
	var parts []string
	for i, l := range rs {
		var p []string
		for _, o := range l {
			p = append(p, o.String())
		}
		parts = append(parts, fmt.Sprintf("c%d:[%s]", i, strings.Join(p, " ")))
	}
	return strings.Join(parts, " ")
}
