package props

import (
	"crypto/tls"
	"encoding/json"
	"errors"
	"fmt"
	"strings"
	"time"

	"github.com/cybergarage/go-redis/redis"
	"github.com/cybergarage/go-redis/vrt"
	"verif/fw"
	"verif/sched"
	"verif/srv"
)

// C15: Start/Stop/Restart leave the server in the state the call promises.

type c15Case struct {
	Program string `json:"program"` // S=Start T=Stop R=Restart p=client ping+close i=client ping+stay idle P=concurrent client during the next call; q/j/Q = the same over the TLS port
	TLS     bool   `json:"tls,omitempty"`
	Choices []int  `json:"choices,omitempty"`
	Bound   int    `json:"bound,omitempty"`
}

const c15Port = "6379"

type c15World struct {
	tlsOnly bool   // the plain port is disabled
	inCall  string // the lifecycle call the harness thread is inside ("" between calls)
	waiting string // the harness thread waits for the reply to a PING of an idle connection (step w)
	tls     bool
	kit     *tlsKit
	prog    string
	srv     *redis.Server
	double  *srv.Double
	running bool
	events  []string // violations noticed by the harness thread
	idle    []*c15Idle
	pingers []*c15Pinger
	stops   int
	notes   []string
}

type c15Idle struct {
	cl        *sched.Client
	stopsSeen int // number of Stop phases completed when it connected
}

type c15Pinger struct {
	dialed  bool
	outcome string
	cl      *sched.Client
	during  byte
}

func (w *c15World) fail(clause, detail string) {
	w.events = append(w.events, clause+"\x00"+detail)
}

func (w *c15World) body() {
	w.double = srv.NewDouble()
	w.srv = srv.NewServer(w.double)
	w.srv.SetPort(6379)
	if w.tlsOnly {
		w.srv.SetPort(0)
	}
	if w.tls {
		kit, err := getKit()
		if err != nil {
			w.fail("harness", "certificate kit: "+err.Error())
			return
		}
		w.kit = kit
		w.srv.SetTLSPort(6380)
		w.srv.SetTLSCertFile(kit.ServerCert)
		w.srv.SetTLSKeyFile(kit.ServerKey)
		w.srv.SetTLSCaCertFile(kit.CAFile)
	}
	_ = c15Port
	var pending *c15Pinger
	for i := 0; i < len(w.prog); i++ {
		step := w.prog[i]
		pos := fmt.Sprintf("step %d (%c) of %s", i, step, w.prog)
		switch step {
		case 'S':
			w.inCall = pos + ": Start"
			err := w.srv.Start()
			w.inCall = ""
			if w.running {
				if err == nil {
					w.fail("second-start-succeeded", pos+": Start on a running server returned nil")
				}
			} else {
				if err != nil {
					w.fail("start-failed", pos+": Start returned "+err.Error())
				} else {
					w.running = true
				}
			}
		case 'T':
			// Stop may report an error (e.g. a TLS close notification that could not
			// be sent); the statement is about the state after Stop returned, which is
			// judged at the end whatever Stop returned.
			w.inCall = pos + ": Stop"
			err := w.srv.Stop()
			w.inCall = ""
			if err != nil {
				w.notes = append(w.notes, pos+": Stop returned "+err.Error())
			}
			w.running = false
			w.stops++
		case 'R':
			w.inCall = pos + ": Restart"
			err := w.srv.Restart()
			w.inCall = ""
			w.stops++
			if err != nil {
				// only a Restart that returns WITHOUT error promises a serving
				// server; after an error the stopped-state promises are checked
				w.notes = append(w.notes, pos+": Restart returned "+err.Error())
				w.running = false
			} else {
				w.running = true
			}
		case 'd':
			// the application disables the plain port in the configuration while the server
			// runs; the listener stays until Stop, which must still release it
			w.srv.SetPort(0)
		case 'e':
			w.srv.SetTLSPort(0)
		case 'p', 'i', 'q', 'j', 'k':
			// k: like i, but the server's Close of this connection will close it and report an
			// error (what crypto/tls does when the close notification cannot be sent)
			cl, o := w.connect(step == 'q' || step == 'j')
			if !w.running {
				if o.Status != "refused" {
					w.fail("port-open-after-stop", pos+": dial to the stopped server was not refused")
					if cl != nil {
						cl.Close()
					}
				}
				continue
			}
			if o.Status != "ok" {
				w.fail("not-serving:dial-refused", pos+": Start/Restart returned nil but a dial is refused")
				continue
			}
			r := cl.Do("PING")
			if r.Status != "ok" || string(r.Reply.Data) != "PONG" {
				w.fail("not-serving:ping-"+r.Status, pos+": Start/Restart returned nil, the dial was queued but PING got "+r.String())
				cl.Close()
				continue
			}
			if step == 'k' {
				cl.Raw().Peer().CloseErr = errors.New("failed to send closeNotify alert (but connection was closed anyway)")
			}
			if step == 'p' || step == 'q' {
				cl.Close()
			} else {
				w.idle = append(w.idle, &c15Idle{cl: cl, stopsSeen: w.stops})
			}
		case 'w':
			// an hour passes on the (logical) clock, then every idle connection of the running
			// server sends a PING: it is served until Stop is called, however old it is
			vrt.Advance(time.Hour)
			if !w.running {
				continue
			}
			for n, c := range w.idle {
				if c.stopsSeen != w.stops || c.cl.Raw().PeerClosed() || c.cl.Raw().ClosedLocally() {
					continue
				}
				w.waiting = fmt.Sprintf("%s: idle connection #%d, connected an hour ago, sent PING", pos, n)
				r := c.cl.Do("PING")
				w.waiting = ""
				if r.Status != "ok" || string(r.Reply.Data) != "PONG" {
					w.fail("not-serving:idle-connection-ping-"+r.Status, fmt.Sprintf("%s: idle connection #%d, connected an hour ago, sent PING and got %s although Stop was not called", pos, n, r.String()))
				}
			}
		case 'x', 'y':
			// a TLS client whose handshake fails: x sends something that is no handshake,
			// y presents a certificate the server does not trust; both then go away
			raw, err := vrt.Dial(":6380")
			if !w.running {
				if err == nil {
					w.fail("port-open-after-stop", pos+": dial to the stopped server was not refused")
					raw.Close()
				}
				continue
			}
			if err != nil {
				w.fail("not-serving:dial-refused", pos+": Start/Restart returned nil but a dial to the TLS port is refused")
				continue
			}
			if step == 'x' {
				raw.Write([]byte(strings.Repeat("\x16\x03\x01junk!", 6)))
				raw.ReadOrQuiet(make([]byte, 128))
			} else {
				tls.Client(raw, w.kit.clientTLSConfig(w.kit.Clients["self-signed"])).Handshake()
			}
			raw.Close()
			vrt.WaitQuiet()
		case 'P', 'Q':
			overTLS := step == 'Q'
			p := &c15Pinger{}
			if i+1 < len(w.prog) {
				p.during = w.prog[i+1]
			}
			w.pingers = append(w.pingers, p)
			pending = p
			vrt.Go("pinger", func() {
				cl, o := w.connect(overTLS)
				if o.Status != "ok" {
					p.outcome = "refused"
					return
				}
				p.dialed = true
				p.cl = cl
				r := cl.Do("PING")
				p.outcome = r.String()
				if r.Status == "ok" {
					// stay connected: a later Stop must close us
					r2 := cl.Recv()
					p.outcome += " then " + r2.String()
				}
			})
		}
		_ = pending
	}
}

// connect dials the plain or the TLS port; over TLS the real handshake is run.
func (w *c15World) connect(overTLS bool) (*sched.Client, sched.Outcome) {
	if !overTLS {
		return sched.Dial(":" + c15Port)
	}
	raw, err := vrt.Dial(":6380")
	if err != nil {
		return nil, sched.Outcome{Status: "refused", Err: err.Error()}
	}
	tc := tls.Client(raw, w.kit.clientTLSConfig(w.kit.Clients["valid"]))
	if err := tc.Handshake(); err != nil {
		raw.Close()
		return nil, sched.Outcome{Status: "handshake-failed", Err: err.Error()}
	}
	return sched.Wrap(tc, raw), sched.Outcome{Status: "ok"}
}

func (w *c15World) atQuiet(e *vrt.Exec) {
	if w.waiting != "" {
		// a TLS client reads through crypto/tls and parks for good when no reply comes
		w.fail("not-serving:idle-connection-unanswered", w.waiting+" and never got a reply although Stop was not called")
		return
	}
	if w.inCall != "" {
		parked := ""
		for _, t := range e.ThreadStates() {
			if t.ID == 0 {
				parked = t.Parked
			}
		}
		w.fail("call-did-not-return", w.inCall+" never returned: the calling goroutine is parked at "+parked+" and nothing can wake it")
		return
	}
	// (b)/(c): judged at final quiescence
	conns := len(w.srv.Conns())
	if !w.running {
		if e.PortBound(c15Port) || (w.tls && e.PortBound("6380")) {
			w.fail("port-still-bound-after-stop", "Stop returned but a port cannot be bound again (an unclosed listener holds it)")
		}
		for _, t := range e.ThreadStates() {
			if t.ID == 0 || t.Name == "pinger" || t.Finished {
				continue
			}
			w.fail("server-goroutine-alive-after-stop", fmt.Sprintf("after Stop returned, server goroutine %q is still alive, parked at %s", sched.ThreadSummaryName(t.Name), t.Parked))
		}
		if conns != 0 {
			w.fail("registry-not-empty-after-stop", fmt.Sprintf("after Stop returned the registry holds %d connection(s)", conns))
		}
		for _, c := range w.idle {
			if !c.cl.Raw().PeerClosed() {
				w.fail("client-not-closed-after-stop", "an idle client connection opened before Stop is still open on the server side")
			}
		}
		for _, p := range w.pingers {
			if p.dialed && !p.cl.Raw().PeerClosed() {
				w.fail("client-not-closed-after-stop", "a connection accepted while Stop was running is still open after Stop returned (outcome: "+p.outcome+")")
			}
		}
	} else {
		live := 0
		for _, c := range w.idle {
			if c.stopsSeen == w.stops && !c.cl.Raw().PeerClosed() {
				live++
			}
		}
		for _, p := range w.pingers {
			if p.dialed && !p.cl.Raw().PeerClosed() && !p.cl.Raw().ClosedLocally() && p.cl.Raw().Peer().ReadCalls > 0 {
				live++
			}
		}
		if conns != live {
			w.fail("registry-mismatch-while-running", fmt.Sprintf("the registry holds %d connection(s) but %d client connection(s) are being served", conns, live))
		}
		for _, c := range w.idle {
			if c.stopsSeen < w.stops && !c.cl.Raw().PeerClosed() {
				w.fail("client-not-closed-after-stop", "an idle client connection opened before a Stop/Restart is still open on the server side")
			}
		}
		accepting := false
		for _, t := range e.ThreadStates() {
			if !t.Finished && strings.HasPrefix(t.Parked, "Accept:"+c15Port) {
				accepting = true
			}
		}
		if !accepting && !w.tlsOnly {
			w.fail("no-accept-loop-while-running", "Start/Restart returned nil but no goroutine is accepting on port "+c15Port)
		}
		if w.tls {
			acc := false
			for _, t := range e.ThreadStates() {
				if !t.Finished && strings.HasPrefix(t.Parked, "Accept:6380") {
					acc = true
				}
			}
			if !acc {
				w.fail("no-accept-loop-while-running", "Start/Restart returned nil but no goroutine is accepting on the TLS port")
			}
		}
	}
}

func c15Explorer(prog string, bound int) (*sched.Explorer, *[]*c15World) {
	var worlds []*c15World
	// a leading M: the execution also runs under the happens-before oracle and a data race on
	// the contents of a map counts as a verdict (the Go runtime aborts the process on
	// concurrent map access: the server stops serving); a leading X: the plain port is
	// disabled (TLS-only server)
	mapRaces := strings.HasPrefix(prog, "M")
	prog = strings.TrimPrefix(prog, "M")
	x := &sched.Explorer{Bound: bound, RaceDetect: mapRaces}
	x.New = func() *sched.Run {
		w := &c15World{prog: strings.TrimPrefix(prog, "X"), tls: strings.ContainsAny(prog, "qjQxy"), tlsOnly: strings.HasPrefix(prog, "X")}
		worlds = append(worlds[:0], w)
		return &sched.Run{
			Body:    w.body,
			AtQuiet: w.atQuiet,
			Verdict: func(r *vrt.Result) sched.Verdict {
				for _, t := range r.Threads {
					if t.Panic != "" {
						site := t.Stack
						if i := strings.Index(site, " <- "); i > 0 {
							site = site[:i]
						}
						return sched.Verdict{Clause: "panic@" + site, Detail: fmt.Sprintf("goroutine %q ended by panic (process abort): %s [%s]", t.Name, t.Panic, t.Stack), Obs: "panic"}
					}
				}
				for _, rc := range r.Races {
					if strings.HasSuffix(rc.Loc, "[]") {
						return sched.Verdict{Clause: "concurrent-map-access", Detail: "unsynchronised concurrent access to the contents of a map (the Go runtime aborts the process with 'concurrent map writes' / 'concurrent map read and map write', the server stops serving): " + rc.String(), Obs: "map-race"}
					}
				}
				obs := fmt.Sprintf("running=%v conns=%d %s", w.running, len(w.idle), sched.ThreadSummary(r))
				if len(w.events) > 0 {
					parts := strings.SplitN(w.events[0], "\x00", 2)
					return sched.Verdict{Clause: parts[0], Detail: parts[1], Obs: obs + " V:" + parts[0]}
				}
				return sched.Verdict{Obs: obs}
			},
		}
	}
	return x, &worlds
}

// c15Programs enumerates lifecycle programs of up to maxCalls calls.
func c15Programs(maxCalls int, concurrent bool) []string {
	var out []string
	var rec func(cur string, calls int)
	rec = func(cur string, calls int) {
		if calls > 0 {
			out = append(out, cur)
		}
		if calls == maxCalls {
			return
		}
		ops := "STR"
		if calls == 0 {
			ops = "S"
		}
		for _, op := range ops {
			decos := []string{"", "p", "i"}
			if calls == 0 {
				decos = []string{""}
			}
			for _, d := range decos {
				rec(cur+d+string(op), calls+1)
				if concurrent && calls > 0 && op != 'S' {
					rec(cur+d+"P"+string(op), calls+1)
				}
			}
		}
	}
	rec("", 0)
	// every program also with a trailing client action
	n := len(out)
	for i := 0; i < n; i++ {
		out = append(out, out[i]+"p", out[i]+"i")
	}
	return out
}

func c15Run(c *fw.Ctx) {
	defer cleanupKit()
	// phases in order of increasing cost; each is complete only if every worker
	// finished its share (<phase>_done == <phase>_programs in the evidence counters)
	phase := func(name string, progs []string, bound int) bool {
		if c.Shard == 0 {
			c.Count(name+"_programs", int64(len(progs)))
		}
		for _, prog := range progs {
			if !c.Mine() {
				continue
			}
			if c.Expired() {
				c.Cap("phase %s (deviation bound %d) stopped by the internal deadline; see the %s_done counter", name, bound, name)
				return false
			}
			c15Explore(c, prog, bound)
			if c.Expired() {
				c.Cap("phase %s (deviation bound %d) stopped by the internal deadline; see the %s_done counter", name, bound, name)
				return false
			}
			c.Count(name+"_done", 1)
		}
		return true
	}
	var tlsOnly []string
	for _, p := range c15TLSPrograms(2) {
		if !strings.ContainsAny(p, "piP") {
			tlsOnly = append(tlsOnly, "X"+p)
		}
	}
	// a port disabled in the configuration while the server runs, then Stop
	reconf := []string{"SdT", "SidT", "SpdT", "SdTp", "SqeT", "SjeT", "SjdeT", "SdPT",
		// TLS clients whose handshake fails, with the server left running, stopped or restarted afterwards
		// connections whose Close reports an error, before and after others in the registry
		"SkiT", "SikT", "SkiiT", "SkjT", "SkiR", "SikRp", "SkiPT",
		// clients connecting at the same time, under the happens-before oracle
		"MSPPT", "MSPQT", "MSQQi", "MSPPi", "MSiPPR",
		// connections that idle for an hour (by the logical clock) and are used again
		"Siw", "Sjw", "SijwT", "SjwRjw", "SjRjwT", "Sjwjw", "XSjw",
		"Sx", "Sy", "Sxj", "Sjy", "SxyT", "SxRy", "SjxRj", "SyQT", "XSxj", "XSyT"}
	if !phase("p1_reconfigured_bound2", reconf, 2) {
		return
	}
	if !phase("p1_plain_calls3_bound2", c15Programs(3, true), 2) || !phase("p1_tls_calls2_bound1", c15TLSPrograms(2), 1) || !phase("p1_tlsonly_calls2_bound1", tlsOnly, 1) {
		return
	}
	if !c.Thorough() {
		return
	}
	only := func(progs []string, n int) []string {
		var out []string
		for _, p := range progs {
			if c15Calls(p) == n {
				out = append(out, p)
			}
		}
		return out
	}
	_ = phase("p2_plain_calls3_bound3", c15Programs(3, true), 3) &&
		phase("p3_tls_calls3_bound2", only(c15TLSPrograms(3), 3), 2) &&
		phase("p4_tls_calls2_bound3", c15TLSPrograms(2), 3) &&
		phase("p5_plain_calls4_bound2", only(c15Programs(4, true), 4), 2)
}

func c15Explore(c *fw.Ctx, prog string, bound int) {
	x, _ := c15Explorer(prog, bound)
	x.Expired = c.Expired
	first := true
	x.OnExec = func(choices []int, r *vrt.Result, v sched.Verdict) {
		c.Eval()
		if first {
			first = false
			// determinism self-check: replay the first schedule and compare
			y, _ := c15Explorer(prog, 0)
			run := y.New()
			r2 := vrt.Run(vrt.Options{Choices: choices, RaceDetect: strings.HasPrefix(prog, "M")}, run.Body, run.AtQuiet)
			if sched.Signature(r2) != sched.Signature(r) {
				c.HarnessError("C15 %s: replaying the same schedule gave a different execution", prog)
			}
			if c.WantSample() {
				c.Sample(map[string]any{"program": prog, "schedule": choices, "threads": sched.ThreadSummary(r), "points": len(r.Points)})
			}
		}
		if v.Clause != "" {
			c.Violation("C15|"+c15Class(prog)+"|"+v.Clause, v.Detail+" program="+prog+" schedule="+fmt.Sprint(choices)+" threads: "+sched.ThreadSummary(r), c15Case{Program: prog, Choices: choices, Bound: bound})
		}
	}
	x.Explore()
	st := x.Stats
	c.Count("transitions", st.Transitions)
	c.Count("step_capped", st.StepCapped)
	if len(st.Observations()) > 1 {
		c.Nontrivial()
	}
	for o := range st.Observations() {
		c.DistinctAdd("states", prog+"|"+o)
	}
	for _, d := range st.Diverged {
		c.HarnessError("C15 %s: %s", prog, d)
	}
	if st.Deadlines > 0 {
		c.HarnessError("C15 %s: %d executions hit the watchdog (first at schedule %v)", prog, st.Deadlines, st.DeadlineAt)
	}
	if st.WarmStart {
		c.Count("warm_start_scenarios", 1)
	}
	if st.Nondeterministic {
		c.HarnessError("C15: replaying the default schedule gave a different execution (uncaptured nondeterminism)")
	}
	if st.Capped {
		c.Cap("program %s: exploration stopped early", prog)
	}
}

// c15TLSPrograms: lifecycle programs whose clients use the TLS port (q, j, Q) or both ports.
func c15TLSPrograms(maxCalls int) []string {
	var out []string
	for _, p := range c15Programs(maxCalls, true) {
		if !strings.ContainsAny(p, "piP") {
			continue
		}
		t := strings.NewReplacer("p", "q", "i", "j", "P", "Q").Replace(p)
		out = append(out, t)
		if strings.Count(p, "p")+strings.Count(p, "i") >= 2 {
			// mixed: first client plain, the others over TLS
			k := strings.IndexAny(p, "pi")
			out = append(out, p[:k+1]+strings.NewReplacer("p", "q", "i", "j", "P", "Q").Replace(p[k+1:]))
		}
	}
	return out
}

// c15Class abstracts a program to its lifecycle calls (finding identity).
func c15Class(prog string) string {
	var b strings.Builder
	for _, ch := range prog {
		switch ch {
		case 'S', 'T', 'R', 'P', 'Q':
			b.WriteRune(ch)
		}
	}
	return b.String()
}

func c15Replay(raw json.RawMessage) (string, bool, error) {
	var cs c15Case
	if err := json.Unmarshal(raw, &cs); err != nil {
		return "", false, err
	}
	x, _ := c15Explorer(cs.Program, 0)
	run := x.New()
	r := vrt.Run(vrt.Options{Choices: cs.Choices, LogEvents: true, RaceDetect: strings.HasPrefix(cs.Program, "M")}, run.Body, run.AtQuiet)
	if r.Diverged != "" {
		return "", false, fmt.Errorf("schedule does not replay: %s", r.Diverged)
	}
	v := run.Verdict(r)
	var log []string
	for _, e := range r.Events {
		log = append(log, fmt.Sprintf("t%d:%s", e.Thread, e.What))
	}
	return fmt.Sprintf("program=%s schedule=%v clause=%q %s\nthreads: %s\nlog: %s", cs.Program, cs.Choices, v.Clause, v.Detail, sched.ThreadSummary(r), strings.Join(log, " ")), v.Clause != "", nil
}

func init() {
	fw.Register(&fw.Prop{
		ID:    "C15",
		Level: "model_checking",
		Rule:  "lifecycle programs: every sequence over {Start, Stop, Restart} of up to 3 calls (thorough: also 4) beginning with Start - including Stop on a stopped and Start on a running server - decorated between calls with {nothing, a client that connects, PINGs and disconnects, a client that PINGs and stays idle}, each also with a trailing client action, plus the variants in which a client thread dials and PINGs concurrently with a Stop/Restart; every schedule of the real Start/Stop/Restart, accept loops and connection goroutines within deviation bound 2 over an in-memory port namespace (bind conflicts, backlog, close); the same programs with the TLS port enabled and clients doing the real crypto/tls handshake (<= 2 calls, bound 1), and once more on a TLS-only server (plain port disabled); 8 programs in which a port is disabled in the configuration (SetPort(0) / SetTLSPort(0)) while the server runs and Stop must still release its listener. Thorough runs further phases in this order, each complete only when its <phase>_done counter equals <phase>_programs: plain <= 3 calls at bound 3; TLS 3 calls at bound 2; TLS <= 2 calls at bound 3; plain 4 calls at bound 2 (caps name the phase the deadline interrupted). Oracle: after Start/Restart returned nil every dial is accepted and PING answered; after Stop returned and quiescence the port can be bound, every client connection is closed, no server goroutine is alive, the registry is empty; while running the registry holds exactly the served connections and an accept loop is parked in Accept. Programs also contain ports disabled while running (d, e), TLS clients whose handshake fails (x, y) and connections whose Close reports an error (k). Five programs with clients connecting at the same time also run under the happens-before oracle: a data race on the contents of a map is the verdict concurrent-map-access (the Go runtime aborts the process). A program is non-trivial when its schedules produce more than one distinct terminal observation.",
		Assumptions: []string{
			"sequentially consistent interleavings; scheduling points at go, mutex, sync.Map, listener and connection operations (plus racy-set accesses)",
			"programs with TLS clients (real handshake, valid certificate) use up to 2 calls at deviation bound 1 in quick (3 calls, bound 2 in thorough)",
		},
		Run:    c15Run,
		Replay: c15Replay,
		Budget: func(tier string) time.Duration {
			if tier == "thorough" {
				return 25 * time.Minute
			}
			return 4 * time.Minute
		},
		Finish: schedFinish,
	})
}

// schedFinish fills the model_checking coverage keys of SCHED properties.
func schedFinish(tier string, m *fw.Result, cov map[string]any) {
	cov["states"] = m.Counters["distinct_states"]
	cov["transitions"] = m.Counters["transitions"]
	cov["traces_validated_against_impl"] = m.Evaluations
}

// c15Calls counts the lifecycle calls (Start/Stop/Restart) of a program.
func c15Calls(prog string) int {
	return strings.Count(prog, "S") + strings.Count(prog, "T") + strings.Count(prog, "R")
}
