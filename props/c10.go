package props

import (
	"encoding/json"
	"fmt"
	"strings"

	"github.com/cybergarage/go-redis/redis"
	"verif/fw"
	"verif/grammar"
	"verif/resp"
	"verif/seq"
	"verif/srv"
)

// C10: ill-formed arguments are rejected without side effects.

type c10Case struct {
	Cmd    string   `json:"cmd"`
	Class  string   `json:"class"`
	Bad    []byte   `json:"bad_request"`
	Follow []string `json:"follow"`
	Stride int      `json:"stride,omitempty"`
}

func c10Check(cs c10Case) (clause, detail string) {
	setup := func(s *redis.Server, d *srv.Double) {
		s.SetAuthCommandHandler(d)
		catalogueDouble(d)
	}
	sel := grammar.Encode([]string{"SELECT", "3"})
	// 1. the bad request alone (after SELECT 3): error reply, no handler call
	r := runDouble(seq.Script{Input: concat(sel, cs.Bad), Stride: cs.Stride}, setup)
	if cl, dt := crashClause(r.Out); cl != "" {
		return cl, dt
	}
	if r.DecErr != nil {
		return "reply-malformed", r.DecErr.Error()
	}
	if len(r.Replies) != 2 {
		return "reply-count", fmt.Sprintf("2 requests, %d replies %s", len(r.Replies), valuesString(r.Replies))
	}
	if len(r.Double.Calls) != 0 {
		return "handler-called", "handler invoked for the ill-formed request: " + callsString(r.Double.Calls) + " reply=" + r.Replies[1].String()
	}
	if !r.Replies[1].IsError() {
		return "not-rejected", "reply to the ill-formed request is " + r.Replies[1].String() + " (not an error)"
	}
	// 2. followed by ECHO probe, a database probe and a valid instance of the same command
	follow := grammar.Encode(cs.Follow)
	probe := grammar.Encode([]string{"ECHO", "probe"})
	dbProbe := grammar.Encode([]string{"GET", "dbprobe"})
	r2 := runDouble(seq.Script{Input: concat(sel, cs.Bad, probe, dbProbe, follow), Stride: cs.Stride}, setup)
	if cl, dt := crashClause(r2.Out); cl != "" {
		return cl, dt
	}
	if r2.DecErr != nil || len(r2.Replies) != 5 {
		return "following-requests", fmt.Sprintf("5 requests, replies %s err=%v", valuesString(r2.Replies), r2.DecErr)
	}
	if !r2.Replies[2].Equal(resp.B("probe")) {
		return "following-requests", "ECHO after the rejected request answered " + r2.Replies[2].String()
	}
	sf := runDouble(seq.Script{Input: concat(sel, dbProbe, follow)}, setup)
	if len(sf.Replies) == 3 {
		if !r2.Replies[3].Equal(sf.Replies[1]) || !r2.Replies[4].Equal(sf.Replies[2]) {
			return "following-requests", fmt.Sprintf("requests after the rejected one answered %s %s, normally %s %s", r2.Replies[3], r2.Replies[4], sf.Replies[1], sf.Replies[2])
		}
		if !callsEqual(r2.Double.Calls, sf.Double.Calls, false) {
			return "following-requests", "handler calls after the rejected request differ: " + callsString(r2.Double.Calls) + " vs " + callsString(sf.Double.Calls)
		}
		for _, cl := range r2.Double.Calls {
			if cl.DB != 3 {
				return "state-changed", fmt.Sprintf("database is %d after the rejected request (was 3)", cl.DB)
			}
		}
	}
	// 3. the same ill-formed request right after a valid instance of the command
	// on the same connection: whatever the valid one left in the executor must
	// not make up for what is missing now
	r3 := runDouble(seq.Script{Input: concat(sel, follow, cs.Bad), Stride: cs.Stride}, setup)
	alone := runDouble(seq.Script{Input: concat(sel, follow)}, setup)
	if cl, dt := crashClause(r3.Out); cl != "" {
		return "after-valid-" + cl, dt
	}
	if len(alone.Replies) == 2 && crashOK(alone.Out) {
		if r3.DecErr != nil || len(r3.Replies) != 3 {
			return "after-valid-reply-count", fmt.Sprintf("3 requests, replies %s err=%v", valuesString(r3.Replies), r3.DecErr)
		}
		if len(r3.Double.Calls) != len(alone.Double.Calls) {
			return "after-valid-handler-called", "handler invoked for the ill-formed request sent after a valid one: " + callsString(r3.Double.Calls[len(alone.Double.Calls):])
		}
		if !r3.Replies[2].IsError() {
			return "after-valid-not-rejected", "sent after a valid " + cs.Cmd + ", the ill-formed request is answered " + r3.Replies[2].String()
		}
	}
	return "", ""
}

func crashOK(o srv.Outcome) bool { cl, _ := crashClause(o); return cl == "" }

func c10Run(c *fw.Ctx) {
	if c.Thorough() {
		c10Shapes(c)
	}
	for _, s := range grammar.Specs {
		grammar.EachBad(s, func(b grammar.Bad) {
			for _, stride := range []int{0, 1} {
				if !c.Mine() {
					continue
				}
				cs := c10Case{Cmd: b.Cmd, Class: b.Class, Bad: resp.A(b.Elems...).Bytes(), Follow: b.Follow, Stride: stride}
				c.Eval()
				if stride == 0 {
					c.Nontrivial()
				}
				if c.WantSample() {
					c.Sample(map[string]any{"bad_request": trunc(cs.Bad, 80), "class": b.Class})
				}
				if clause, detail := c10Check(cs); clause != "" {
					c.Violation("C10|"+b.Cmd+"|"+b.Class+"|"+clause, detail+" request="+trunc(cs.Bad, 100), cs)
				}
			}
		})
	}
}

// c10Shapes (thorough): every representative well-formed shape of every command
// (all option words, list arities) with each position replaced by a null bulk and
// each numeric-looking position by each non-number; the required positionals only,
// optional tails keep their own generator in grammar.EachBad.
func c10Shapes(c *fw.Ctx) {
	for _, s := range grammar.Specs {
		if s.Name == "CONFIG" || s.Name == "QUIT" || s.Name == "PING" {
			continue
		}
		s := s
		grammar.EachWellFormed(s, true, 1, func(r grammar.Req) {
			npos := len(s.Pos)
			for i := 1; i <= npos && i < len(r.Args); i++ {
				var variants [][]resp.Value
				var classes []string
				el := bulkElems(r.Args)
				nul := append([]resp.Value{}, el...)
				nul[i] = resp.Nil()
				variants = append(variants, nul)
				classes = append(classes, "shape-null@"+fmt.Sprint(i))
				switch s.Pos[i-1] {
				case grammar.Int:
					for _, t := range grammar.NonInts {
						v := append([]resp.Value{}, el...)
						v[i] = resp.B(t)
						variants = append(variants, v)
						classes = append(classes, "shape-non-numeric@"+fmt.Sprint(i))
					}
				case grammar.Float, grammar.Bound:
					for _, t := range grammar.NonFloats {
						v := append([]resp.Value{}, el...)
						v[i] = resp.B(t)
						variants = append(variants, v)
						classes = append(classes, "shape-non-numeric@"+fmt.Sprint(i))
					}
				}
				for k, v := range variants {
					if !c.Mine() {
						continue
					}
					cs := c10Case{Cmd: s.Name, Class: classes[k], Bad: resp.A(v...).Bytes(), Follow: r.Args}
					c.Eval()
					c.Nontrivial()
					if clause, detail := c10Check(cs); clause != "" {
						c.Violation("C10|"+s.Name+"|"+classes[k]+"|"+clause, detail+" request="+trunc(cs.Bad, 100), cs)
					}
				}
			}
			// every shorter prefix that cuts into the required positionals
			for n := 1; n <= npos && n < len(r.Args); n++ {
				if !c.Mine() {
					continue
				}
				cs := c10Case{Cmd: s.Name, Class: "shape-missing@" + fmt.Sprint(n), Bad: grammar.Encode(r.Args[:n]), Follow: r.Args}
				c.Eval()
				c.Nontrivial()
				if clause, detail := c10Check(cs); clause != "" {
					c.Violation("C10|"+s.Name+"|"+cs.Class+"|"+clause, detail+" request="+trunc(cs.Bad, 100), cs)
				}
			}
		})
	}
}

func c10Replay(raw json.RawMessage) (string, bool, error) {
	var cs c10Case
	if err := json.Unmarshal(raw, &cs); err != nil {
		return "", false, err
	}
	clause, detail := c10Check(cs)
	return fmt.Sprintf("bad=%s class=%s follow=%s clause=%q %s", trunc(cs.Bad, 200), cs.Class, strings.Join(cs.Follow, " "), clause, detail), clause != "", nil
}

func init() {
	fw.Register(&fw.Prop{
		ID:    "C10",
		Level: "exploration",
		Rule:  "for every command of the grammar: each required positional argument missing (every shorter prefix; empty list tails), a null bulk at each position, each integer position replaced by 8 non-integer/overflowing/fractional tokens and each float/score position by 7 non-numbers (incl. nan, 1e999), each pair list cut to odd lengths, numeric option values (LPOP count, SCAN COUNT, LIMIT, SET expiries) missing / non-numeric / non-positive (SET and SETEX expiries: 0, -1 and negative numbers around every place where a conversion to 32 bits, to nanoseconds or to a duration wraps, down to MinInt64), every ordered pair of SET NX|XX and of EX|PX|EXAT|PXAT in 3 letter-case variants; each followed by ECHO, a handler probe and a valid instance of the same command, and each also sent right after a valid instance of the same command; whole and 1-byte delivery. Non-trivial = distinct ill-formed request (the 1-byte re-delivery is not counted).",
		Assumptions: []string{
			"forms Redis rejects but the statement does not mention (surplus arguments, unknown option words, KEEPTTL with an expiry, '+1') carry no expectation and are not generated",
		},
		Run:    c10Run,
		Replay: c10Replay,
	})
}
