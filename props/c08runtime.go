package props

import (
	"fmt"
	"strings"

	"github.com/cybergarage/go-redis/redis"
	"github.com/cybergarage/go-redis/vrt"
	"verif/fw"
	"verif/resp"
	"verif/sched"
	"verif/srv"
)

// C08, third part: the password gate when the required password is set,
// changed or removed while the server object lives - through the public API
// (SetRequirePass / RemoveRequirePass, with and without Restart) and through
// CONFIG SET requirepass sent by a client. A program is a list of steps run by
// the harness thread against a server started with Start() on the in-memory
// network; every schedule of the accept loops and connection goroutines within
// the deviation bound is explored.
//
//	set:P        server.SetRequirePass(P)        remove     server.RemoveRequirePass()
//	start stop restart                           new:i      client i connects
//	cfg:i:P      client i sends CONFIG SET requirepass P
//	auth:i:P     client i sends AUTH P           auth2:i:U:P   AUTH U P
//	probe:i      client i sends GET k<i> (must reach the handler iff i is authorized)
//
// Model: `cur` is the password currently required ("" = none). A connection is
// authorized from the start iff cur == "" when it connects; AUTH P authorizes
// iff P == cur (no expectation while cur == ""); authorization persists.

var c08Programs = [][]string{
	{"start", "new:0", "cfg:0:Pw1", "new:1", "probe:1", "auth:1:wrong", "probe:1", "auth:1:Pw", "auth:1:Pw1x", "probe:1", "auth:1:Pw1", "probe:1", "probe:0"},
	{"set:Pw1", "start", "new:0", "auth:0:Pw1", "cfg:0:Pw2", "new:1", "auth:1:Pw1", "probe:1", "auth:1:Pw2", "probe:1", "probe:0"},
	{"set:Pw1", "start", "stop", "set:Pw2", "start", "new:0", "probe:0", "auth:0:Pw1", "probe:0", "auth:0:Pw2", "probe:0"},
	{"set:Pw1", "start", "remove", "new:0", "probe:0"},
	{"set:Pw1", "start", "restart", "new:0", "probe:0", "auth:0:wrong", "probe:0", "auth:0:Pw1", "probe:0"},
	{"set:Pw1", "start", "restart", "restart", "new:0", "probe:0", "auth:0:Pw", "probe:0", "auth:0:Pw1", "probe:0"},
	{"start", "set:Pw1", "new:0", "probe:0", "auth:0:wrong", "auth2:0:admin:Pw1", "probe:0", "auth:0:Pw1", "probe:0"},
	{"set:Pw1", "start", "new:0", "auth:0:Pw1", "set:Pw2", "new:1", "auth:1:Pw1", "probe:1", "auth:1:Pw2", "probe:1", "probe:0"},
	{"set:Pw1", "start", "set:Pw2", "restart", "new:0", "auth:0:Pw1", "probe:0", "auth:0:Pw2", "probe:0"},
	{"set:Pw1", "start", "remove", "restart", "new:0", "probe:0", "set:Pw2", "restart", "new:1", "probe:1", "auth:1:Pw1", "auth:1:Pw2", "probe:1"},
	{"start", "new:0", "cfg:0:Pw1", "cfg:0:Pw2", "new:1", "auth:1:Pw1", "probe:1", "auth:1:Pw2", "probe:1"},
	// a connection that never authenticated, the password removed and another one set:
	// what it may do while no password is required is not stated, but once a password
	// is required again it has not presented it
	{"set:Pw1", "start", "new:0", "probe:0", "remove", "probe:0", "set:Pw2", "probe:0", "auth:0:Pw1", "probe:0", "auth:0:Pw2", "probe:0"},
	{"set:Pw1", "start", "new:0", "remove", "probe:0", "probe:0", "set:Pw1", "probe:0", "new:1", "probe:1"},
	// CONFIG SET requirepass by one connection must not touch what the OTHER connections are:
	// the one that authenticated with the old password stays authorized, the one whose AUTH
	// was refused (although it offered what is the password now) stays unauthorized
	{"set:Pw1", "start", "new:0", "auth:0:Pw1", "new:1", "auth:1:Pw1", "probe:1", "cfg:0:Pw2", "probe:1", "probe:0", "new:2", "probe:2", "auth:2:Pw2", "probe:2"},
	{"set:Pw1", "start", "new:0", "auth:0:Pw1", "new:1", "auth:1:Pw2", "probe:1", "cfg:0:Pw2", "probe:1", "auth:1:Pw2", "probe:1"},
	// the password re-applied or changed by an application goroutine (bgset) or by an
	// authorized client (bgcfg) WHILE another client connects and tries its luck: there
	// is no moment at which the gate is open
	{"set:Pw1", "start", "bgset:Pw1", "new:0", "probe:0", "auth:0:wrong", "probe:0", "join", "auth:0:Pw1", "probe:0"},
	{"set:Pw1", "start", "bgset:Pw2", "new:0", "probe:0", "auth:0:wrong", "probe:0", "join", "auth:0:Pw2", "probe:0"},
	{"set:Pw1", "start", "new:0", "auth:0:Pw1", "bgcfg:0:Pw1", "new:1", "probe:1", "auth:1:wrong", "probe:1", "join", "probe:0"},
	{"set:Pw1", "start", "new:1", "bgset:Pw1", "auth:1:Pw", "probe:1", "auth:1:Pw1x", "probe:1", "join", "auth:1:Pw1", "probe:1"},
}

// c08Concurrent: programs with a background step need one more deviation (the
// background thread must be suspended inside the setter AND the new connection's
// goroutine preferred over it).
func c08Concurrent(prog []string) bool {
	for _, st := range prog {
		if strings.HasPrefix(st, "bg") {
			return true
		}
	}
	return false
}

func c08RuntimeExplorer(prog []string, bound int) *sched.Explorer {
	x := &sched.Explorer{Bound: bound}
	x.New = func() *sched.Run {
		var viol []string
		var trace []string
		fail := func(clause, detail string) { viol = append(viol, clause+"\x00"+detail) }
		body := func() {
			d := srv.NewDouble()
			s := srv.NewServer(d)
			cur := ""
			alt := "\x00" // the password a background step is installing right now (none: NUL)
			running := false
			clients := map[string]*sched.Client{}
			authorized := map[string]bool{}
			calls := 0
			for n, step := range prog {
				p := strings.Split(step, ":")
				pos := fmt.Sprintf("step %d (%s)", n, step)
				switch p[0] {
				case "set":
					s.SetRequirePass(p[1])
					cur = p[1]
				case "remove":
					s.RemoveRequirePass()
					cur = ""
				case "bgset":
					pw := p[1]
					alt = pw
					vrt.Go("application", func() { s.SetRequirePass(pw) })
				case "bgcfg":
					cl, pw := clients[p[1]], p[2]
					if cl == nil {
						continue
					}
					alt = pw
					vrt.Go("configurator", func() { cl.Do("CONFIG", "SET", "requirepass", pw) })
				case "join":
					vrt.WaitQuiet()
					if alt != "\x00" {
						cur, alt = alt, "\x00"
					}
				case "start":
					if err := s.Start(); err != nil {
						fail("harness", pos+": Start: "+err.Error())
						return
					}
					running = true
				case "stop":
					s.Stop()
					running = false
					clients, authorized = map[string]*sched.Client{}, map[string]bool{}
				case "restart":
					if err := s.Restart(); err != nil {
						fail("harness", pos+": Restart: "+err.Error())
						return
					}
					clients, authorized = map[string]*sched.Client{}, map[string]bool{}
				case "new":
					if !running {
						continue
					}
					cl, o := sched.Dial(":6379")
					if o.Status != "ok" {
						fail("harness", pos+": dial "+o.Status)
						return
					}
					// the first request makes sure the connection has been accepted under the
					// password that is current now
					clients[p[1]] = cl
					authorized[p[1]] = cur == ""
					r := cl.Do("ECHO", "hello")
					if r.Status != "ok" {
						fail("request-"+r.Status, pos+": "+r.String())
						return
					}
					if authorized[p[1]] == r.Reply.IsError() {
						fail(gateClause(authorized[p[1]]), fmt.Sprintf("%s: a connection opened while the required password is %q got %s for ECHO", pos, cur, r.Reply))
					}
				case "cfg", "auth", "auth2", "probe":
					cl := clients[p[1]]
					if cl == nil {
						continue
					}
					var r sched.Outcome
					switch p[0] {
					case "cfg":
						r = cl.Do("CONFIG", "SET", "requirepass", p[2])
					case "auth":
						r = cl.Do("AUTH", p[2])
					case "auth2":
						r = cl.Do("AUTH", p[2], p[3])
					case "probe":
						r = cl.Do("GET", "k"+p[1])
					}
					if r.Status != "ok" {
						fail("request-"+r.Status, pos+": "+r.String())
						return
					}
					trace = append(trace, step+"="+r.Reply.String())
					switch p[0] {
					case "cfg":
						if authorized[p[1]] {
							if r.Reply.IsError() {
								fail("harness", pos+": CONFIG SET refused: "+r.Reply.String())
								return
							}
							cur = p[2]
						}
					case "auth", "auth2":
						if cur == "" {
							continue // no password required: no expectation
						}
						good := p[0] == "auth" && p[2] == cur
						if alt != "\x00" && alt != cur && p[0] == "auth" && (p[2] == cur || p[2] == alt) {
							// the password is being changed right now: old and new may both be refused or accepted
							if r.Reply.Equal(resp.S("OK")) {
								authorized[p[1]] = true
							}
							continue
						}
						switch {
						case good && !r.Reply.Equal(resp.S("OK")):
							fail("good-password-refused", fmt.Sprintf("%s: the required password is %q and AUTH with exactly it answered %s (program %v)", pos, cur, r.Reply, prog))
						case good:
							authorized[p[1]] = true
						case !r.Reply.IsError():
							fail("wrong-credentials-accepted", fmt.Sprintf("%s: the required password is %q, the reply is %s (program %v)", pos, cur, r.Reply, prog))
						}
					case "probe":
						reached := len(d.Calls) > calls
						calls = len(d.Calls)
						if cur == "" && !authorized[p[1]] {
							continue // no password required right now: no expectation for a connection that never authenticated
						}
						if authorized[p[1]] && (r.Reply.IsError() || !reached) {
							fail("refused-after-auth", fmt.Sprintf("%s: the connection is authorized but GET answered %s (program %v)", pos, r.Reply, prog))
						}
						if !authorized[p[1]] && (!r.Reply.IsError() || reached) {
							fail("executed-before-auth", fmt.Sprintf("%s: GET answered %s (handler reached: %v) on a connection that never presented the required password %q (program %v)", pos, r.Reply, reached, cur, prog))
						}
					}
				}
			}
			_ = redis.DefaultPort
		}
		return &sched.Run{
			Body: body,
			Verdict: func(r *vrt.Result) sched.Verdict {
				if v, ok := panicVerdict(r); ok {
					return v
				}
				obs := strings.Join(trace, " ")
				if len(viol) > 0 {
					p := strings.SplitN(viol[0], "\x00", 2)
					if p[0] == "harness" {
						return sched.Verdict{Obs: "HARNESS-PANIC " + p[1]}
					}
					return sched.Verdict{Clause: p[0], Detail: p[1], Obs: obs}
				}
				return sched.Verdict{Obs: obs}
			},
		}
	}
	return x
}

func gateClause(authorized bool) string {
	if authorized {
		return "refused-after-auth"
	}
	return "executed-before-auth"
}

func c08Runtime(c *fw.Ctx) {
	bound := 1
	if c.Thorough() {
		bound = 2
	}
	for i, prog := range c08Programs {
		if !c.Mine() {
			continue
		}
		x := c08RuntimeExplorer(prog, bound)
		x.Expired = c.Expired
		name := fmt.Sprintf("runtime-program-%d", i)
		x.OnExec = func(choices []int, r *vrt.Result, v sched.Verdict) {
			c.Eval()
			if strings.HasPrefix(v.Obs, "HARNESS-PANIC") {
				c.HarnessError("C08 %s %s", name, v.Obs)
			}
			if v.Clause != "" {
				c.Violation("C08|runtime|"+v.Clause, v.Detail+fmt.Sprintf(" schedule=%v", choices), c08Case{Kind: "runtime", Program: prog, Choices: choices})
			}
		}
		x.Explore()
		schedAccount(c, x, name)
	}
}
