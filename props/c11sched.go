package props

import (
	"encoding/json"
	"fmt"
	"strings"

	"github.com/cybergarage/go-redis/vrt"
	"verif/fw"
	"verif/resp"
	"verif/sched"
	"verif/srv"
)

// C11, scheduled part: the same promise while ANOTHER client misbehaves. Client B has
// pipelined requests and never reads the replies (the server's reply write to it is parked
// for good). Client A sends complete requests followed by a partial one and ends its stream,
// by half close or by full close. A's complete requests must be executed exactly once (and,
// after a half close, answered), the partial one never, and A's connection must be released.
// Every schedule within the deviation bound is explored.

type c11SchedCase struct {
	Kind  string `json:"kind"` // "beside-stalled-reader"
	Close string `json:"close"`
	// Pipeline > 0 (kind "pipeline-ladder"): client A is alone, pipelines that many complete
	// SETs and a partial one in ONE write and ends its stream at once - by half close (then
	// reads everything) or by full close without having read a single reply, so that every
	// reply write of the server meets a closed peer.
	Pipeline int   `json:"pipeline,omitempty"`
	Choices  []int `json:"choices,omitempty"`
}

func c11SchedExplorer(cs c11SchedCase, bound int) *sched.Explorer {
	x := &sched.Explorer{Bound: bound}
	x.New = func() *sched.Run {
		d := srv.NewDouble()
		var replies []string
		var aRaw *vrt.Conn
		note := ""
		body := func() {
			catalogueDouble(d)
			s := srv.NewServer(d)
			if err := s.Start(); err != nil {
				note = "HARNESS-PANIC start: " + err.Error()
				return
			}
			if cs.Pipeline > 0 {
				a, o := sched.Dial(":6379")
				if o.Status != "ok" {
					note = "HARNESS-PANIC dial"
					return
				}
				aRaw = a.Raw()
				var buf []byte
				for i := 0; i < cs.Pipeline; i++ {
					buf = append(buf, resp.Cmd("SET", fmt.Sprintf("p%d", i), "1").Bytes()...)
				}
				a.Send(concat(buf, []byte("*3\r\n$3\r\nSET\r\n$1\r\nc\r\n$5\r\nab")))
				if cs.Close == "half" {
					a.Raw().CloseWrite()
					for i := 0; i < cs.Pipeline+2; i++ {
						r := a.Recv()
						if r.Status != "ok" {
							break
						}
						replies = append(replies, r.Reply.String())
					}
				} else {
					a.Close()
				}
				vrt.WaitQuiet()
				return
			}
			b, o := sched.Dial(":6379")
			if o.Status != "ok" {
				note = "HARNESS-PANIC dial"
				return
			}
			b.Raw().Capacity = 8
			for i := 0; i < 6; i++ {
				b.Send(resp.Cmd("ECHO", "0123456789abcdef").Bytes())
			}
			vrt.WaitQuiet()
			a, o := sched.Dial(":6379")
			if o.Status != "ok" {
				note = "HARNESS-PANIC dial"
				return
			}
			aRaw = a.Raw()
			a.Send(concat(resp.Cmd("SET", "a", "1").Bytes(), resp.Cmd("SET", "b", "2").Bytes(), []byte("*3\r\n$3\r\nSET\r\n$1\r\nc\r\n$5\r\nab")))
			if cs.Close == "half" {
				a.Raw().CloseWrite()
				for i := 0; i < 4; i++ {
					r := a.Recv()
					if r.Status != "ok" {
						break
					}
					replies = append(replies, r.Reply.String())
				}
			} else {
				vrt.WaitQuiet()
				a.Close()
			}
			vrt.WaitQuiet()
		}
		return &sched.Run{
			Body: body,
			Verdict: func(r *vrt.Result) sched.Verdict {
				if v, ok := panicVerdict(r); ok {
					return v
				}
				if note != "" {
					return sched.Verdict{Obs: note}
				}
				var sets []string
				for _, c := range d.Calls {
					if c.Method == "Set" {
						sets = append(sets, fmt.Sprint(c.Args[0]))
					}
				}
				obs := fmt.Sprintf("sets=%v replies=%v", sets, replies)
				if cs.Pipeline > 0 {
					var want []string
					for i := 0; i < cs.Pipeline; i++ {
						want = append(want, fmt.Sprintf("p%d", i))
					}
					if strings.Join(sets, ",") != strings.Join(want, ",") {
						clause := "complete-request-not-executed"
						if len(sets) > len(want) {
							clause = "partial-request-executed"
						}
						return sched.Verdict{Clause: clause, Detail: fmt.Sprintf("%d complete SETs and a partial one in one write, then %s close: the handler's Set calls are %v (%s)", cs.Pipeline, cs.Close, sets, obs), Obs: obs}
					}
					if cs.Close == "half" && len(replies) < cs.Pipeline {
						return sched.Verdict{Clause: "complete-request-not-answered", Detail: fmt.Sprintf("after a half close %d replies were received for %d complete requests: %v", len(replies), cs.Pipeline, replies), Obs: obs}
					}
					if aRaw != nil && !aRaw.PeerClosed() {
						return sched.Verdict{Clause: "socket-not-closed", Detail: "the connection whose stream ended was never closed by the server (" + obs + ")", Obs: obs}
					}
					return sched.Verdict{Obs: obs}
				}
				if strings.Join(sets, ",") != "a,b" {
					clause := "complete-request-not-executed"
					if len(sets) > 2 {
						clause = "partial-request-executed"
					}
					return sched.Verdict{Clause: clause, Detail: fmt.Sprintf("next to a client that never reads its replies: the handler's Set calls are %v, the completely received requests are SET a and SET b (%s)", sets, obs), Obs: obs}
				}
				if cs.Close == "half" && (len(replies) < 2 || replies[0] != `+"OK"` && !strings.HasPrefix(replies[0], `$`)) {
					return sched.Verdict{Clause: "complete-request-not-answered", Detail: "after a half close the replies received are " + fmt.Sprint(replies), Obs: obs}
				}
				if aRaw != nil && !aRaw.PeerClosed() {
					return sched.Verdict{Clause: "socket-not-closed", Detail: "the connection whose stream ended was never closed by the server (" + obs + ")", Obs: obs}
				}
				return sched.Verdict{Obs: obs}
			},
		}
	}
	return x
}

func c11Sched(c *fw.Ctx) {
	for _, cl := range []string{"half", "full"} {
		if !c.Mine() {
			continue
		}
		cs := c11SchedCase{Kind: "beside-stalled-reader", Close: cl}
		x := c11SchedExplorer(cs, 2)
		x.Expired = c.Expired
		x.OnExec = func(choices []int, r *vrt.Result, v sched.Verdict) {
			c.Eval()
			if strings.HasPrefix(v.Obs, "HARNESS-PANIC") {
				c.HarnessError("C11 %s %s", cs.Kind, v.Obs)
			}
			if v.Clause != "" {
				cc := cs
				cc.Choices = choices
				c.Violation("C11|beside-stalled-reader|"+cl+"-close|"+v.Clause, v.Detail+fmt.Sprintf(" schedule=%v", choices), cc)
			}
		}
		x.Explore()
		c.Nontrivial()
		schedAccount(c, x, "beside-stalled-reader "+cl)
	}
}

// c11Ladder: the pipeline ladder (1, 3, 6, 12, 20 complete requests before the partial one).
func c11Ladder(c *fw.Ctx) {
	for _, n := range []int{1, 3, 6, 12, 20} {
		for _, cl := range []string{"half", "full"} {
			if !c.Mine() {
				continue
			}
			cs := c11SchedCase{Kind: "pipeline-ladder", Close: cl, Pipeline: n}
			bound := 2
			if n > 3 {
				bound = 1
			}
			x := c11SchedExplorer(cs, bound)
			x.Expired = c.Expired
			x.OnExec = func(choices []int, r *vrt.Result, v sched.Verdict) {
				c.Eval()
				if strings.HasPrefix(v.Obs, "HARNESS-PANIC") {
					c.HarnessError("C11 %s %s", cs.Kind, v.Obs)
				}
				if v.Clause != "" {
					cc := cs
					cc.Choices = choices
					c.Violation(fmt.Sprintf("C11|pipeline-ladder|%d|%s-close|%s", n, cl, v.Clause), v.Detail+fmt.Sprintf(" schedule=%v", choices), cc)
				}
			}
			x.Explore()
			c.Nontrivial()
			schedAccount(c, x, fmt.Sprintf("pipeline-ladder %d %s", n, cl))
		}
	}
}

func c11SchedReplay(raw json.RawMessage) (string, bool, error) {
	var cs c11SchedCase
	if err := json.Unmarshal(raw, &cs); err != nil {
		return "", false, err
	}
	run := c11SchedExplorer(cs, 0).New()
	r := vrt.Run(vrt.Options{Choices: cs.Choices}, run.Body, run.AtQuiet)
	if r.Diverged != "" {
		return "", false, fmt.Errorf("schedule does not replay: %s", r.Diverged)
	}
	v := run.Verdict(r)
	return fmt.Sprintf("scenario=%+v clause=%q %s obs=%s", cs, v.Clause, v.Detail, v.Obs), v.Clause != "", nil
}
