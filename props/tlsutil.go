package props

import (
	"crypto/ecdsa"
	"crypto/elliptic"
	"crypto/rand"
	"crypto/tls"
	"crypto/x509"
	"crypto/x509/pkix"
	"encoding/pem"
	"fmt"
	"math/big"
	"os"
	"path/filepath"
	"sync"
	"time"
)

// tlsKit holds the certificates used by the TLS scenarios (C09, C19): one CA,
// a server pair and client credentials of every kind the property names.
type tlsKit struct {
	Dir         string
	CAFile      string
	ForeignCA   string // PEM file of the other CA (the one that issued Clients["foreign-ca"])
	ForeignPool *x509.CertPool
	ServerCert  string
	ServerKey   string
	Pool        *x509.CertPool
	ServerTLS   tls.Certificate              // the server pair as a value (for SetTLSConfig)
	Clients     map[string][]tls.Certificate // kind -> certificate list (empty = present none)
}

var (
	kitOnce sync.Once
	kit     *tlsKit
	kitErr  error
)

type certSpec struct {
	cn        string
	isCA      bool
	notBefore time.Time
	notAfter  time.Time
	client    bool
	server    bool
	dns       []string // subject alternative names
}

func makeCert(spec certSpec, serial int64, parent *x509.Certificate, parentKey *ecdsa.PrivateKey) (*x509.Certificate, *ecdsa.PrivateKey, []byte, error) {
	key, err := ecdsa.GenerateKey(elliptic.P256(), rand.Reader)
	if err != nil {
		return nil, nil, nil, err
	}
	tmpl := &x509.Certificate{
		SerialNumber:          big.NewInt(serial),
		Subject:               pkix.Name{CommonName: spec.cn, Organization: []string{"verif"}},
		NotBefore:             spec.notBefore,
		NotAfter:              spec.notAfter,
		BasicConstraintsValid: true,
		IsCA:                  spec.isCA,
		KeyUsage:              x509.KeyUsageDigitalSignature,
	}
	if spec.isCA {
		tmpl.KeyUsage |= x509.KeyUsageCertSign
	}
	if spec.client {
		tmpl.ExtKeyUsage = append(tmpl.ExtKeyUsage, x509.ExtKeyUsageClientAuth)
	}
	if spec.server {
		tmpl.ExtKeyUsage = append(tmpl.ExtKeyUsage, x509.ExtKeyUsageServerAuth)
		tmpl.DNSNames = []string{"localhost"}
	}
	if len(spec.dns) > 0 {
		tmpl.DNSNames = append(tmpl.DNSNames, spec.dns...)
	}
	if parent == nil {
		parent, parentKey = tmpl, key
	}
	der, err := x509.CreateCertificate(rand.Reader, tmpl, parent, &key.PublicKey, parentKey)
	if err != nil {
		return nil, nil, nil, err
	}
	cert, err := x509.ParseCertificate(der)
	return cert, key, der, err
}

func pemCert(der []byte) []byte {
	return pem.EncodeToMemory(&pem.Block{Type: "CERTIFICATE", Bytes: der})
}

func pemKey(k *ecdsa.PrivateKey) []byte {
	b, _ := x509.MarshalECPrivateKey(k)
	return pem.EncodeToMemory(&pem.Block{Type: "EC PRIVATE KEY", Bytes: b})
}

func tlsCert(key *ecdsa.PrivateKey, ders ...[]byte) tls.Certificate {
	return tls.Certificate{Certificate: ders, PrivateKey: key}
}

// getKit generates the certificates once per process and writes the files the
// server is configured with (through SetTLS*File) under $VERIF_WORK/certs/<pid>.
func getKit() (*tlsKit, error) {
	kitOnce.Do(func() {
		now := time.Now()
		valid := func(cn string, ca, cl, sv bool) certSpec {
			return certSpec{cn: cn, isCA: ca, client: cl, server: sv, notBefore: now.Add(-time.Hour), notAfter: now.Add(240 * time.Hour)}
		}
		ca, caKey, caDER, err := makeCert(valid("verif-ca", true, false, false), 1, nil, nil)
		if err != nil {
			kitErr = err
			return
		}
		_, svKey, svDER, err := makeCert(valid("localhost", false, false, true), 2, ca, caKey)
		if err != nil {
			kitErr = err
			return
		}
		k := &tlsKit{Clients: map[string][]tls.Certificate{}, ServerTLS: tlsCert(svKey, svDER)}
		k.Pool = x509.NewCertPool()
		k.Pool.AddCert(ca)
		// valid client: CN=localhost under the CA
		_, key, der, _ := makeCert(valid("localhost", false, true, false), 3, ca, caKey)
		k.Clients["valid"] = []tls.Certificate{tlsCert(key, der)}
		// right CA, wrong name
		_, key, der, _ = makeCert(valid("other", false, true, false), 4, ca, caKey)
		k.Clients["wrong-name"] = []tls.Certificate{tlsCert(key, der)}
		// right name only on an intermediate: leaf CN=other under intermediate CN=localhost under the CA
		inter, interKey, interDER, _ := makeCert(valid("localhost", true, true, false), 5, ca, caKey)
		_, key, der, _ = makeCert(valid("other", false, true, false), 6, inter, interKey)
		k.Clients["name-on-intermediate"] = []tls.Certificate{tlsCert(key, der, interDER)}
		// expired
		_, key, der, _ = makeCert(certSpec{cn: "localhost", client: true, notBefore: time.Date(2000, 1, 1, 0, 0, 0, 0, time.UTC), notAfter: time.Date(2001, 1, 1, 0, 0, 0, 0, time.UTC)}, 7, ca, caKey)
		k.Clients["expired"] = []tls.Certificate{tlsCert(key, der)}
		// self-signed
		_, key, der, _ = makeCert(valid("localhost", false, true, false), 8, nil, nil)
		k.Clients["self-signed"] = []tls.Certificate{tlsCert(key, der)}
		// foreign CA
		fca, fcaKey, fcaDER, _ := makeCert(valid("foreign-ca", true, false, false), 9, nil, nil)
		k.ForeignPool = x509.NewCertPool()
		k.ForeignPool.AddCert(fca)
		_, key, der, _ = makeCert(valid("localhost", false, true, false), 10, fca, fcaKey)
		k.Clients["foreign-ca"] = []tls.Certificate{tlsCert(key, der)}
		// right CA, wrong name, followed by an unrelated self-made end-entity certificate
		// that carries the configured name (the handshake verifies the first certificate only)
		_, key, der, _ = makeCert(valid("other", false, true, false), 11, ca, caKey)
		_, _, forgedDER, _ := makeCert(valid("localhost", false, true, false), 12, nil, nil)
		k.Clients["wrong-name+forged-extra"] = []tls.Certificate{tlsCert(key, der, forgedDER)}
		// right CA, wrong common name, the configured name only among the subject alternative names
		sanSpec := valid("other", false, true, false)
		sanSpec.dns = []string{"localhost", "*.localhost"}
		_, key, der, _ = makeCert(sanSpec, 13, ca, caKey)
		k.Clients["wrong-name+san"] = []tls.Certificate{tlsCert(key, der)}
		k.Clients["none"] = nil

		work := os.Getenv("VERIF_WORK")
		if work == "" {
			work = filepath.Join(os.Getenv("VERIF_ROOT"), ".work")
			if os.Getenv("VERIF_ROOT") == "" {
				work = "/verif/.work"
			}
		}
		k.Dir = filepath.Join(work, "certs", fmt.Sprint(os.Getpid()))
		if err := os.MkdirAll(k.Dir, 0o755); err != nil {
			kitErr = err
			return
		}
		k.CAFile = filepath.Join(k.Dir, "ca.pem")
		k.ServerCert = filepath.Join(k.Dir, "server.pem")
		k.ServerKey = filepath.Join(k.Dir, "server.key")
		if err := os.WriteFile(k.CAFile, pemCert(caDER), 0o644); err != nil {
			kitErr = err
			return
		}
		k.ForeignCA = filepath.Join(k.Dir, "foreign-ca.pem")
		os.WriteFile(k.ForeignCA, pemCert(fcaDER), 0o644)
		os.WriteFile(k.ServerCert, pemCert(svDER), 0o644)
		os.WriteFile(k.ServerKey, pemKey(svKey), 0o600)
		kit = k
	})
	return kit, kitErr
}

// cleanupKit removes the per-process certificate files.
func cleanupKit() {
	if kit != nil && kit.Dir != "" {
		os.RemoveAll(kit.Dir)
	}
}

// clientTLSConfig builds the tls.Config of a client presenting creds.
func (k *tlsKit) clientTLSConfig(creds []tls.Certificate) *tls.Config {
	cfg := &tls.Config{RootCAs: k.Pool, ServerName: "localhost", MinVersion: tls.VersionTLS12}
	if len(creds) > 0 {
		c := creds[0]
		cfg.GetClientCertificate = func(*tls.CertificateRequestInfo) (*tls.Certificate, error) { return &c, nil }
	}
	return cfg
}
