package props

import (
	"encoding/json"
	"errors"

	"verif/fw"
)

func c07Sched(c *fw.Ctx) {}

func c07SchedReplay(raw json.RawMessage) (string, bool, error) {
	return "", false, errors.New("not built")
}
