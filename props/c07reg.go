package props

import "verif/fw"

func init() {
	fw.Register(&fw.Prop{
		ID:          "C07",
		Level:       "exploration",
		Rule:        "sequential part: for every command, boundary-argument vectors (indices/counts/limits over {0,1,-1,2,3,4,-3,-4,2^63-1,-2^63}, keys of every data type and a missing key, score bounds incl. infinities and exclusive forms, LIMIT offset/count over {-1,0,1,2,5}^2 and, for every BYSCORE form (ZRANGEBYSCORE, ZREVRANGEBYSCORE, ZRANGE BYSCORE [REV]), over the whole integer boundary pool squared, option tails) against the example store pre-populated with 0, 1 and 3 elements per type and against the recording double; 20 non-command frames (empty array, null/nested/integer command names, null arguments, null array); the whole request catalogue; every disconnect offset (EOF and reset) of the representative requests; every single-byte deletion/substitution (from the structural alphabet everywhere, by every byte value at the first 12 and last 4 positions; thorough everywhere) and boundary-number edit of 18 valid base streams. Oracle: no panic escapes the connection loop (in production it would end the process), no loop exceeds its iteration budget, replies are well-formed, the connection is closed at end of stream and a later connection's PING is answered. TLS offenders whose handshake cannot succeed (junk, plain text, a client that rejects the server certificate, abort after ClientHello) must be disconnected while the witness, a later plain client and a later valid TLS client are served; the same for clients without certificate or with the wrong name against a server given a tls.Config with ClientAuth RequestClientCert / RequireAnyClientCert / VerifyClientCertIfGiven plus a common-name rule (their handshake completes; their command must not be executed). Two offenders writing several configuration parameters while the witness and the late client connect run under the happens-before oracle: a data race on the contents of a map is the verdict concurrent-map-access (process abort). The interleaving part (offender x witness connection under all schedules <= 2 preemptions) is reported under the same property by the SCHED explorer.",
		Assumptions: []string{"declared sizes above 2^29 are left to C06's sacrificial subprocess"},
		Run:         c07RunAll,
		Replay:      c07ReplayAll,
	})
}
