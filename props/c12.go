package props

import (
	"encoding/json"
	"fmt"
	"strconv"
	"strings"

	"github.com/cybergarage/go-redis/vrt"
	"verif/fw"
	"verif/grammar"
	"verif/model"
	"verif/resp"
	"verif/seq"
	"verif/srv"
)

// C12: commands the framework implements itself follow Redis semantics.

type c12Case struct {
	Setup   [][]string `json:"setup"`   // model commands building the stored state
	Program [][]string `json:"program"` // commands sent to the server
	MapPerm int        `json:"map_perm,omitempty"`
	Context int        `json:"context,omitempty"` // replies of the first Context program commands are not compared
}

func sameReply(got, want resp.Value) bool {
	if want.IsError() {
		return got.IsError()
	}
	return got.Equal(want)
}

func c12Check(cs c12Case) (clause, detail string) {
	ref := model.New()
	for _, c := range cs.Setup {
		ref.Apply(c)
	}
	store := srv.NewRefStore()
	store.DBs[0] = ref.Clone()
	s := srv.NewServer(store)
	var input []byte
	for _, c := range cs.Program {
		input = append(input, grammar.Encode(c)...)
	}
	if cs.MapPerm > 0 {
		p := cs.MapPerm
		vrt.MapOrder = func(site string, n int) []int { return vrt.NthPerm(n, p%vrt.Factorial(n)) }
		defer func() { vrt.MapOrder = nil }()
	}
	out := srv.RunConn(s, seq.NewConn(seq.Script{Input: input}))
	if cl, dt := crashClause(out); cl != "" {
		return cl, dt
	}
	vals, derr := resp.DecodeAll(out.Reply)
	if derr != nil {
		return "reply-malformed", derr.Error()
	}
	if len(vals) != len(cs.Program) {
		return "reply-count", fmt.Sprintf("%d commands, replies %s", len(cs.Program), valuesString(vals))
	}
	for i, c := range cs.Program {
		want := ref.Apply(c)
		if i < cs.Context {
			continue // a primitive executed for its side effects on the server only
		}
		if !sameReply(vals[i], want) {
			return "reply@" + strings.ToUpper(c[0]), fmt.Sprintf("%s replied %s, Redis replies %s", argsString(c), vals[i], want)
		}
	}
	if got, want := store.DBs[0].Canon(), ref.Canon(); got != want {
		return "store-state", fmt.Sprintf("store after %s is {%s}, Redis leaves {%s}", argsString(cs.Program[len(cs.Program)-1]), got, want)
	}
	return "", ""
}

func c12Run(c *fw.Ctx) {
	run := func(cs c12Case, key string) {
		if !c.Mine() {
			return
		}
		c.Eval()
		c.Nontrivial()
		if c.WantSample() {
			c.Sample(map[string]any{"setup": cs.Setup, "program": cs.Program})
		}
		if clause, detail := c12Check(cs); clause != "" {
			c.Violation("C12|"+key+"|"+clause, detail+" setup="+fmt.Sprint(cs.Setup), cs)
		}
	}
	itoa := strconv.Itoa
	// 1. GETRANGE / SUBSTR index arithmetic
	for _, cmd := range []string{"GETRANGE", "SUBSTR"} {
		for n := -1; n <= 6; n++ {
			var setup [][]string
			if n >= 0 {
				setup = [][]string{{"SET", "k", "abcdef"[:n]}}
			}
			for st := -9; st <= 9; st++ {
				for en := -9; en <= 9; en++ {
					class := "in-range"
					if n < 0 {
						class = "missing-key"
					} else if n == 0 {
						class = "empty-value"
					} else if en >= n || st >= n || -st > n || -en > n {
						class = "out-of-range-index"
					}
					run(c12Case{Setup: setup, Program: [][]string{{cmd, "k", itoa(st), itoa(en)}}}, cmd+"|"+class)
				}
			}
		}
	}
	// 2. ZREVRANGE
	zsetup := func(n int, ties bool) [][]string {
		if n == 0 {
			return nil
		}
		z := []string{"ZADD", "z"}
		for i := 0; i < n; i++ {
			sc := i + 1
			if ties {
				sc = (i + 2) / 2
			}
			z = append(z, itoa(sc), string(rune('a'+i)))
		}
		return [][]string{z}
	}
	for n := 0; n <= 5; n++ {
		for _, ties := range []bool{false, true} {
			if ties && n < 2 {
				continue
			}
			for st := -7; st <= 7; st++ {
				for sp := -7; sp <= 7; sp++ {
					full := "partial"
					if st == 0 && sp == -1 {
						full = "full"
					}
					run(c12Case{Setup: zsetup(n, ties), Program: [][]string{{"ZREVRANGE", "z", itoa(st), itoa(sp)}}}, "ZREVRANGE|"+full)
					run(c12Case{Setup: zsetup(n, ties), Program: [][]string{{"ZREVRANGE", "z", itoa(st), itoa(sp), "WITHSCORES"}}}, "ZREVRANGE|"+full+"+WITHSCORES")
				}
			}
		}
	}
	// 3. ZREVRANGEBYSCORE
	grid := []string{"-inf", "0", "1", "2", "3", "(1", "(2", "+inf"}
	limits := [][]string{nil, {"LIMIT", "0", "1"}, {"LIMIT", "1", "2"}, {"LIMIT", "0", "-1"}, {"LIMIT", "2", "1"}, {"LIMIT", "-1", "2"}, {"LIMIT", "0", "0"}}
	for n := 0; n <= 4; n++ {
		for _, mx := range grid {
			for _, mn := range grid {
				for _, lim := range limits {
					for _, ws := range []bool{false, true} {
						p := []string{"ZREVRANGEBYSCORE", "z", mx, mn}
						key := "ZREVRANGEBYSCORE|plain"
						if ws {
							p = append(p, "WITHSCORES")
						}
						if lim != nil {
							p = append(p, lim...)
							key = "ZREVRANGEBYSCORE|LIMIT"
						}
						run(c12Case{Setup: zsetup(n, false), Program: [][]string{p}}, key)
					}
				}
			}
		}
	}
	// 4. counters
	stored := []string{"<missing>", "0", "1", "-1", "10", "abc", "", "1.5", " 1", "9223372036854775807", "9223372036854775806", "-9223372036854775808", "-9223372036854775807", "007", "+5", "-0", "1 ", "0x10", "1e2"}
	deltas := grammar.IntPool
	for _, sv := range stored {
		var setup [][]string
		if sv != "<missing>" {
			setup = [][]string{{"SET", "k", sv}}
		}
		class := "integer"
		if _, ok := model.ParseInt(sv); !ok && sv != "<missing>" {
			class = "non-integer"
		}
		if strings.HasPrefix(sv, "92233") || strings.HasPrefix(sv, "-92233") {
			class = "boundary"
		}
		run(c12Case{Setup: setup, Program: [][]string{{"INCR", "k"}}}, "INCR|"+class)
		run(c12Case{Setup: setup, Program: [][]string{{"DECR", "k"}}}, "DECR|"+class)
		for _, d := range deltas {
			run(c12Case{Setup: setup, Program: [][]string{{"INCRBY", "k", d}}}, "INCRBY|"+class)
			run(c12Case{Setup: setup, Program: [][]string{{"DECRBY", "k", d}}}, "DECRBY|"+class)
		}
	}
	// 5. APPEND / STRLEN / PING / ECHO over the nasty strings
	for _, a := range Nasty {
		for _, b := range Nasty {
			run(c12Case{Setup: [][]string{{"SET", "k", a}}, Program: [][]string{{"APPEND", "k", b}, {"STRLEN", "k"}, {"GET", "k"}}}, "APPEND")
		}
		run(c12Case{Program: [][]string{{"APPEND", "k", a}, {"STRLEN", "k"}, {"STRLEN", "nokey"}}}, "APPEND")
		run(c12Case{Program: [][]string{{"ECHO", a}}}, "ECHO")
		if a != "" {
			run(c12Case{Program: [][]string{{"PING", a}}}, "PING")
		}
	}
	run(c12Case{Program: [][]string{{"PING"}}}, "PING")
	// 6. MSET / MSETNX / MGET over a 3-key pool under every map-iteration order
	keys := []string{"a", "b", "c"}
	var pairLists [][]string
	var rec func(cur []string, n int)
	rec = func(cur []string, n int) {
		if n > 0 {
			pairLists = append(pairLists, append([]string{}, cur...))
		}
		if n == 3 {
			return
		}
		for _, k := range keys {
			rec(append(append([]string{}, cur...), k, "v"+itoa(n)), n+1)
		}
	}
	rec(nil, 0)
	presets := [][][]string{nil, {{"SET", "a", "old"}}, {{"SET", "b", "old"}, {"SET", "c", "old"}}}
	for _, pre := range presets {
		for _, pl := range pairLists {
			for perm := 0; perm < 6; perm++ {
				run(c12Case{Setup: pre, Program: [][]string{append([]string{"MSET"}, pl...), {"MGET", "a", "b", "c", "a"}}, MapPerm: perm}, "MSET")
				run(c12Case{Setup: pre, Program: [][]string{append([]string{"MSETNX"}, pl...), {"MGET", "c", "b", "a"}}, MapPerm: perm}, "MSETNX")
			}
		}
	}
	// 7. hashes of 0..3 fields
	hsetup := func(n int) [][]string {
		var s [][]string
		for i := 0; i < n; i++ {
			s = append(s, []string{"HSET", "h", "f" + itoa(i), strings.Repeat("x", i)})
		}
		return s
	}
	for n := 0; n <= 3; n++ {
		for _, cmd := range [][]string{{"HKEYS", "h"}, {"HVALS", "h"}, {"HLEN", "h"}, {"HEXISTS", "h", "f0"}, {"HEXISTS", "h", "f2"}, {"HEXISTS", "h", "zz"}, {"HSTRLEN", "h", "f0"}, {"HSTRLEN", "h", "f2"}, {"HSTRLEN", "h", "zz"}, {"HMGET", "h", "f2", "zz", "f0", "f2"}, {"HMGET", "h", "f1"}} {
			run(c12Case{Setup: hsetup(n), Program: [][]string{cmd}}, cmd[0])
		}
		for _, pl := range pairLists {
			for perm := 0; perm < 6; perm++ {
				hp := append([]string{"HMSET", "h"}, pl...)
				run(c12Case{Setup: hsetup(n), Program: [][]string{hp, {"HMGET", "h", "a", "b", "c", "f0"}, {"HLEN", "h"}}, MapPerm: perm}, "HMSET")
			}
		}
	}
	// 8. cardinalities
	for n := 0; n <= 3; n++ {
		var ss, zs [][]string
		for i := 0; i < n; i++ {
			ss = append(ss, []string{"SADD", "s", "m" + itoa(i)})
			zs = append(zs, []string{"ZADD", "z", itoa(i), "m" + itoa(i)})
		}
		run(c12Case{Setup: ss, Program: [][]string{{"SCARD", "s"}, {"SISMEMBER", "s", "m0"}, {"SISMEMBER", "s", "m2"}, {"SISMEMBER", "s", "zz"}, {"SISMEMBER", "nokey", "m0"}}}, "SCARD")
		run(c12Case{Setup: zs, Program: [][]string{{"ZCARD", "z"}, {"ZCARD", "nokey"}}}, "ZCARD")
	}
	// 9. short programs over the composite commands, from every stored state they reach
	alpha := [][]string{
		{"APPEND", "k", "ab"}, {"APPEND", "k", ""}, {"INCR", "k"}, {"DECR", "k"}, {"INCRBY", "k", "5"}, {"DECRBY", "k", "-3"}, {"STRLEN", "k"},
		{"GETRANGE", "k", "0", "-1"}, {"GETRANGE", "k", "1", "5"}, {"MSET", "k", "7", "j", "x"}, {"MSETNX", "k", "1", "j", "2"}, {"MGET", "k", "j"},
		{"SET", "k", "12"}, {"SET", "k", "hello"}, {"DEL", "k"}, {"GET", "k"},
		{"HMSET", "h", "a", "1", "b", "2"}, {"HMGET", "h", "a", "x"}, {"HKEYS", "h"}, {"HVALS", "h"}, {"HLEN", "h"}, {"HEXISTS", "h", "a"}, {"HSTRLEN", "h", "b"}, {"HDEL", "h", "a"},
		{"SADD", "s", "m"}, {"SCARD", "s"}, {"SISMEMBER", "s", "m"}, {"SREM", "s", "m"},
		{"ZADD", "z", "1", "a", "2", "b", "3", "c"}, {"ZCARD", "z"}, {"ZREVRANGE", "z", "0", "1"}, {"ZREVRANGE", "z", "0", "-1", "WITHSCORES"}, {"ZREVRANGEBYSCORE", "z", "+inf", "(1"}, {"ZREM", "z", "b"},
	}
	depth := 3
	if c.Thorough() {
		depth = 5
	}
	capped := false
	var progs func(cur [][]string, d int)
	progs = func(cur [][]string, d int) {
		if len(cur) > 0 {
			if len(cur) > 3 && c.Expired() {
				if !capped {
					capped = true
					c.Cap("programs of length > 3 stopped by the internal deadline")
				}
				return
			}
			run(c12Case{Program: append([][]string{}, cur...)}, "program")
		}
		if d == depth {
			return
		}
		for _, a := range alpha {
			progs(append(cur, a), d+1)
		}
	}
	progs(nil, 0)
	// 9b. a composite after a conditional / option-carrying command on another
	// key of the same server (whatever that command leaves behind in the
	// executors must not change what the composite does), on populated state
	preset := [][]string{{"SET", "k", "old"}, {"SET", "n", "10"}, {"HSET", "h", "a", "old"}, {"HSET", "h", "b", "old2"}, {"ZADD", "z", "1", "a", "2", "b"}, {"SADD", "s", "m"}}
	contexts := [][]string{
		{"SETNX", "q", "v"}, {"SETNX", "k", "v"}, {"HSETNX", "g", "f", "v"}, {"HSETNX", "h", "a", "v"}, {"MSETNX", "q", "1", "r", "2"}, {"MSETNX", "k", "1", "r", "2"},
		{"SET", "q", "v", "NX"}, {"SET", "k", "v2", "XX"}, {"SET", "q", "v", "XX"}, {"SET", "k", "v3", "GET"},
		{"ZADD", "y", "NX", "1", "a"}, {"ZADD", "z", "XX", "5", "a"}, {"ZADD", "z", "NX", "5", "a"}, {"ZADD", "z", "GT", "0", "b"}, {"ZADD", "z", "CH", "7", "b"}, {"ZADD", "z", "INCR", "1", "a"},
		{"INCRBY", "n", "5"}, {"DECR", "n"}, {"APPEND", "q", "x"}, {"HMSET", "g", "f", "1"}, {"MSET", "q", "1"}, {"GETRANGE", "k", "1", "1"}, {"ZREVRANGEBYSCORE", "z", "2", "1", "LIMIT", "1", "1"}, {"ZREVRANGE", "z", "0", "0", "WITHSCORES"},
	}
	writers := [][]string{
		{"MSET", "k", "new", "j", "x"}, {"MSETNX", "k", "1", "t", "2"}, {"MSETNX", "t", "1", "u", "2"}, {"HMSET", "h", "a", "new", "c", "3"}, {"HSET", "h", "a", "new"}, {"SET", "k", "new"},
		{"APPEND", "k", "+x"}, {"INCR", "n"}, {"DECRBY", "n", "3"}, {"ZADD", "z", "9", "a"}, {"ZREVRANGE", "z", "0", "-1", "WITHSCORES"}, {"ZREVRANGEBYSCORE", "z", "+inf", "-inf", "WITHSCORES"}, {"SADD", "s", "m2"},
	}
	readback := [][]string{{"MGET", "k", "j", "n", "t", "u"}, {"HMGET", "h", "a", "b", "c"}, {"HVALS", "h"}, {"HLEN", "h"}, {"HSTRLEN", "h", "a"}, {"ZREVRANGE", "z", "0", "-1", "WITHSCORES"}, {"SCARD", "s"}}
	for _, x := range contexts {
		for _, w := range writers {
			run(c12Case{Setup: preset, Context: 1, Program: append([][]string{x, w}, readback...)}, "after-"+x[0])
			for _, w2 := range writers {
				if c.Thorough() || w2[0] == w[0] {
					run(c12Case{Setup: preset, Context: 1, Program: append([][]string{x, w, w2}, readback...)}, "after-"+x[0])
				}
			}
		}
	}
	// 9c. pair lists that end with a key without its value: rejected as a whole, the store is
	// as it was (the read-back and the final store comparison see a partial write)
	for _, bad := range [][]string{
		{"MSET", "k", "new", "j"}, {"MSET", "j", "1", "t", "2", "u"}, {"MSETNX", "t", "1", "u"}, {"MSETNX", "t", "1", "u", "2", "v"},
		{"HMSET", "h", "a", "new", "c"}, {"HMSET", "g", "f", "1", "f2"}, {"HMSET", "h", "c", "3", "d", "4", "e"},
	} {
		run(c12Case{Setup: preset, Program: append([][]string{bad}, readback...)}, "odd-pair-list")
		run(c12Case{Program: append([][]string{bad}, readback...)}, "odd-pair-list")
	}
	// 9d. lengths and ranges count BYTES: values with multi-byte sequences and invalid UTF-8
	for _, v := range []string{"h\xc3\xa9llo", "\xe6\x97\xa5\xe6\x9c\xac\xe8\xaa\x9e", "a\xf0\x9f\x98\x80b", "\xff\xfe", "\xc3", "e\xcc\x81"} {
		run(c12Case{Setup: [][]string{{"SET", "k", v}, {"HSET", "h", "f", v}}, Program: [][]string{{"STRLEN", "k"}, {"HSTRLEN", "h", "f"}, {"GETRANGE", "k", "0", "-1"}, {"GETRANGE", "k", "1", "2"}, {"GETRANGE", "k", "-2", "-1"}, {"SUBSTR", "k", "0", "0"}, {"APPEND", "k", ""}, {"APPEND", "k", v}, {"STRLEN", "k"}}}, "multi-byte")
	}
	// 10. CONFIG SET / GET
	c12Config(c)
}

// c12Config: CONFIG GET returns, in request order, the values last stored with CONFIG SET.
func c12Config(c *fw.Ctx) {
	cfgKeys := []string{"a", "b", "maxmemory"}
	var sets [][]string
	var rec func(cur []string, n int)
	rec = func(cur []string, n int) {
		if n > 0 {
			sets = append(sets, append([]string{}, cur...))
		}
		if n == 3 {
			return
		}
		for _, k := range cfgKeys {
			rec(append(append([]string{}, cur...), k, "v"+strconv.Itoa(n)), n+1)
		}
	}
	rec(nil, 0)
	gets := [][]string{{"a"}, {"b", "a"}, {"a", "zz", "a"}, {"maxmemory", "b", "a"}, {"zz"}}
	for _, st := range sets {
		for _, st2 := range [][]string{nil, {"a", "second"}} {
			for _, g := range gets {
				for perm := 0; perm < 6; perm++ {
					if !c.Mine() {
						continue
					}
					c.Eval()
					c.Nontrivial()
					cs := c12Case{Program: [][]string{append([]string{"CONFIG", "SET"}, st...)}, MapPerm: perm}
					if st2 != nil {
						cs.Program = append(cs.Program, append([]string{"CONFIG", "SET"}, st2...))
					}
					cs.Program = append(cs.Program, append([]string{"CONFIG", "GET"}, g...))
					if clause, detail := c12ConfigCheck(cs); clause != "" {
						c.Violation("C12|CONFIG|"+clause, detail, cs)
					}
				}
			}
		}
	}
}

func c12ConfigCheck(cs c12Case) (clause, detail string) {
	s := srv.NewServer(srv.NewRefStore())
	var input []byte
	vals := map[string]string{}
	var want []resp.Value
	for _, p := range cs.Program {
		input = append(input, grammar.Encode(p)...)
		if strings.EqualFold(p[1], "SET") {
			for i := 2; i+1 < len(p); i += 2 {
				vals[p[i]] = p[i+1]
			}
			want = append(want, resp.S("OK"))
		} else {
			arr := resp.A()
			for _, k := range p[2:] {
				arr.Elems = append(arr.Elems, resp.B(k), resp.B(vals[k]))
			}
			want = append(want, arr)
		}
	}
	if cs.MapPerm > 0 {
		p := cs.MapPerm
		vrt.MapOrder = func(site string, n int) []int { return vrt.NthPerm(n, p%vrt.Factorial(n)) }
		defer func() { vrt.MapOrder = nil }()
	}
	out := srv.RunConn(s, seq.NewConn(seq.Script{Input: input}))
	if cl, dt := crashClause(out); cl != "" {
		return cl, dt
	}
	got, derr := resp.DecodeAll(out.Reply)
	if derr != nil || len(got) != len(want) {
		return "reply-count", fmt.Sprintf("replies %s err=%v", valuesString(got), derr)
	}
	for i := range want {
		if !got[i].Equal(want[i]) {
			return "reply", fmt.Sprintf("%s replied %s, expected %s", argsString(cs.Program[i]), got[i], want[i])
		}
	}
	return "", ""
}

func c12Replay(raw json.RawMessage) (string, bool, error) {
	var cs c12Case
	if err := json.Unmarshal(raw, &cs); err != nil {
		return "", false, err
	}
	var clause, detail string
	if len(cs.Program) > 0 && strings.EqualFold(cs.Program[0][0], "CONFIG") {
		clause, detail = c12ConfigCheck(cs)
	} else {
		clause, detail = c12Check(cs)
	}
	return fmt.Sprintf("setup=%v program=%v perm=%d clause=%q %s", cs.Setup, cs.Program, cs.MapPerm, clause, detail), clause != "", nil
}

func init() {
	fw.Register(&fw.Prop{
		ID:          "C12",
		Level:       "exploration",
		Rule:        "handler = a reference store whose primitives are executed by the Redis model; composites are the code under test. Enumerated exhaustively: GETRANGE/SUBSTR over value lengths 0..6 and the missing key x start,end in -9..9; ZREVRANGE over sizes 0..5 (distinct scores and ties) x start,stop in -7..7 x WITHSCORES; ZREVRANGEBYSCORE over sizes 0..4 x 8x8 bounds incl. exclusive x 7 LIMITs x WITHSCORES; counters over 19 stored values (missing, non-integers incl. non-canonical forms such as 007, +5, -0, int64 boundaries) x INCR/DECR/INCRBY/DECRBY x 11 deltas; APPEND/STRLEN/PING/ECHO over 13 nasty strings (pairs); MSET/MSETNX/MGET over all 1..3-pair lists of a 3-key pool x 4 presets x all 6 map-iteration orders; hashes of 0..3 fields x read composites, HMSET x map orders; cardinalities of sizes 0..3; all programs of length <=3 (thorough 5) over 34 commands from the initial state (so every state reachable by shorter programs is a starting state); a composite write (13 forms) and read-back after each of 24 conditional / option-carrying commands (SETNX, HSETNX, MSETNX, SET NX|XX|GET, ZADD NX|XX|GT|CH|INCR, counters, ...) on a populated store; CONFIG SET (1..3 pairs, repeated keys, second SET) then CONFIG GET (repeats, unknown keys) x map orders. Oracle: reply value tree (type-strict; errors compared as 'is an error') and final store contents equal the model's. Pair lists ending with a key without its value (MSET, MSETNX, HMSET) are rejected as a whole. Lengths and ranges of values with multi-byte and invalid UTF-8 sequences count bytes.",
		Assumptions: []string{"the Redis model in /verif/model is the reference", "random programs beyond the bound are not claimed"},
		Run:         c12Run,
		Replay:      c12Replay,
	})
}
