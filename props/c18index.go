package props

import (
	"fmt"
	"strconv"

	exsrv "github.com/cybergarage/go-redis/examples/go-redisd/server"
	"verif/fw"
	"verif/grammar"
	"verif/model"
	"verif/resp"
	"verif/seq"
	"verif/srv"
)

// C18, index part: every index (pair) from -6..6 against lists, sorted sets and strings of
// length 0..4 held by the bundled store: LRANGE, LINDEX, ZRANGE (with REV), GETRANGE. The
// reply must be what the Redis model answers for the same stored value - in particular
// for indexes in front of the head and behind the tail, inverted and negative ranges.

type c18IndexCase struct {
	Kind  string   `json:"kind"` // "index"
	Setup []string `json:"setup"`
	Cmd   []string `json:"cmd"`
}

func c18IndexCheck(cs c18IndexCase) (clause, detail string) {
	ex := exsrv.NewServer()
	st := model.New()
	var in []byte
	n := 1
	if len(cs.Setup) > 0 {
		in = append(in, grammar.Encode(cs.Setup)...)
		st.Apply(cs.Setup)
		n = 2
	}
	in = append(in, grammar.Encode(cs.Cmd)...)
	want := st.Apply(cs.Cmd)
	out := srv.RunConn(ex.Server, seq.NewConn(seq.Script{Input: in}))
	if cl, dt := crashClause(out); cl != "" {
		return cl, dt
	}
	vals, derr := resp.DecodeAll(out.Reply)
	if derr != nil || len(vals) != n {
		return "reply-count", fmt.Sprintf("%d requests, replies %s", n, trunc(out.Reply, 100))
	}
	if cl := c18Same(cs.Cmd, vals[n-1], want, st); cl != "" {
		return cl, fmt.Sprintf("after %q: %q answered %s, Redis answers %s", cs.Setup, cs.Cmd, vals[n-1], want)
	}
	return "", ""
}

func c18Index(c *fw.Ctx) {
	run := func(setup, cmd []string) {
		if !c.Mine() {
			return
		}
		cs := c18IndexCase{Kind: "index", Setup: setup, Cmd: cmd}
		c.Eval()
		c.Nontrivial()
		if clause, detail := c18IndexCheck(cs); clause != "" {
			c.Violation("C18|index|"+cmd[0]+"|"+clause, detail, cs)
		}
	}
	for L := 0; L <= 4; L++ {
		var list, zset []string
		str := ""
		if L > 0 {
			list = []string{"RPUSH", "k"}
			zset = []string{"ZADD", "k"}
			for i := 0; i < L; i++ {
				e := string(rune('a' + i))
				list = append(list, e)
				zset = append(zset, strconv.Itoa(i+1), e)
				str += e
			}
		}
		var sset []string
		if L > 0 {
			sset = []string{"SET", "k", str}
		}
		for a := -6; a <= 6; a++ {
			as := strconv.Itoa(a)
			run(list, []string{"LINDEX", "k", as})
			for b := -6; b <= 6; b++ {
				bs := strconv.Itoa(b)
				run(list, []string{"LRANGE", "k", as, bs})
				run(zset, []string{"ZRANGE", "k", as, bs})
				run(zset, []string{"ZRANGE", "k", as, bs, "REV"})
				run(zset, []string{"ZREVRANGE", "k", as, bs, "WITHSCORES"})
				run(sset, []string{"GETRANGE", "k", as, bs})
			}
		}
	}
}
