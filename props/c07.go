package props

import (
	"bytes"
	"encoding/json"
	"fmt"
	"strings"

	exsrv "github.com/cybergarage/go-redis/examples/go-redisd/server"
	"github.com/cybergarage/go-redis/redis"
	"verif/fw"
	"verif/grammar"
	"verif/resp"
	"verif/seq"
	"verif/srv"
)

// C07 (sequential part): no request can crash the server or hang a connection.
// The interleaving part with a witness connection lives in c07sched.go.

type c07Case struct {
	Store  string     `json:"store"` // "double" | "example"
	Setup  [][]string `json:"setup,omitempty"`
	Input  []byte     `json:"input"`
	Reset  bool       `json:"reset,omitempty"`
	Stride int        `json:"stride,omitempty"`
}

var c07Boundary = []string{"0", "1", "-1", "2", "3", "4", "-3", "-4", "9223372036854775807", "-9223372036854775808"}

func c07Setups() map[string][][]string {
	out := map[string][][]string{}
	for _, n := range []int{0, 1, 3} {
		var s [][]string
		if n > 0 {
			s = append(s, []string{"SET", "s", "abc"[:n]})
			h := []string{"HMSET", "h"}
			l := []string{"RPUSH", "l"}
			st := []string{"SADD", "st"}
			z := []string{"ZADD", "z"}
			for i := 0; i < n; i++ {
				e := string(rune('a' + i))
				h = append(h, e, e)
				l = append(l, e)
				st = append(st, e)
				z = append(z, fmt.Sprint(i+1), e)
			}
			s = append(s, h, l, st, z)
		} else {
			s = append(s, []string{"SET", "s", ""})
		}
		out[fmt.Sprint(n)] = s
	}
	return out
}

func c07Check(cs c07Case) (clause, detail string) {
	var server *redis.Server
	if cs.Store == "example" {
		ex := exsrv.NewServer()
		server = ex.Server
		var in []byte
		for _, c := range cs.Setup {
			in = append(in, grammar.Encode(c)...)
		}
		if len(in) > 0 {
			if o := srv.RunConn(server, seq.NewConn(seq.Script{Input: in})); o.Panic != "" || o.Spin != "" {
				cl, dt := crashClause(o)
				return "setup-" + cl, dt
			}
		}
	} else {
		d := srv.NewDouble()
		catalogueDouble(d)
		server = srv.NewServer(d)
		server.SetAuthCommandHandler(d)
	}
	end := seq.EndEOF
	if cs.Reset {
		end = seq.EndReset
	}
	out := srv.RunConn(server, seq.NewConn(seq.Script{Input: cs.Input, End: end, Stride: cs.Stride}))
	if cl, dt := crashClause(out); cl != "" {
		return cl, dt
	}
	if !cs.Reset {
		if _, derr := resp.DecodeAll(out.Reply); derr != nil {
			return "reply-malformed", derr.Error() + " in " + trunc(out.Reply, 120)
		}
	}
	if out.Closes == 0 {
		return "not-closed", "connection not closed at end of stream"
	}
	// the server must still serve a fresh connection afterwards
	o2 := srv.RunConn(server, seq.NewConn(seq.Script{Input: grammar.Encode([]string{"PING"})}))
	if cl, dt := crashClause(o2); cl != "" {
		return "later-connection-" + cl, dt
	}
	if string(o2.Reply) != "+PONG\r\n" {
		return "later-connection", "a later connection's PING was answered " + trunc(o2.Reply, 60)
	}
	return "", ""
}

func c07Run(c *fw.Ctx) {
	ping := grammar.Encode([]string{"PING"})
	run := func(cs c07Case, key string) {
		if !c.Mine() {
			return
		}
		c.Eval()
		c.Nontrivial()
		if c.WantSample() {
			c.Sample(map[string]any{"store": cs.Store, "setup": cs.Setup, "input": trunc(cs.Input, 80)})
		}
		if clause, detail := c07Check(cs); clause != "" {
			c.Violation("C07|"+key+"|"+clause, detail+" input="+trunc(cs.Input, 100)+" setup="+fmt.Sprint(cs.Setup), cs)
		}
	}
	setups := c07Setups()
	keys := []string{"nokey", "s", "h", "l", "st", "z"}
	// 1. boundary-argument vectors against the example store and the double
	for _, s := range grammar.Specs {
		if s.Name == "QUIT" || s.Name == "CONFIG" {
			continue
		}
		pools := make([][]string, len(s.Pos))
		for i, k := range s.Pos {
			switch k {
			case grammar.Key:
				pools[i] = keys
			case grammar.Int:
				pools[i] = c07Boundary
			case grammar.Float:
				pools[i] = []string{"0", "-1", "1e308", "-inf", "+inf"}
			case grammar.Bound:
				if s.Name == "ZRANGE" {
					pools[i] = c07Boundary
				} else {
					pools[i] = []string{"-inf", "+inf", "0", "(1", "3", "(3"}
				}
			case grammar.Str:
				pools[i] = []string{"", "a", "*"}
			default:
				pools[i] = []string{"GET"}
			}
		}
		var tails [][]string
		switch s.Tail {
		case grammar.TNone:
			tails = [][]string{nil}
		case grammar.TStrs:
			tails = [][]string{{"a"}, {"a", "zz", "a"}, {""}}
			if len(s.Pos) == 0 {
				tails = [][]string{{"s"}, {"l", "nokey", "l"}, {"z", "h", "st"}}
			}
		case grammar.TPairs:
			tails = [][]string{{"a", "1"}, {"a", "1", "a", ""}, {"s", "1", "l", "2"}}
		case grammar.TScoreMembers:
			tails = [][]string{{"1", "a"}, {"-inf", "a", "+inf", "b"}, {"NX", "1", "a"}, {"XX", "CH", "2", "zz"}, {"INCR", "1", "a"}}
		case grammar.TOptional:
			switch s.Name {
			case "ZRANGEBYSCORE", "ZREVRANGEBYSCORE":
				tails = [][]string{nil, {"WITHSCORES"}}
				for _, o := range []string{"-1", "0", "1", "2", "5"} {
					for _, n := range []string{"-1", "0", "1", "2", "5"} {
						tails = append(tails, []string{"LIMIT", o, n}, []string{"WITHSCORES", "LIMIT", o, n})
					}
				}
			case "ZRANGE":
				tails = [][]string{nil, {"WITHSCORES"}, {"REV"}, {"REV", "WITHSCORES"}, {"BYSCORE"}, {"BYSCORE", "LIMIT", "1", "2"}, {"BYSCORE", "LIMIT", "2", "1"}, {"BYSCORE", "REV", "LIMIT", "0", "5"}}
			case "ZREVRANGE":
				tails = [][]string{nil, {"WITHSCORES"}}
			case "LPOP", "RPOP":
				tails = [][]string{nil}
				for _, n := range c07Boundary {
					tails = append(tails, []string{n})
				}
			case "SCAN":
				tails = [][]string{nil, {"COUNT", "0"}, {"COUNT", "-1"}, {"COUNT", "2"}, {"MATCH", "*", "COUNT", "1"}, {"MATCH", "["}, {"MATCH", "\\"}}
			case "SET":
				tails = [][]string{nil, {"NX"}, {"XX", "GET"}, {"EX", "9223372036854775807"}, {"PXAT", "9223372036854775807"}, {"KEEPTTL", "GET"}}
			case "EXPIRE", "EXPIREAT":
				tails = [][]string{nil, {"NX"}, {"GT"}}
			default:
				tails = [][]string{nil, {"x"}}
			}
		}
		total := 1
		for _, p := range pools {
			total *= len(p)
		}
		stride := 1
		if c.Quick() && total*len(tails) > 3000 {
			stride = total * len(tails) / 3000
		}
		n := 0
		productSlices(pools, func(pos []string) {
			for _, t := range tails {
				n++
				if stride > 1 && n%stride != 0 {
					continue
				}
				args := append(append([]string{s.Name}, pos...), t...)
				in := concat(grammar.Encode(args), ping)
				for size, setup := range setups {
					run(c07Case{Store: "example", Setup: setup, Input: in}, s.Name+"|example-store/"+size)
				}
				run(c07Case{Store: "double", Input: in}, s.Name+"|double")
			}
		})
		if stride > 1 && c.Shard == 0 {
			c.Note("quick samples every %d-th boundary vector of %s (%d vectors); thorough runs all", stride, s.Name, total*len(tails))
		}
	}
	// 1b. LIMIT offset/count over the full boundary pool (never sampled)
	for _, form := range [][]string{{"ZRANGEBYSCORE"}, {"ZREVRANGEBYSCORE"}, {"ZRANGE", "BYSCORE"}, {"ZRANGE", "BYSCORE", "REV"}} {
		for _, key := range []string{"z", "nokey", "s"} {
			for _, rng := range [][2]string{{"-inf", "+inf"}, {"+inf", "-inf"}, {"(1", "3"}, {"3", "1"}} {
				for _, o := range c07Boundary {
					for _, n := range c07Boundary {
						for _, ws := range [][]string{nil, {"WITHSCORES"}} {
							args := append(append([]string{form[0], key, rng[0], rng[1]}, form[1:]...), append([]string{"LIMIT", o, n}, ws...)...)
							in := concat(grammar.Encode(args), ping)
							for size, setup := range setups {
								run(c07Case{Store: "example", Setup: setup, Input: in}, form[0]+"|limit/example-store/"+size)
							}
							run(c07Case{Store: "double", Input: in}, form[0]+"|limit/double")
						}
					}
				}
			}
		}
	}
	// 2. frames that are not commands
	tops := []resp.Value{
		resp.A(), resp.A(resp.Nil()), resp.A(resp.Nil(), resp.B("k")), resp.A(resp.A()), resp.A(resp.A(resp.Nil())), resp.A(resp.A(resp.A())),
		resp.A(resp.I(1)), resp.A(resp.S("GET"), resp.B("k")), resp.A(resp.E("x")), resp.A(resp.B("GET"), resp.Nil()), resp.A(resp.B("GET"), resp.A()),
		resp.A(resp.B("MSET"), resp.Nil(), resp.Nil()), resp.A(resp.B("ZADD"), resp.B("z"), resp.Nil(), resp.B("a")), resp.A(resp.B("LPOP"), resp.B("l"), resp.A()),
		resp.S("x"), resp.E("x"), resp.I(1), resp.B("x"), resp.Nil(), {Kind: resp.Array, Null: true},
	}
	for _, t := range tops {
		for _, st := range []string{"double", "example"} {
			run(c07Case{Store: st, Setup: setups["3"], Input: concat(t.Bytes(), ping)}, "frame:"+c06Shape(t.Bytes()))
			run(c07Case{Store: st, Setup: setups["3"], Input: concat(ping, t.Bytes(), t.Bytes())}, "frame:"+c06Shape(t.Bytes()))
		}
	}
	// 3. the whole request catalogue, and every disconnect offset of the representatives
	cat := catalogue()
	for _, it := range cat {
		for _, st := range []string{"double", "example"} {
			run(c07Case{Store: st, Setup: setups["1"], Input: concat(it.Bytes, ping)}, "catalogue:"+it.Label[:strings.IndexByte(it.Label, '|')]+"/"+it.Kind)
		}
	}
	for _, it := range representatives(cat) {
		for cut := 0; cut <= len(it.Bytes); cut++ {
			for _, reset := range []bool{false, true} {
				run(c07Case{Store: "example", Setup: setups["1"], Input: it.Bytes[:cut], Reset: reset}, "disconnect")
			}
		}
	}
	// 4. malformed frames (the structured family of C06) through the connection loop
	alpha := []byte{'*', '$', '+', '-', ':', '0', '1', '2', '9', '\r', '\n', 'a'}
	for _, base := range c06Bases() {
		for k := 0; k < len(base); k++ {
			run(c07Case{Store: "example", Input: concat(append(append([]byte{}, base[:k]...), base[k+1:]...), ping)}, "malformed:deletion")
			for _, a := range alpha {
				if a == base[k] {
					continue
				}
				m := append([]byte{}, base...)
				m[k] = a
				run(c07Case{Store: "example", Input: concat(m, ping)}, "malformed:substitution")
			}
			if k < 12 || k >= len(base)-4 || c.Thorough() {
				for v := 0; v < 256; v++ {
					if byte(v) == base[k] || bytes.IndexByte(alpha, byte(v)) >= 0 {
						continue
					}
					m := append([]byte{}, base...)
					m[k] = byte(v)
					run(c07Case{Store: "example", Input: concat(m, ping)}, "malformed:byte-substitution")
				}
			}
		}
		for _, r := range digitRuns(base) {
			for _, num := range c06Boundary {
				if c06BigNumber(num) && atoiSafe(num) <= 1<<29 {
					continue
				}
				m := append(append(append([]byte{}, base[:r[0]]...), num...), base[r[1]:]...)
				run(c07Case{Store: "example", Input: concat(m, ping)}, "malformed:number")
			}
		}
	}
}

func atoiSafe(s string) int64 {
	var n int64
	fmt.Sscan(s, &n)
	return n
}

func productSlices(pools [][]string, f func([]string)) {
	cur := make([]string, len(pools))
	var rec func(i int)
	rec = func(i int) {
		if i == len(pools) {
			f(append([]string{}, cur...))
			return
		}
		for _, v := range pools[i] {
			cur[i] = v
			rec(i + 1)
		}
	}
	rec(0)
}

func c07Replay(raw json.RawMessage) (string, bool, error) {
	var cs c07Case
	if err := json.Unmarshal(raw, &cs); err != nil {
		return "", false, err
	}
	clause, detail := c07Check(cs)
	return fmt.Sprintf("store=%s setup=%v input=%s clause=%q %s", cs.Store, cs.Setup, trunc(cs.Input, 200), clause, detail), clause != "", nil
}
