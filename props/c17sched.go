package props

import (
	"fmt"
	"strings"

	"github.com/cybergarage/go-redis/redis/glob"
	"github.com/cybergarage/go-redis/vrt"
	"verif/fw"
	"verif/grammar"
	"verif/sched"
)

// C17, concurrent part: glob.Compile and the matchers it returns are used by
// every server in the process and may be called by the application at the same
// time. Two goroutines compile a pattern each and match all keys of length <= 2;
// every loop iteration of the instrumented glob package is a scheduling point
// (option FineLoops - the package has no synchronization operation of its own,
// so nothing else would ever interleave the two), and every schedule within the
// deviation bound is explored. Each goroutine's matcher must agree with the
// reference semantics on every key, whatever the other one did meanwhile.

type c17Pair struct {
	Kind    string   `json:"kind"` // "concurrent"
	P       []string `json:"patterns"`
	Choices []int    `json:"choices,omitempty"`
}

func c17PairExplorer(cs c17Pair, bound int, keys []string) *sched.Explorer {
	x := &sched.Explorer{Bound: bound, FineLoops: true}
	x.New = func() *sched.Run {
		viol := make([]string, len(cs.P))
		done := make([]bool, len(cs.P))
		body := func() {
			for i, p := range cs.P {
				i, p := i, p
				vrt.Go(fmt.Sprintf("compiler%d", i), func() {
					g, err := glob.Compile(p)
					if err != nil || g == nil {
						viol[i] = fmt.Sprintf("glob.Compile(%q) failed: %v", p, err)
						done[i] = true
						return
					}
					for _, k := range keys {
						if got, want := g.MatchString(k), grammar.GlobMatch(p, k); got != want {
							viol[i] = fmt.Sprintf("pattern %q key %q: library %v, glob semantics %v", p, k, got, want)
							break
						}
					}
					done[i] = true
				})
			}
		}
		return &sched.Run{
			Body: body,
			Verdict: func(r *vrt.Result) sched.Verdict {
				if v, ok := panicVerdict(r); ok {
					return v
				}
				for i := range cs.P {
					if viol[i] != "" {
						return sched.Verdict{Clause: "concurrent-compile", Detail: fmt.Sprintf("while %q was being compiled by another goroutine: %s", cs.P[1-i], viol[i]), Obs: viol[i]}
					}
					if !done[i] {
						return sched.Verdict{Clause: "concurrent-compile-stuck", Detail: fmt.Sprintf("compiling %q never finished", cs.P[i]), Obs: "stuck"}
					}
				}
				return sched.Verdict{Obs: "ok"}
			},
		}
	}
	return x
}

func c17Concurrent(c *fw.Ctx) {
	pats := []string{"a*", "?b", "$(", "a.b", "*", "(a|b)", "ab"}
	var keys []string
	eachString([]byte{'a', 'b', '*', '?', '.', '+', '(', '|', '$'}, 2, func(b []byte) { keys = append(keys, string(b)) })
	bound := 2
	if c.Thorough() {
		bound = 3
	}
	for _, p := range pats {
		for _, q := range pats {
			if !c.Mine() {
				continue
			}
			cs := c17Pair{Kind: "concurrent", P: []string{p, q}}
			x := c17PairExplorer(cs, bound, keys)
			x.Expired = c.Expired
			x.OnExec = func(choices []int, r *vrt.Result, v sched.Verdict) {
				c.Eval()
				if strings.HasPrefix(v.Obs, "HARNESS-PANIC") {
					c.HarnessError("C17 concurrent %v %s", cs.P, v.Obs)
				}
				if v.Clause != "" {
					cc := cs
					cc.Choices = choices
					c.Violation("C17|"+v.Clause+"|"+metaClass(p+q), v.Detail+fmt.Sprintf(" schedule=%v", choices), cc)
				}
			}
			x.Explore()
			c.Nontrivial()
			schedAccount(c, x, "concurrent "+p+" "+q)
		}
	}
}
