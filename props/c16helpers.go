package props

import "github.com/cybergarage/go-redis/redis"

var setOptNone = redis.SetOption{}

// nil2conn: the example store's handlers only use conn.Database(); a nil
// *redis.Conn would panic there, so the initial state of the example store is
// written through a throw-away server-side connection object obtained from the
// public API surface: a zero Conn has database 0.
func nil2conn() *redis.Conn { return &redis.Conn{} }
