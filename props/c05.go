package props

import (
	"encoding/json"
	"fmt"
	"math"
	"strings"

	"github.com/cybergarage/go-redis/redis"
	"verif/fw"
	"verif/grammar"
	"verif/resp"
	"verif/seq"
	"verif/srv"
)

// C05: commands reach the handler with exactly the arguments the client sent.

type c05Case struct {
	Kind     string     `json:"kind"` // "cmd" | "unknown" | "app" | "auth"
	DB       int        `json:"db"`
	Args     []string   `json:"args"`
	Calls    []srv.Call `json:"-"`
	CallKeys []string   `json:"expected_calls"`
	Multiset bool       `json:"multiset,omitempty"`
	Shape    string     `json:"shape,omitempty"`
	Delivery string     `json:"delivery,omitempty"` // "": whole; "1-byte"; "after-cr": a read ends after every CR
	Before   []string   `json:"before,omitempty"`   // kind "history": the request executed first, on another connection
	Absent   bool       `json:"absent,omitempty"`   // ... by a handler reporting every key absent
}

// c05Check executes one request after SELECT db and compares with the prediction.
func c05Check(cs c05Case) (clause, detail string) {
	input := concat(grammar.Encode([]string{"SELECT", fmt.Sprint(cs.DB)}), grammar.Encode(cs.Args))
	var appCalls []string
	script := seq.Script{Input: input}
	switch cs.Delivery {
	case "1-byte":
		script.Stride = 1
	case "after-cr":
		for i, b := range input {
			if b == '\r' && i+1 < len(input) {
				script.Splits = append(script.Splits, i+1)
			}
		}
	}
	r := runDouble(script, func(s *redis.Server, d *srv.Double) {
		s.SetAuthCommandHandler(d)
		s.RegisterExexutor("MYCMD", func(conn *redis.Conn, cmd string, args redis.Arguments) (*redis.Message, error) {
			var rest []string
			for {
				a, err := args.NextString()
				if err != nil {
					break
				}
				rest = append(rest, a)
			}
			appCalls = append(appCalls, fmt.Sprintf("db=%d %q", conn.Database(), rest))
			return redis.NewBulkMessage("app-token"), nil
		})
	})
	if cl, d := crashClause(r.Out); cl != "" {
		return cl, d
	}
	if r.DecErr != nil {
		return "reply-malformed", r.DecErr.Error() + " in " + trunc(r.Out.Reply, 120)
	}
	if len(r.Replies) != 2 {
		return "reply-count", fmt.Sprintf("2 requests, %d replies: %s", len(r.Replies), valuesString(r.Replies))
	}
	if !r.Replies[0].Equal(resp.S("OK")) {
		return "select-reply", "SELECT answered " + r.Replies[0].String()
	}
	rep := r.Replies[1]
	switch cs.Kind {
	case "unknown":
		if len(r.Double.Calls) != 0 || len(appCalls) != 0 {
			return "unknown-command-executed", "handler called: " + callsString(r.Double.Calls)
		}
		if !rep.IsError() {
			return "unknown-command-not-error", "reply " + rep.String()
		}
		return "", ""
	case "app":
		want := fmt.Sprintf("db=%d %q", cs.DB, cs.Args[1:])
		if len(cs.Args) == 1 {
			want = fmt.Sprintf("db=%d %q", cs.DB, []string(nil))
		}
		if len(appCalls) != 1 || appCalls[0] != want {
			return "app-executor-call", fmt.Sprintf("application executor calls %q, want [%s]", appCalls, want)
		}
		if len(r.Double.Calls) != 0 {
			return "app-executor-extra-call", callsString(r.Double.Calls)
		}
		if !rep.Equal(resp.B("app-token")) {
			return "app-executor-reply", "reply " + rep.String()
		}
		return "", ""
	}
	got := r.Double.Calls
	if !callsEqual(got, cs.Calls, cs.Multiset) {
		return "call-mismatch", fmt.Sprintf("handler calls %s, expected %s", callsString(got), strings.Join(cs.CallKeys, "; "))
	}
	connID := ""
	for _, c := range got {
		if c.DB != cs.DB {
			return "wrong-database", fmt.Sprintf("conn.Database()=%d inside %s after SELECT %d", c.DB, c.Method, cs.DB)
		}
		if connID == "" {
			connID = c.Conn
		} else if connID != c.Conn {
			return "conn-identity", "handler saw different connection objects within one request"
		}
	}
	// what the handler returns is what the client receives
	switch {
	case strings.EqualFold(cs.Args[0], "MSET") || strings.EqualFold(cs.Args[0], "HMSET"):
		if !rep.Equal(resp.S("OK")) {
			return "reply", "reply " + rep.String()
		}
	case strings.EqualFold(cs.Args[0], "MGET") || strings.EqualFold(cs.Args[0], "HMGET"):
		want := resp.A()
		for i := range cs.Calls {
			want.Elems = append(want.Elems, resp.B(fmt.Sprintf("tok%d", i+1)))
		}
		if !rep.Equal(want) {
			return "reply-not-handler-result", fmt.Sprintf("client received %s, want %s", rep, want)
		}
	default:
		if len(cs.Calls) != 1 || !rep.Equal(resp.B("tok1")) {
			return "reply-not-handler-result", fmt.Sprintf("handler returned $\"tok1\", client received %s", rep)
		}
	}
	return "", ""
}

func c05Run(c *fw.Ctx) {
	small := c.Quick()
	for _, s := range grammar.Specs {
		if s.Framework || s.Composite || s.Build == nil {
			continue
		}
		// the very large product commands use the reduced pools in quick
		reduce := small && (s.Name == "ZADD" || s.Name == "SET" || s.Name == "ZRANGE" || s.Name == "ZRANGEBYSCORE")
		grammar.EachWellFormed(s, reduce, 3, func(r grammar.Req) {
			for _, db := range []int{0, 3} {
				if !c.Mine() {
					continue
				}
				cs := c05Case{Kind: "cmd", DB: db, Args: r.Args, Calls: r.Calls, CallKeys: srv.CallKeys(r.Calls, false), Multiset: r.Multiset, Shape: r.Shape}
				c.Eval()
				c.Nontrivial()
				if c.WantSample() {
					c.Sample(map[string]any{"request": argsString(r.Args), "expected_calls": cs.CallKeys})
				}
				if clause, detail := c05Check(cs); clause != "" {
					c.Violation("C05|"+r.Cmd+"|"+r.Shape+"|"+clause, detail+" request="+argsString(r.Args), cs)
				} else if db == 0 {
					// the same request as the transport may hand it over: byte by byte, and cut after every CR
					for _, dl := range []string{"1-byte", "after-cr"} {
						cd := cs
						cd.Delivery = dl
						c.Eval()
						if clause, detail := c05Check(cd); clause != "" {
							c.Violation("C05|"+r.Cmd+"|"+r.Shape+"|"+dl+"|"+clause, detail+" request="+argsString(r.Args)+" delivery="+dl, cd)
						}
					}
				}
			}
		})
	}
	// arity ladder: list commands with N elements, N around the powers of two up to 4097
	// (anything the dispatcher sizes, clamps or pre-allocates per request shows here)
	arities := []int{15, 16, 17, 255, 256, 257, 1023, 1024, 1025, 1500, 4097}
	if c.Thorough() {
		arities = append(arities, 65535, 65536, 65537)
	}
	for _, s := range grammar.Specs {
		if s.Framework || s.Composite || s.Build == nil || (s.Tail != grammar.TStrs && s.Tail != grammar.TPairs && s.Tail != grammar.TScoreMembers) {
			continue
		}
		pos := make([]string, len(s.Pos))
		for i := range pos {
			pos[i] = "k"
		}
		for _, n := range arities {
			if !c.Mine() {
				continue
			}
			var tail []string
			for i := 0; i < n; i++ {
				switch s.Tail {
				case grammar.TStrs:
					tail = append(tail, fmt.Sprintf("e%d", i))
				case grammar.TPairs:
					tail = append(tail, fmt.Sprintf("f%d", i), fmt.Sprintf("v%d", i))
				case grammar.TScoreMembers:
					tail = append(tail, fmt.Sprint(i), fmt.Sprintf("m%d", i))
				}
			}
			calls := s.Build(pos, tail)
			cs := c05Case{Kind: "cmd", DB: 0, Args: append(append([]string{s.Name}, pos...), tail...), Calls: calls, CallKeys: []string{fmt.Sprintf("%d calls predicted for %d elements", len(calls), n)}, Multiset: s.Multiset, Shape: fmt.Sprintf("arity=%d", n)}
			c.Eval()
			c.Nontrivial()
			if clause, detail := c05Check(cs); clause != "" {
				if len(detail) > 600 {
					detail = detail[:600] + "..."
				}
				cs.Args = append(append([]string{s.Name}, pos...), "<ladder>", fmt.Sprint(n))
				c.Violation("C05|"+s.Name+"|arity-ladder|"+clause, detail+fmt.Sprintf(" request=%s with %d list elements", s.Name, n), cs)
			}
		}
	}
	c05History(c)
	// composites that delegate to one primitive: the primitive must be called with the
	// client's key/field and, for ZREVRANGEBYSCORE, with the client's bounds and
	// exclusive markers on the right side (the remaining arguments are the
	// implementation's business and are not compared)
	c05Delegations(c)
	c05Late(c)
	c05HandlerErrors(c)
	c05Counters(c)
	c05Windows(c)
	// AUTH dispatch to the auth handler
	for v := 0; v < 3; v++ {
		for _, a := range [][]string{{"AUTH", "pw"}, {"AUTH", "user", "pw"}, {"AUTH", "\r\n"}, {"AUTH", "u\x00", "p q"}} {
			if !c.Mine() {
				continue
			}
			args := append([]string{grammar.CaseVariant("AUTH", v)}, a[1:]...)
			user, pw := "", a[1]
			if len(a) == 3 {
				user, pw = a[1], a[2]
			}
			calls := []srv.Call{{Method: "Auth", Args: []any{user, pw}}}
			cs := c05Case{Kind: "auth", Args: args, Calls: calls, CallKeys: srv.CallKeys(calls, false), Shape: fmt.Sprint(len(a) - 1)}
			c.Eval()
			c.Nontrivial()
			if clause, detail := c05Check(cs); clause != "" {
				c.Violation("C05|AUTH|"+cs.Shape+"|"+clause, detail+" request="+argsString(args), cs)
			}
		}
	}
	// application-registered executors
	for v := 0; v < 3; v++ {
		for _, rest := range [][]string{nil, {"a"}, {"a", "", "\r\n"}, {"GET", "k"}} {
			for _, db := range []int{0, 3} {
				if !c.Mine() {
					continue
				}
				cs := c05Case{Kind: "app", DB: db, Args: append([]string{grammar.CaseVariant("MYCMD", v)}, rest...)}
				c.Eval()
				c.Nontrivial()
				if clause, detail := c05Check(cs); clause != "" {
					c.Violation("C05|MYCMD|app|"+clause, detail+" request="+argsString(cs.Args), cs)
				}
			}
		}
	}
	// unknown commands: registered names at edit distance 1, and a few fixed ones
	unknown := map[string]bool{"": true, "NOSUCH": true, "G ET": true, "GET\r\n": true, "\x00": true}
	for _, s := range grammar.Specs {
		n := s.Name
		unknown[n+"X"] = true
		unknown[n[:len(n)-1]] = true
		unknown["X"+n] = true
		unknown[n[1:]] = true
	}
	for _, s := range grammar.Specs {
		delete(unknown, s.Name)
	}
	delete(unknown, "MYCMD")
	for _, name := range sortedKeys(unknown) {
		for _, rest := range [][]string{nil, {"k"}, {"k", "v"}} {
			if !c.Mine() {
				continue
			}
			cs := c05Case{Kind: "unknown", Args: append([]string{name}, rest...)}
			c.Eval()
			c.Nontrivial()
			if clause, detail := c05Check(cs); clause != "" {
				c.Violation("C05|unknown-command||"+clause, detail+" request="+argsString(cs.Args), cs)
			}
		}
	}
}

// c05History: a request must reach the handler with the client's arguments
// whatever the server executed before. For every valid catalogue request A
// (every command, composites and framework commands included) run on one
// connection - once with a handler that reports everything present, once with
// one that reports everything absent, so that conditional composites such as
// MSETNX/HSETNX take both branches - and every representative request B sent
// afterwards on another connection of the same server, the calls recorded for
// B are the ones predicted for B alone.
func c05HistoryCheck(cs c05Case) (clause, detail string) {
	d := srv.NewDouble()
	s := srv.NewServer(d)
	s.SetAuthCommandHandler(d)
	if cs.Absent {
		d.Result = func(d *srv.Double, c srv.Call) (*redis.Message, error) { return redis.NewNilMessage(), nil }
	}
	if o := srv.RunConn(s, seq.NewConn(seq.Script{Input: grammar.Encode(cs.Before)})); o.Panic != "" || o.Spin != "" {
		return "", "" // the earlier request itself misbehaves: C03/C07
	}
	n := len(d.Calls)
	d.Result = nil
	out := srv.RunConn(s, seq.NewConn(seq.Script{Input: concat(grammar.Encode([]string{"SELECT", fmt.Sprint(cs.DB)}), grammar.Encode(cs.Args))}))
	if cl, dt := crashClause(out); cl != "" {
		return cl, dt
	}
	got := d.Calls[n:]
	if !callsEqual(got, cs.Calls, cs.Multiset) {
		return "call-mismatch-after-earlier-request", fmt.Sprintf("after %s, handler calls %s, expected %s", argsString(cs.Before), callsString(got), strings.Join(cs.CallKeys, "; "))
	}
	return "", ""
}

func c05History(c *fw.Ctx) {
	var after []c05Case
	for _, s := range grammar.Specs {
		if s.Framework || s.Composite || s.Build == nil {
			continue
		}
		n := 0
		grammar.EachWellFormed(s, true, 2, func(r grammar.Req) {
			// the first, and every 7th after it up to four per command: plain and option-carrying shapes
			if n%7 == 0 && n < 28 {
				after = append(after, c05Case{Kind: "history", DB: 3, Args: r.Args, Calls: r.Calls, CallKeys: srv.CallKeys(r.Calls, false), Multiset: r.Multiset, Shape: r.Shape})
			}
			n++
		})
	}
	var before [][]string
	perCmd := map[string]int{}
	for _, it := range catalogue() {
		if it.Kind != "valid" {
			continue
		}
		name := it.Label[:strings.IndexByte(it.Label, '|')]
		perCmd[name]++
		if perCmd[name] > 3 {
			continue
		}
		v, _, err := resp.Decode(it.Bytes, 0)
		if err != nil {
			continue
		}
		var a []string
		for _, e := range v.Elems {
			a = append(a, string(e.Data))
		}
		before = append(before, a)
	}
	for _, a := range before {
		for _, absent := range []bool{false, true} {
			for _, b := range after {
				if !c.Mine() {
					continue
				}
				cs := b
				cs.Before, cs.Absent = a, absent
				c.Eval()
				c.Nontrivial()
				if clause, detail := c05HistoryCheck(cs); clause != "" {
					c.Violation("C05|"+strings.ToUpper(b.Args[0])+"|after:"+strings.ToUpper(a[0])+"|"+clause, detail+" request="+argsString(b.Args), cs)
				}
			}
		}
	}
	if c.Shard == 0 {
		c.Count("history_contexts", int64(2*len(before)))
		c.Count("history_requests", int64(len(after)))
	}
}

type c05Deleg struct {
	Args   []string
	Method string
	Want   map[int]any // argument index of the handler call -> expected value
	Opt    map[string]bool
}

func c05DelegCheck(d c05Deleg) (clause, detail string) {
	r := runDouble(seq.Script{Input: grammar.Encode(d.Args)}, func(s *redis.Server, dd *srv.Double) { catalogueDouble(dd) })
	if cl, dt := crashClause(r.Out); cl != "" {
		return cl, dt
	}
	if len(r.Double.Calls) == 0 {
		return "delegation-no-call", "no handler call for " + argsString(d.Args)
	}
	c := r.Double.Calls[0]
	if c.Method != d.Method {
		return "delegation-method", fmt.Sprintf("%s called %s first, expected %s", argsString(d.Args), c.Method, d.Method)
	}
	for i, w := range d.Want {
		if i >= len(c.Args) || fmt.Sprintf("%#v", c.Args[i]) != fmt.Sprintf("%#v", w) {
			return "delegation-argument", fmt.Sprintf("%s called %s, argument %d should be %#v", argsString(d.Args), c.String(), i, w)
		}
	}
	if d.Opt != nil {
		opt, ok := c.Args[len(c.Args)-1].(redis.ZRangeOption)
		if !ok {
			return "delegation-argument", "last argument is not a ZRangeOption: " + c.String()
		}
		got := map[string]bool{"MINEXCLUSIVE": opt.MINEXCLUSIVE, "MAXEXCLUSIVE": opt.MAXEXCLUSIVE, "WITHSCORES": opt.WITHSCORES}
		for k, v := range d.Opt {
			if got[k] != v {
				return "delegation-option", fmt.Sprintf("%s called %s: option %s should be %v", argsString(d.Args), c.String(), k, v)
			}
		}
	}
	return "", ""
}

func c05Delegations(c *fw.Ctx) {
	var ds []c05Deleg
	for _, k := range []string{"k", "", "\r\n"} {
		for _, cmd := range []string{"STRLEN", "INCR", "DECR"} {
			ds = append(ds, c05Deleg{Args: []string{cmd, k}, Method: "Get", Want: map[int]any{0: k}})
		}
		ds = append(ds, c05Deleg{Args: []string{"APPEND", k, "v"}, Method: "Get", Want: map[int]any{0: k}})
		ds = append(ds, c05Deleg{Args: []string{"INCRBY", k, "5"}, Method: "Get", Want: map[int]any{0: k}})
		ds = append(ds, c05Deleg{Args: []string{"GETRANGE", k, "0", "1"}, Method: "Get", Want: map[int]any{0: k}})
		ds = append(ds, c05Deleg{Args: []string{"SUBSTR", k, "0", "1"}, Method: "Get", Want: map[int]any{0: k}})
		for _, cmd := range []string{"HKEYS", "HVALS", "HLEN"} {
			ds = append(ds, c05Deleg{Args: []string{cmd, k}, Method: "HGetAll", Want: map[int]any{0: k}})
		}
		for _, cmd := range []string{"HEXISTS", "HSTRLEN"} {
			ds = append(ds, c05Deleg{Args: []string{cmd, k, "f\x00"}, Method: "HGet", Want: map[int]any{0: k, 1: "f\x00"}})
		}
		ds = append(ds, c05Deleg{Args: []string{"SCARD", k}, Method: "SMembers", Want: map[int]any{0: k}})
		ds = append(ds, c05Deleg{Args: []string{"SISMEMBER", k, "m"}, Method: "SMembers", Want: map[int]any{0: k}})
		ds = append(ds, c05Deleg{Args: []string{"ZCARD", k}, Method: "ZRange", Want: map[int]any{0: k}})
		for _, ws := range []bool{false, true} {
			a := []string{"ZREVRANGE", k, "0", "-1"}
			if ws {
				a = append(a, "WITHSCORES")
			}
			ds = append(ds, c05Deleg{Args: a, Method: "ZRange", Want: map[int]any{0: k}, Opt: map[string]bool{"WITHSCORES": ws}})
		}
		for _, mx := range grammar.BoundPool {
			for _, mn := range grammar.BoundPool {
				for _, ws := range []bool{false, true} {
					a := []string{"ZREVRANGEBYSCORE", k, mx, mn}
					if ws {
						a = append(a, "withscores")
					}
					maxV, maxEx := c05Bound(mx)
					minV, minEx := c05Bound(mn)
					ds = append(ds, c05Deleg{Args: a, Method: "ZRangeByScore", Want: map[int]any{0: k, 1: minV, 2: maxV},
						Opt: map[string]bool{"MINEXCLUSIVE": minEx, "MAXEXCLUSIVE": maxEx, "WITHSCORES": ws}})
				}
			}
		}
	}
	for _, d := range ds {
		if !c.Mine() {
			continue
		}
		c.Eval()
		c.Nontrivial()
		if clause, detail := c05DelegCheck(d); clause != "" {
			c.Violation("C05|"+d.Args[0]+"|delegation|"+clause, detail, c05Case{Kind: "deleg", Args: d.Args})
		}
	}
}

func c05Bound(s string) (float64, bool) {
	ex := strings.HasPrefix(s, "(")
	if ex {
		s = s[1:]
	}
	var f float64
	switch s {
	case "+inf":
		f = math.Inf(1)
	case "-inf":
		f = math.Inf(-1)
	default:
		fmt.Sscan(s, &f)
	}
	return f, ex
}

func c05Replay(raw json.RawMessage) (string, bool, error) {
	var cs c05Case
	if err := json.Unmarshal(raw, &cs); err != nil {
		return "", false, err
	}
	if cs.Kind == "deleg" {
		return "", false, fmt.Errorf("delegation cases are re-derived by the check itself; run ./check C05 quick")
	}
	if len(cs.Args) >= 2 && cs.Args[len(cs.Args)-2] == "<ladder>" {
		return "", false, fmt.Errorf("arity-ladder cases are re-derived by the check itself; run ./check C05 quick")
	}
	if cs.Kind == "cmd" || cs.Kind == "auth" || cs.Kind == "history" {
		// re-derive the prediction from the grammar (the stored keys are informative only)
		cs.Calls = nil
		if cs.Kind == "auth" {
			user, pw := "", cs.Args[1]
			if len(cs.Args) == 3 {
				user, pw = cs.Args[1], cs.Args[2]
			}
			cs.Calls = []srv.Call{{Method: "Auth", Args: []any{user, pw}}}
		} else if s := grammar.Lookup(strings.ToUpper(cs.Args[0])); s != nil {
			found := false
			grammar.EachWellFormed(s, false, 3, func(r grammar.Req) {
				if !found && argsString(r.Args) == argsString(cs.Args) {
					cs.Calls, cs.Multiset, found = r.Calls, r.Multiset, true
				}
			})
			if !found {
				grammar.EachWellFormed(s, true, 2, func(r grammar.Req) {
					if !found && argsString(r.Args) == argsString(cs.Args) {
						cs.Calls, cs.Multiset, found = r.Calls, r.Multiset, true
					}
				})
			}
			if !found {
				grammar.EachWellFormed(s, true, 3, func(r grammar.Req) {
					if !found && argsString(r.Args) == argsString(cs.Args) {
						cs.Calls, cs.Multiset, found = r.Calls, r.Multiset, true
					}
				})
			}
			if !found {
				return "", false, fmt.Errorf("request %s is not produced by the grammar", argsString(cs.Args))
			}
		}
		cs.CallKeys = srv.CallKeys(cs.Calls, false)
	}
	if cs.Kind == "handler-error" {
		return "", false, fmt.Errorf("handler-error cases are re-derived by the check itself; run ./check C05 quick")
	}
	if cs.Kind == "late" {
		var lc c05LateCase
		if err := json.Unmarshal(raw, &lc); err != nil {
			return "", false, err
		}
		clause, detail := c05LateCheck(lc)
		return fmt.Sprintf("late registration %+v clause=%q %s", lc, clause, detail), clause != "", nil
	}
	if cs.Kind == "history" {
		clause, detail := c05HistoryCheck(cs)
		return fmt.Sprintf("before=%q absent=%v request=%q clause=%q %s", cs.Before, cs.Absent, cs.Args, clause, detail), clause != "", nil
	}
	clause, detail := c05Check(cs)
	return fmt.Sprintf("request=%s db=%d expected=%v clause=%q %s", argsString(cs.Args), cs.DB, cs.CallKeys, clause, detail), clause != "", nil
}

func init() {
	fw.Register(&fw.Prop{
		ID:    "C05",
		Level: "exploration",
		Rule:  "for every command that maps onto handler operations: all well-formed argument vectors from the independent grammar (positional values over small per-kind pools incl. binary/CRLF strings and boundary integers/floats, list tails of 1..3 elements with duplicates, pair lists with repeated keys, every legal option subset in every order for SET/ZADD/ZRANGE/ZRANGEBYSCORE/EXPIRE/SCAN/LPOP) x 3 letter-case variants x SELECT {0,3} (and, for SELECT 0, delivered whole, byte by byte, and with a read boundary after every CR); plus an arity ladder (every list / pair-list / score-member command with 15..4097 elements around the powers of two; thorough to 65537); plus the primitive call of every delegating composite (key/field passed through; ZREVRANGEBYSCORE bounds and exclusive markers on the right side), history independence (every valid catalogue request of every command, run first on another connection with a handler reporting everything present and one reporting everything absent, then up to four representative requests per command: the calls recorded for the later request are those predicted for it alone), AUTH forms, an application-registered executor (registered before any traffic, and registered or replaced after requests in every subset of three letter-case spellings: 6 commands x 8 histories x once/twice x 3 later spellings) and unknown names at edit distance 1. Each case is a distinct request; all are non-trivial (each compares the recorded handler calls with the predicted ones). A handler error - also of the n-th call of a composite command (HMGET, MGET, MSET, HMSET, the sugar commands) - must be what the client receives. The counters hand the exact sum to Set, also when it is the largest or smallest 64-bit integer.",
		Assumptions: []string{
			"the grammar in /verif/grammar (written from the Redis reference and the handler interface) is the reference for the expected call",
			"SCAN patterns are compared behaviourally on 14 probe keys; ZRANGE BYSCORE REV, SCAN TYPE, BYLEX are not generated (the interface cannot express them unambiguously)",
			"quick uses reduced value pools for SET/ZADD/ZRANGE*; thorough the full pools",
		},
		Run:    c05Run,
		Replay: c05Replay,
	})
}
