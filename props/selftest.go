package props

import (
	"fmt"
	"github.com/cybergarage/go-redis/redis/glob"
	"sort"
	"strings"
	"sync/atomic"
	"time"
	"unsafe"

	"github.com/cybergarage/go-redis/vrt"
	"verif/fw"
	"verif/sched"
)

// Self-test of the runtime's channel, select, condition-variable and atomic
// models: small programs written against the vrt entry points the
// instrumenter emits, explored exhaustively; for each the set of terminal
// observations over all schedules must be exactly the set Go allows.
// `vcheck aux selftest` exits 0 when every scenario behaves.

type selfScenario struct {
	name  string
	bound int
	body  func(obs *[]string)
	want  []string // the exact set of observations over all schedules
	races int      // -1: not checked; 0: no race may be reported; >0: at least one must be
}

func selfScenarios() []selfScenario {
	join := func(xs []int) string { return strings.Trim(fmt.Sprint(xs), "[]") }
	return []selfScenario{
		{name: "unbuffered-in-order", bound: 3, want: []string{"1 2 3"}, body: func(obs *[]string) {
			ch := vrt.MakeChan(make(chan int))
			var got []int
			vrt.Go("producer", func() {
				for i := 1; i <= 3; i++ {
					vrt.Send(ch, i, "p")
				}
				vrt.Close(ch, "p")
			})
			for {
				v, ok := vrt.Recv2(ch, "c")
				if !ok {
					break
				}
				got = append(got, v)
			}
			*obs = append(*obs, join(got))
		}},
		{name: "buffered-two-producers", bound: 3, want: []string{"1 2", "2 1"}, body: func(obs *[]string) {
			ch := vrt.MakeChan(make(chan int, 1))
			vrt.Go("p1", func() { vrt.Send(ch, 1, "p1") })
			vrt.Go("p2", func() { vrt.Send(ch, 2, "p2") })
			a := vrt.Recv1(ch, "c")
			b := vrt.Recv1(ch, "c")
			*obs = append(*obs, join([]int{a, b}))
		}},
		{name: "select-two-ready", bound: 3, want: []string{"a", "b"}, body: func(obs *[]string) {
			a := vrt.MakeChan(make(chan string, 1))
			b := vrt.MakeChan(make(chan string, 1))
			vrt.Send(a, "a", "s")
			vrt.Send(b, "b", "s")
			ca, cb := vrt.RecvCase(a), vrt.RecvCase(b)
			switch vrt.Select("sel", false, ca, cb) {
			case 0:
				*obs = append(*obs, ca.Val())
			case 1:
				*obs = append(*obs, cb.Val())
			}
		}},
		{name: "select-blocks-then-either", bound: 3, want: []string{"", "a:1", "b:2"} /* "" = both non-blocking senders ran before the receiver parked: Go deadlocks too */, body: func(obs *[]string) {
			a := vrt.MakeChan(make(chan int))
			b := vrt.MakeChan(make(chan int))
			vrt.Go("pa", func() {
				ca := vrt.SendCase(a, 1)
				vrt.Select("pa", true, ca) // non-blocking: may find nobody
			})
			vrt.Go("pb", func() {
				cb := vrt.SendCase(b, 2)
				vrt.Select("pb", true, cb)
			})
			ca, cb, done := vrt.RecvCase(a), vrt.RecvCase(b), vrt.RecvCase(vrt.MakeChan(make(chan int)))
			vrt.Go("closer", func() {})
			_ = done
			switch vrt.Select("sel", false, ca, cb) {
			case 0:
				*obs = append(*obs, fmt.Sprint("a:", ca.Val()))
			case 1:
				*obs = append(*obs, fmt.Sprint("b:", cb.Val()))
			}
		}},
		{name: "select-default", bound: 2, want: []string{"default", "got"}, body: func(obs *[]string) {
			ch := vrt.MakeChan(make(chan int, 1))
			vrt.Go("p", func() { vrt.Send(ch, 1, "p") })
			c := vrt.RecvCase(ch)
			if vrt.Select("sel", true, c) == 0 {
				*obs = append(*obs, "got")
			} else {
				*obs = append(*obs, "default")
			}
		}},
		{name: "close-wakes-receivers", bound: 3, want: []string{"woken=2"}, body: func(obs *[]string) {
			done := vrt.MakeChan(make(chan struct{}))
			woken := 0
			wg := vrt.WaitGroup{}
			for i := 0; i < 2; i++ {
				wg.Add(1)
				vrt.Go("waiter", func() {
					_, ok := vrt.Recv2(done, "w")
					if !ok {
						woken++
					}
					wg.Done()
				})
			}
			vrt.Close(done, "main")
			wg.Wait()
			*obs = append(*obs, fmt.Sprint("woken=", woken))
		}},
		{name: "send-on-closed-panics", bound: 2, want: []string{"panic:send on closed channel", "sent"}, body: func(obs *[]string) {
			ch := vrt.MakeChan(make(chan int, 1))
			res := vrt.MakeChan(make(chan string, 1))
			vrt.Go("sender", func() {
				defer func() {
					if r := recover(); r != nil {
						vrt.Send(res, fmt.Sprint("panic:", r), "s")
					}
				}()
				vrt.Send(ch, 1, "s")
				vrt.Send(res, "sent", "s")
			})
			vrt.Close(ch, "main")
			*obs = append(*obs, vrt.Recv1(res, "main"))
		}},
		{name: "receiver-parks-forever", bound: 2, want: []string{"parked"}, body: func(obs *[]string) {
			ch := vrt.MakeChan(make(chan int))
			vrt.Go("stuck", func() { vrt.Recv1(ch, "stuck") })
			vrt.WaitQuiet()
			*obs = append(*obs, "parked")
		}},
		{name: "rwmutex-recursive-read-lock", bound: 3, want: []string{"deadlock", "done"}, body: func(obs *[]string) {
			// a reader that read-locks again deadlocks iff a writer arrived in between
			var m vrt.RWMutex
			done := 0
			vrt.Go("reader", func() {
				m.RLock()
				m.RLock()
				m.RUnlock()
				m.RUnlock()
				done++
			})
			vrt.Go("writer", func() {
				m.Lock()
				m.Unlock()
				done++
			})
			vrt.WaitQuiet()
			if done == 2 {
				*obs = append(*obs, "done")
			} else {
				*obs = append(*obs, "deadlock")
			}
		}},
		{name: "atomic-check-then-act", bound: 2, want: []string{"entered=1", "entered=2"}, body: func(obs *[]string) {
			var flag atomic.Int32
			entered := 0
			wg := vrt.WaitGroup{}
			for i := 0; i < 2; i++ {
				wg.Add(1)
				vrt.Go("t", func() {
					if vrt.A(&flag, "load").Load() == 0 {
						vrt.A(&flag, "store").Store(1)
						entered++
					}
					wg.Done()
				})
			}
			wg.Wait()
			*obs = append(*obs, fmt.Sprint("entered=", entered))
		}},
		{name: "atomic-cas", bound: 3, want: []string{"entered=1"}, body: func(obs *[]string) {
			var flag atomic.Int32
			entered := 0
			wg := vrt.WaitGroup{}
			for i := 0; i < 2; i++ {
				wg.Add(1)
				vrt.Go("t", func() {
					if vrt.A(&flag, "cas").CompareAndSwap(0, 1) {
						entered++
					}
					wg.Done()
				})
			}
			wg.Wait()
			*obs = append(*obs, fmt.Sprint("entered=", entered))
		}},
		{name: "cond-signal", bound: 3, want: []string{"ready"}, body: func(obs *[]string) {
			var mu vrt.Mutex
			cond := vrt.NewCond(&mu)
			ready := false
			vrt.Go("setter", func() {
				mu.Lock()
				ready = true
				mu.Unlock()
				cond.Broadcast()
			})
			mu.Lock()
			for !ready {
				cond.Wait()
			}
			mu.Unlock()
			*obs = append(*obs, "ready")
		}},
		{name: "sleep-orders-by-duration", bound: 3, want: []string{"b a"}, body: func(obs *[]string) {
			var got []string
			wg := vrt.WaitGroup{}
			wg.Add(2)
			vrt.Go("a", func() { vrt.Sleep(2 * time.Second); got = append(got, "a"); wg.Done() })
			vrt.Go("b", func() { vrt.Sleep(1 * time.Second); got = append(got, "b"); wg.Done() })
			wg.Wait()
			*obs = append(*obs, strings.Join(got, " "))
		}},
		{name: "select-timeout-fires-when-stuck", bound: 3, want: []string{"timeout after 5s"}, body: func(obs *[]string) {
			ch := vrt.MakeChan(make(chan int))
			start := vrt.Now()
			cr, ct := vrt.RecvCase(ch), vrt.RecvCase(vrt.After(5*time.Second))
			switch vrt.Select("sel", false, cr, ct) {
			case 0:
				*obs = append(*obs, "got")
			case 1:
				*obs = append(*obs, fmt.Sprint("timeout after ", vrt.Since(start)))
			}
		}},
		{name: "select-timeout-loses-to-progress", bound: 3, want: []string{"got 7"}, body: func(obs *[]string) {
			ch := vrt.MakeChan(make(chan int))
			vrt.Go("sender", func() { vrt.Send(ch, 7, "s") })
			cr, ct := vrt.RecvCase(ch), vrt.RecvCase(vrt.After(5*time.Second))
			switch vrt.Select("sel", false, cr, ct) {
			case 0:
				*obs = append(*obs, fmt.Sprint("got ", cr.Val()))
			case 1:
				*obs = append(*obs, "timeout")
			}
		}},
		{name: "stopped-timer-never-fires", bound: 2, want: []string{"stopped=true fired=false"}, body: func(obs *[]string) {
			t := vrt.NewTimer(time.Second)
			stopped := t.Stop()
			vrt.Sleep(3 * time.Second)
			c := vrt.RecvCase(t.C)
			fired := vrt.Select("sel", true, c) == 0
			*obs = append(*obs, fmt.Sprint("stopped=", stopped, " fired=", fired))
		}},
		{name: "afterfunc-runs-as-a-thread", bound: 3, want: []string{"x=1"}, body: func(obs *[]string) {
			x := 0
			vrt.AfterFunc(time.Second, func() { x = 1 })
			vrt.Sleep(2 * time.Second)
			*obs = append(*obs, fmt.Sprint("x=", x))
		}},
		{name: "timer-beyond-horizon", bound: 2, want: []string{"parked"}, body: func(obs *[]string) {
			vrt.Go("idle", func() { vrt.Recv1(vrt.After(time.Hour), "idle") })
			vrt.WaitQuiet()
			*obs = append(*obs, "parked")
		}},
		{name: "ticker", bound: 2, want: []string{"ticks=3 elapsed=3s"}, body: func(obs *[]string) {
			start := vrt.Now()
			tk := vrt.NewTicker(time.Second)
			n := 0
			for n < 3 {
				vrt.Recv1(tk.C, "tick")
				n++
			}
			tk.Stop()
			*obs = append(*obs, fmt.Sprint("ticks=", n, " elapsed=", vrt.Since(start)))
		}},
		{name: "rendezvous-handoff", bound: 3, want: []string{"x=1 y=2"}, body: func(obs *[]string) {
			// an unbuffered exchange in both directions: each side continues only
			// after the other took part
			ch := vrt.MakeChan(make(chan int))
			back := vrt.MakeChan(make(chan int))
			x, y := 0, 0
			vrt.Go("r", func() {
				x = vrt.Recv1(ch, "r")
				vrt.Send(back, 2, "r")
			})
			vrt.Send(ch, 1, "s")
			y = vrt.Recv1(back, "s")
			*obs = append(*obs, fmt.Sprint("x=", x, " y=", y))
		}},
	}
}

// selfRaceScenarios exercise the happens-before edges of the channel model
// against the vector-clock oracle.
func selfRaceScenarios() []selfScenario {
	wr := func(p *int, site string) { vrt.Access(unsafe.Pointer(p), "x", site, true); *p++ }
	rd := func(p *int, site string) int { vrt.Access(unsafe.Pointer(p), "x", site, false); return *p }
	return []selfScenario{
		{name: "race:unsynchronised-writes", bound: 2, races: 1, body: func(obs *[]string) {
			x := new(int)
			vrt.Go("t", func() { wr(x, "t") })
			wr(x, "main")
		}},
		{name: "race:waitgroup-add-inside-the-goroutine", bound: 3, races: 1, body: func(obs *[]string) {
			// the worker counts itself after it was started while another worker is being waited for:
			// the first increment after the counter returned to zero is not ordered with that Wait
			wg := &vrt.WaitGroup{}
			wg.Add(1)
			vrt.Go("first", func() { wg.Done() })
			vrt.Go("late", func() {
				wg.Add(1)
				wg.Done()
			})
			wg.Wait()
		}},
		{name: "race:waitgroup-add-before-go", bound: 3, races: 0, body: func(obs *[]string) {
			wg := &vrt.WaitGroup{}
			for i := 0; i < 2; i++ {
				wg.Add(1)
				vrt.Go("worker", func() { wg.Done() })
			}
			wg.Wait()
		}},
		{name: "race:channel-as-semaphore", bound: 3, races: 0, body: func(obs *[]string) {
			x := new(int)
			sem := vrt.MakeChan(make(chan struct{}, 1))
			wg := vrt.WaitGroup{}
			for i := 0; i < 2; i++ {
				wg.Add(1)
				vrt.Go("t", func() {
					vrt.Send(sem, struct{}{}, "lock")
					wr(x, "t")
					vrt.Recv1(sem, "unlock")
					wg.Done()
				})
			}
			wg.Wait()
		}},
		{name: "race:message-passing", bound: 3, races: 0, body: func(obs *[]string) {
			x := new(int)
			ch := vrt.MakeChan(make(chan int, 1))
			vrt.Go("producer", func() { wr(x, "p"); vrt.Send(ch, 1, "p") })
			vrt.Recv1(ch, "c")
			rd(x, "c")
		}},
		{name: "race:unbuffered-receive-before-send-completes", bound: 3, races: 0, body: func(obs *[]string) {
			x := new(int)
			ch := vrt.MakeChan(make(chan int))
			vrt.Go("receiver", func() { wr(x, "r"); vrt.Recv1(ch, "r") })
			vrt.Send(ch, 0, "s")
			rd(x, "s")
		}},
		{name: "race:close-then-receive", bound: 3, races: 0, body: func(obs *[]string) {
			x := new(int)
			done := vrt.MakeChan(make(chan struct{}))
			vrt.Go("closer", func() { wr(x, "closer"); vrt.Close(done, "closer") })
			vrt.Recv2(done, "main")
			rd(x, "main")
		}},
		{name: "race:buffered-send-does-not-order-the-sender-after-the-receiver", bound: 3, races: 1, body: func(obs *[]string) {
			// the sender never waits for the receiver on a buffered channel
			x := new(int)
			ch := vrt.MakeChan(make(chan int, 1))
			vrt.Go("receiver", func() { vrt.Recv1(ch, "r"); wr(x, "r") })
			vrt.Send(ch, 0, "s")
			rd(x, "s")
		}},
		{name: "race:atomic-flag-publishes", bound: 3, races: 0, body: func(obs *[]string) {
			x := new(int)
			var flag atomic.Bool
			vrt.Go("publisher", func() { wr(x, "p"); vrt.A(&flag, "p").Store(true) })
			if vrt.A(&flag, "c").Load() {
				rd(x, "c")
			}
		}},
	}
}

func selfTest(args []string) int {
	failed := 0
	all := selfScenarios()
	for i := range all {
		all[i].races = -1
	}
	for _, sc := range append(all, selfRaceScenarios()...) {
		seen := map[string]bool{}
		x := &sched.Explorer{Bound: sc.bound, RaceDetect: sc.races >= 0}
		body := sc.body
		x.New = func() *sched.Run {
			var obs []string
			return &sched.Run{
				Body: func() { body(&obs) },
				Verdict: func(r *vrt.Result) sched.Verdict {
					o := strings.Join(obs, "|")
					for _, t := range r.Threads {
						if t.Panic != "" {
							o += " PANIC(" + t.Panic + ")"
						}
					}
					return sched.Verdict{Obs: o}
				},
			}
		}
		x.OnExec = func(choices []int, r *vrt.Result, v sched.Verdict) { seen[v.Obs] = true }
		x.Explore()
		var got []string
		for o := range seen {
			got = append(got, o)
		}
		sort.Strings(got)
		want := append([]string{}, sc.want...)
		sort.Strings(want)
		status := "ok"
		if sc.races >= 0 {
			want, got = nil, nil
		}
		if (sc.races == 0 && len(x.Stats.Races) > 0) || (sc.races > 0 && len(x.Stats.Races) == 0) {
			status = "FAILED"
		}
		if strings.Join(got, ";") != strings.Join(want, ";") || x.Stats.Deadlines > 0 || x.Stats.Nondeterministic || len(x.Stats.Diverged) > 0 {
			status = "FAILED"
		}
		if status != "ok" {
			failed++
		}
		fmt.Printf("selftest %-28s %s executions=%d observations=%q races=%d", sc.name, status, x.Stats.Executions, got, len(x.Stats.Races))
		if status != "ok" {
			fmt.Printf(" want=%q deadlines=%d nondeterministic=%v diverged=%v", want, x.Stats.Deadlines, x.Stats.Nondeterministic, x.Stats.Diverged)
		}
		fmt.Println()
	}
	// solo mode (SEQ runs): a lock held by the only goroutine is reported, a
	// lock held by a goroutine the code started is waited for
	solo := func(name string, f func() string, want string) {
		got := f()
		status := "ok"
		if got != want {
			status = "FAILED"
			failed++
		}
		fmt.Printf("selftest %-28s %s observation=%q want=%q\n", name, status, got, want)
	}
	solo("solo:self-deadlock", func() (obs string) {
		defer vrt.Solo(vrt.Solo(true))
		defer func() {
			if d, ok := recover().(vrt.SoloDeadlock); ok {
				obs = "deadlock:" + d.Op
			}
		}()
		var m vrt.Mutex
		m.Lock()
		m.Lock()
		return "locked twice"
	}, "deadlock:Mutex.Lock")
	solo("solo:held-by-other-goroutine", func() (obs string) {
		defer vrt.Solo(vrt.Solo(true))
		defer func() {
			if r := recover(); r != nil {
				obs = fmt.Sprint("panic:", r)
			}
		}()
		var m vrt.RWMutex
		held := make(chan bool)
		vrt.Go("holder", func() {
			m.Lock()
			held <- true
			time.Sleep(20 * time.Millisecond)
			m.Unlock()
		})
		<-held
		m.RLock()
		m.RUnlock()
		return "acquired"
	}, "acquired")
	// FineLoops: loop iterations of instrumented code become scheduling points (two
	// compilations of the glob package interleave only then)
	for _, fine := range []bool{false, true} {
		x := &sched.Explorer{Bound: 1, FineLoops: fine}
		x.New = func() *sched.Run {
			return &sched.Run{
				Body: func() {
					for i := 0; i < 2; i++ {
						vrt.Go("compiler", func() { glob.Compile("a?c") })
					}
				},
				Verdict: func(r *vrt.Result) sched.Verdict { return sched.Verdict{Obs: "ok"} },
			}
		}
		x.Explore()
		status := "ok"
		if (fine && x.Stats.Executions < 4) || (!fine && x.Stats.Executions > 3) || x.Stats.Nondeterministic || len(x.Stats.Diverged) > 0 {
			status = "FAILED"
			failed++
		}
		fmt.Printf("selftest fine-loops=%-15v %s executions=%d\n", fine, status, x.Stats.Executions)
	}
	if failed > 0 {
		fmt.Printf("HARNESS-ERROR selftest: %d scenario(s) failed\n", failed)
		return 3
	}
	return 0
}

func init() { fw.RegisterAux("selftest", selfTest) }
