package props

import (
	"bytes"
	"encoding/json"
	"fmt"
	"math"
	"strconv"

	"github.com/cybergarage/go-redis/redis"
	"github.com/cybergarage/go-redis/redis/proto"
	"verif/fw"
	"verif/resp"
	"verif/seq"
)

// c01MaxNesting is the nesting depth the parser documents as its limit.
const c01MaxNesting = 128

// C01: RESP encode/decode round trip, binary-safe bulk, constructors.

type c01Case struct {
	Kind  string `json:"kind"`            // "value" | "int" | "float" | "str"
	Value []byte `json:"value,omitempty"` // canonical encoding of the value tree
	Int   int64  `json:"int,omitempty"`
	Float uint64 `json:"float_bits,omitempty"`
	Str   []byte `json:"str,omitempty"`
	Ctor  string `json:"ctor,omitempty"`
	Next  []byte `json:"next,omitempty"` // kind "pair": the value handled after Value while Value's results are retained
}

// c01CheckValue runs all round-trip clauses for one value tree. It returns
// "" when everything holds, else "clause: detail".
func c01CheckValue(v resp.Value) (clause, detail string) {
	want := v.Bytes()
	var got []byte
	var serr error
	if p := guard(func() { got, serr = toProto(v).RESPBytes() }); p != "" {
		return "serialize-panic", p
	}
	if serr != nil {
		return "serialize-error", serr.Error()
	}
	if !bytes.Equal(got, want) {
		return "serialize-bytes", fmt.Sprintf("serialize(%s) = %s, canonical %s", v, trunc(got, 80), trunc(want, 80))
	}
	// independent decoder must accept the serialisation (length prefix = payload length)
	if !isOddInteger(v) {
		dv, n, derr := resp.Decode(got, 0)
		if derr != nil || n != len(got) || !dv.Equal(v) {
			return "independent-decode", fmt.Sprintf("strict decoder on serialize(%s)=%s: %v", v, trunc(got, 80), derr)
		}
	}
	// parse back
	var m *proto.Message
	var perr error
	parser := proto.NewParserWithBytes(want)
	if p := guard(func() { m, perr = parser.Next() }); p != "" {
		return "parse-panic", p
	}
	if perr != nil {
		return "parse-error", fmt.Sprintf("parse(%s): %v", trunc(want, 80), perr)
	}
	if m == nil {
		return "parse-eos", fmt.Sprintf("parse(%s) reported end of stream", trunc(want, 80))
	}
	back, absent, cerr := fromProto(m, 0)
	if cerr != nil || absent {
		return "parse-structure", fmt.Sprintf("parse(%s): absent=%v err=%v", trunc(want, 80), absent, cerr)
	}
	if !back.Equal(v) {
		return "roundtrip-value", fmt.Sprintf("parse(serialize(%s)) = %s", v, back)
	}
	// the same bytes handed over in pieces (a value is a value however the transport delivers
	// it; C02 enumerates chunkings, here one fine and one coarse stride ride along)
	for _, stride := range []int{3, 4093} {
		if (stride == 3 && len(want) > 4200) || (stride > 3 && len(want) <= stride) {
			continue
		}
		var mc *proto.Message
		var cerr2 error
		cp := proto.NewParserWithReader(seq.NewChunkReader(want, nil, stride))
		if p := guard(func() { mc, cerr2 = cp.Next() }); p != "" {
			return "parse-panic", p
		}
		if cerr2 != nil || mc == nil {
			return "parse-error", fmt.Sprintf("parse(%s) delivered in pieces of %d bytes: value=%v err=%v", trunc(want, 80), stride, mc != nil, cerr2)
		}
		if back2, absent2, cerr3 := fromProto(mc, 0); cerr3 != nil || absent2 || !back2.Equal(v) {
			return "roundtrip-value", fmt.Sprintf("parse(serialize(%s)) delivered in pieces of %d bytes = %s", v, stride, back2)
		}
	}
	// re-serialise the parsed object
	var again []byte
	if p := guard(func() { again, serr = m.RESPBytes() }); p != "" {
		return "reserialize-panic", p
	}
	if serr != nil || !bytes.Equal(again, want) {
		return "reserialize-bytes", fmt.Sprintf("serialize(parse(%s)) = %s err=%v", trunc(want, 80), trunc(again, 80), serr)
	}
	// nothing may be left for a second Next
	var m2 *proto.Message
	if p := guard(func() { m2, perr = parser.Next() }); p != "" {
		return "parse-panic", p
	}
	if m2 != nil || perr != nil {
		return "parse-leftover", fmt.Sprintf("second Next after %s returned a value or error (%v)", trunc(want, 80), perr)
	}
	return "", ""
}

// c01CheckPair is the depth-2 part: the results obtained for v1 (its encoding,
// the message parsed from it) are retained while v2 goes through the same
// code, and must still describe v1 afterwards (a scratch buffer shared
// between calls shows only here).
func c01CheckPair(v1, v2 resp.Value) (clause, detail string) {
	want1, want2 := v1.Bytes(), v2.Bytes()
	var enc1, enc2 []byte
	var err1, err2 error
	if p := guard(func() {
		enc1, err1 = toProto(v1).RESPBytes()
		enc2, err2 = toProto(v2).RESPBytes()
	}); p != "" {
		return "serialize-panic", p
	}
	if err1 != nil || err2 != nil {
		return "serialize-error", fmt.Sprint(err1, err2)
	}
	if !bytes.Equal(enc1, want1) {
		return "retained-encoding-changed", fmt.Sprintf("the bytes returned for %s read %s after %s was serialized", v1, trunc(enc1, 80), v2)
	}
	if !bytes.Equal(enc2, want2) {
		return "serialize-bytes", fmt.Sprintf("serialize(%s) after serialize(%s) = %s", v2, v1, trunc(enc2, 80))
	}
	// one stream carrying both values: the first message must survive the second Next
	parser := proto.NewParserWithBytes(append(append([]byte{}, want1...), want2...))
	var m1, m2 *proto.Message
	if p := guard(func() {
		m1, err1 = parser.Next()
		m2, err2 = parser.Next()
	}); p != "" {
		return "parse-panic", p
	}
	if err1 != nil || err2 != nil || m1 == nil || m2 == nil {
		return "parse-error", fmt.Sprintf("parse(%s): %v %v", trunc(append(want1, want2...), 80), err1, err2)
	}
	for i, pair := range []struct {
		m *proto.Message
		v resp.Value
	}{{m1, v1}, {m2, v2}} {
		back, absent, cerr := fromProto(pair.m, 0)
		if cerr != nil || absent || !back.Equal(pair.v) {
			return "retained-message-changed", fmt.Sprintf("value #%d of the stream %s reads %s after both were parsed (err=%v)", i+1, trunc(append(want1, want2...), 80), back, cerr)
		}
	}
	// the serialization of a parsed message, retained across the next one
	if p := guard(func() {
		enc1, err1 = m1.RESPBytes()
		enc2, err2 = m2.RESPBytes()
	}); p != "" {
		return "reserialize-panic", p
	}
	if err1 != nil || err2 != nil || !bytes.Equal(enc1, want1) || !bytes.Equal(enc2, want2) {
		return "retained-encoding-changed", fmt.Sprintf("serialize(parse(%s)) reads %s after serialize(parse(%s))", v1, trunc(enc1, 80), v2)
	}
	return "", ""
}

// isOddInteger: integer-typed values whose payload is not a decimal integer
// are outside what the strict decoder accepts; the other clauses still apply.
func isOddInteger(v resp.Value) bool {
	if v.Kind == resp.Integer {
		return !resp.ValidInt(v.Data)
	}
	for _, e := range v.Elems {
		if isOddInteger(e) {
			return true
		}
	}
	return false
}

func c01ValueKind(v resp.Value) string {
	switch v.Kind {
	case resp.Array:
		return fmt.Sprintf("array/%d", len(v.Elems))
	case resp.Bulk:
		if v.Null {
			return "bulk/null"
		}
		return "bulk"
	}
	return string(rune(v.Kind))
}

func c01RunValue(c *fw.Ctx, v resp.Value, family string) {
	if !c.Mine() {
		return
	}
	c.Eval()
	c.Nontrivial()
	if c.WantSample() {
		c.Sample(map[string]string{"family": family, "value": trunc(v.Bytes(), 60)})
	}
	clause, detail := c01CheckValue(v)
	if clause != "" {
		c.Violation("C01|"+c01ValueKind(v)+"|"+clause, detail, c01Case{Kind: "value", Value: v.Bytes()})
	}
}

// eachString calls f with every string over alpha of length 0..maxLen,
// shortest first. The slice passed to f is reused.
func eachString(alpha []byte, maxLen int, f func([]byte)) {
	for l := 0; l <= maxLen; l++ {
		idx := make([]int, l)
		b := make([]byte, l)
		for {
			for i := range idx {
				b[i] = alpha[idx[i]]
			}
			f(b)
			k := l - 1
			for k >= 0 {
				idx[k]++
				if idx[k] < len(alpha) {
					break
				}
				idx[k] = 0
				k--
			}
			if k < 0 {
				break
			}
		}
	}
}

func c01Run(c *fw.Ctx) {
	lineAlpha := []byte{'a', '0', '-', '+', ':', '$', '*', ' ', 0x00, 0xff}
	bulkAlpha := []byte{'a', '\r', '\n', 0x00, '$', '*', '+', ':', '-', 0xff}
	// (i) line types
	maxLine := 3
	if c.Thorough() {
		maxLine = 5
	}
	for _, k := range []resp.Kind{resp.Status, resp.Error, resp.Integer} {
		eachString(lineAlpha, maxLine, func(b []byte) {
			c01RunValue(c, resp.Value{Kind: k, Data: cp(b)}, "line")
		})
	}
	// (ii) bulk payloads
	maxBulk := 4
	if c.Thorough() {
		maxBulk = 6
	}
	eachString(bulkAlpha, maxBulk, func(b []byte) {
		c01RunValue(c, resp.Value{Kind: resp.Bulk, Data: cp(b)}, "bulk")
	})
	c01RunValue(c, resp.Nil(), "bulk")
	// (iii) every byte value in four shapes
	for b := 0; b < 256; b++ {
		x := byte(b)
		for _, pl := range [][]byte{{x}, {x, '\r', '\n'}, {'\r', '\n', x}, {'$', '1', '\r', '\n', x}} {
			c01RunValue(c, resp.Value{Kind: resp.Bulk, Data: pl}, "byte")
		}
		if x != '\r' && x != '\n' {
			c01RunValue(c, resp.Value{Kind: resp.Status, Data: []byte{x}}, "byte")
			c01RunValue(c, resp.Value{Kind: resp.Error, Data: []byte{'E', x, 'x'}}, "byte")
		}
	}
	// (iv) length sweep with frame-looking content at every position
	pat := []byte("\r\n$3\r\n")
	maxLen := 65538
	big := make([]byte, maxLen)
	for i := range big {
		big[i] = pat[i%len(pat)]
	}
	for L := 0; L <= maxLen; L++ {
		if c.Quick() && L > 4096 && !nearPow2(L) {
			continue
		}
		c01RunValue(c, resp.Value{Kind: resp.Bulk, Data: big[:L]}, "length")
	}
	// (v) trees
	leaves := []resp.Value{
		resp.S("OK"), resp.E("ERR x"), resp.I(-12), resp.B(""), resp.Nil(), resp.B("a\r\nb"), resp.B("$-1"), resp.S(""),
	}
	var d1 []resp.Value // depth-1 arrays of arity 0..2
	d1 = append(d1, resp.A())
	for _, a := range leaves {
		d1 = append(d1, resp.A(a))
	}
	for _, a := range leaves {
		for _, b := range leaves {
			d1 = append(d1, resp.A(a, b))
		}
	}
	// depth-1 arity 3
	for _, a := range leaves {
		for _, b := range leaves {
			for _, d := range leaves {
				c01RunValue(c, resp.A(a, b, d), "tree")
			}
		}
	}
	elems := append(append([]resp.Value{}, leaves...), d1...)
	for _, e := range d1 {
		c01RunValue(c, e, "tree")
	}
	// depth-2, arity 1..3 over leaves ∪ d1 (at least one array element makes it depth 2)
	for _, a := range elems {
		c01RunValue(c, resp.A(a), "tree")
		for _, b := range elems {
			c01RunValue(c, resp.A(a, b), "tree")
		}
	}
	for _, a := range elems {
		for _, b := range elems {
			for _, d := range elems {
				c01RunValue(c, resp.A(a, b, d), "tree")
			}
		}
	}
	// depth 3: arity ≤ 2 over a representative subset of depth-2 arrays
	d2 := []resp.Value{resp.A(resp.A()), resp.A(resp.A(), resp.A()), resp.A(resp.Nil(), resp.A(resp.B(""))), resp.A(resp.A(resp.S("OK"), resp.I(1)))}
	d3elems := append(append([]resp.Value{}, leaves[:4]...), append(d1[:10], d2...)...)
	for _, a := range d3elems {
		for _, b := range d3elems {
			c01RunValue(c, resp.A(resp.A(a, b)), "tree")
			c01RunValue(c, resp.A(resp.A(a), b), "tree")
		}
	}
	// (iv') line-type values of every length around the powers of two (line buffers)
	for k := 6; k <= 16; k++ {
		for d := -1; d <= 1; d++ {
			L := 1<<k + d
			if c.Quick() && k > 13 && d != 0 {
				continue
			}
			pay := bytes.Repeat([]byte("line $1 *2 :3 "), L/14+1)[:L]
			for _, kind := range []resp.Kind{resp.Status, resp.Error} {
				c01RunValue(c, resp.Value{Kind: kind, Data: pay}, "line-length")
				c01RunValue(c, resp.A(resp.Value{Kind: kind, Data: pay}, resp.I(1)), "line-length")
			}
		}
	}
	// (v') wide arrays: N copies of one element, N around every power of two and the
	// parser's depth / size thresholds (anything counted per element shows here)
	wide := map[int]bool{}
	for k := 2; k <= 12; k++ {
		for d := -1; d <= 1; d++ {
			wide[1<<k+d] = true
		}
	}
	for _, n := range []int{100, 126, 130, 200, 1000, 10000} {
		wide[n] = true
	}
	if c.Thorough() {
		wide[65535], wide[65536], wide[65537], wide[100000] = true, true, true, true
	}
	for _, n := range sortedInts(wide) {
		for _, e := range []resp.Value{resp.A(), resp.Nil(), resp.B(""), resp.I(1), resp.S("OK"), resp.A(resp.B("x")), resp.A(resp.A())} {
			el := make([]resp.Value, n)
			for i := range el {
				el[i] = e
			}
			c01RunValue(c, resp.Value{Kind: resp.Array, Elems: el}, "wide")
			// and one level down, behind a sibling
			c01RunValue(c, resp.A(resp.S("x"), resp.Value{Kind: resp.Array, Elems: el}, resp.A(resp.A(resp.I(2)))), "wide")
		}
	}
	// (v-depth) nesting ladder: a chain of arrays d levels deep around a leaf, and the same with a
	// sibling at every level, for every depth the parser accepts (1..128; a literal, so that the harness does not depend on an identifier of the repository)
	for d := 1; d <= c01MaxNesting; d++ {
		for _, leaf := range []resp.Value{resp.B("x"), resp.A(), resp.I(1)} {
			v, w := leaf, leaf
			for i := 0; i < d; i++ {
				v = resp.A(v)
				w = resp.A(resp.S("s"), w)
			}
			if leaf.Kind == resp.Array && d == c01MaxNesting {
				continue // the empty array at the bottom is one more level
			}
			c01RunValue(c, v, "depth")
			c01RunValue(c, w, "depth")
		}
	}
	// (v'') edits between serializations (c01edit.go)
	editTrees := append([]resp.Value{}, d1...)
	small := append(append([]resp.Value{}, leaves[:4]...), d1[:10]...)
	for _, a := range small {
		for _, b := range small {
			if a.Kind == resp.Array || b.Kind == resp.Array {
				editTrees = append(editTrees, resp.A(a, b))
			}
		}
	}
	editTrees = append(editTrees, resp.A(resp.B("0"), resp.A(resp.B("k1"), resp.B("k2"))), resp.A(resp.A(resp.A(resp.B("deep")))), resp.A(resp.A(resp.A(), resp.S("x")), resp.A(resp.A(resp.I(1)))))
	c01Edits(c, editTrees)
	c01Shared(c)
	// (vi) constructors
	c01Ctors(c, lineAlpha, bulkAlpha)
	// (vii) ordered pairs: results for the first value retained across the second
	pairVals := append(append([]resp.Value{}, leaves...), d1[:24]...)
	for _, L := range []int{1, 7, 63, 64, 65, 511, 513, 4095, 4097, 32767, 32769, 65536} {
		pairVals = append(pairVals, resp.Value{Kind: resp.Bulk, Data: big[:L]})
		pairVals = append(pairVals, resp.A(resp.Value{Kind: resp.Bulk, Data: bytes.Repeat([]byte{'x'}, L)}, resp.I(int64(L))))
	}
	for _, a := range pairVals {
		for _, b := range pairVals {
			if !c.Mine() {
				continue
			}
			c.Eval()
			c.Nontrivial()
			if clause, detail := c01CheckPair(a, b); clause != "" {
				c.Violation("C01|pair:"+c01ValueKind(a)+"+"+c01ValueKind(b)+"|"+clause, detail, c01Case{Kind: "pair", Value: a.Bytes(), Next: b.Bytes()})
			}
		}
	}
}

func nearPow2(L int) bool {
	for k := 0; k < 20; k++ {
		p := 1 << k
		if L >= p-2 && L <= p+2 {
			return true
		}
	}
	return false
}

func c01CheckCtor(cs c01Case) (clause, detail string) {
	parseBack := func(m *proto.Message) (resp.Value, string) {
		var b []byte
		var err error
		if p := guard(func() { b, err = m.RESPBytes() }); p != "" {
			return resp.Value{}, "panic: " + p
		}
		if err != nil {
			return resp.Value{}, err.Error()
		}
		v, n, derr := resp.Decode(b, 0)
		if derr != nil || n != len(b) {
			return resp.Value{}, fmt.Sprintf("strict decoder rejects %s: %v", trunc(b, 60), derr)
		}
		var pm *proto.Message
		if p := guard(func() { pm, err = proto.NewParserWithBytes(b).Next() }); p != "" {
			return resp.Value{}, "panic: " + p
		}
		if err != nil || pm == nil {
			return resp.Value{}, fmt.Sprintf("library parser on %s: %v", trunc(b, 60), err)
		}
		pv, absent, cerr := fromProto(pm, 0)
		if cerr != nil || absent || !pv.Equal(v) {
			return resp.Value{}, fmt.Sprintf("library parser disagrees with strict decoder on %s", trunc(b, 60))
		}
		return v, ""
	}
	switch cs.Ctor {
	case "int":
		m := redis.NewIntegerMessage(int(cs.Int))
		v, e := parseBack(m)
		if e != "" {
			return "ctor-int-encoding", e
		}
		if v.Kind != resp.Integer || string(v.Data) != strconv.FormatInt(cs.Int, 10) {
			return "ctor-int-value", fmt.Sprintf("NewIntegerMessage(%d) decodes to %s", cs.Int, v)
		}
		pm, _ := proto.NewParserWithBytes(v.Bytes()).Next()
		got, err := pm.Integer()
		if err != nil || int64(got) != cs.Int {
			return "ctor-int-value", fmt.Sprintf("NewIntegerMessage(%d).Integer() = %d, %v", cs.Int, got, err)
		}
	case "float":
		f := math.Float64frombits(cs.Float)
		m := redis.NewFloatMessage(f)
		v, e := parseBack(m)
		if e != "" {
			return "ctor-float-encoding", e
		}
		if v.Kind != resp.Bulk || v.Null {
			return "ctor-float-type", fmt.Sprintf("NewFloatMessage(%g) is %s", f, v)
		}
		g, err := strconv.ParseFloat(string(v.Data), 64)
		if err != nil || math.Float64bits(g) != cs.Float {
			return "ctor-float-value", fmt.Sprintf("NewFloatMessage(bits %#x = %g) decodes to %q -> %g (%v)", cs.Float, f, v.Data, g, err)
		}
	case "ok":
		v, e := parseBack(redis.NewOKMessage())
		if e != "" || !v.Equal(resp.S("OK")) {
			return "ctor-ok", fmt.Sprintf("NewOKMessage decodes to %s %s", v, e)
		}
	case "nil":
		v, e := parseBack(redis.NewNilMessage())
		if e != "" || !v.Equal(resp.Nil()) {
			return "ctor-nil", fmt.Sprintf("NewNilMessage decodes to %s %s", v, e)
		}
		if !redis.NewNilMessage().IsNil() {
			return "ctor-nil", "NewNilMessage().IsNil() is false"
		}
	case "status":
		v, e := parseBack(redis.NewStringMessage(string(cs.Str)))
		if e != "" || !v.Equal(resp.Value{Kind: resp.Status, Data: cs.Str}) {
			return "ctor-status", fmt.Sprintf("NewStringMessage(%q) decodes to %s %s", cs.Str, v, e)
		}
	case "error":
		v, e := parseBack(redis.NewErrorMessage(fmt.Errorf("%s", cs.Str)))
		if e != "" || !v.Equal(resp.Value{Kind: resp.Error, Data: cs.Str}) {
			return "ctor-error", fmt.Sprintf("NewErrorMessage(%q) decodes to %s %s", cs.Str, v, e)
		}
	case "bulk":
		v, e := parseBack(redis.NewBulkMessage(string(cs.Str)))
		if e != "" || !v.Equal(resp.Value{Kind: resp.Bulk, Data: cs.Str}) {
			return "ctor-bulk", fmt.Sprintf("NewBulkMessage(%q) decodes to %s %s", cs.Str, v, e)
		}
		if redis.NewBulkMessage(string(cs.Str)).IsNil() {
			return "ctor-bulk", fmt.Sprintf("NewBulkMessage(%q).IsNil()", cs.Str)
		}
	case "strarray":
		// Str holds a RESP array of bulks describing the []string
		want, _, _ := resp.Decode(cs.Str, 0)
		var strs []string
		for _, e := range want.Elems {
			strs = append(strs, string(e.Data))
		}
		v, e := parseBack(redis.NewStringArrayMessage(strs))
		if e != "" || !v.Equal(want) {
			return "ctor-strarray", fmt.Sprintf("NewStringArrayMessage(%q) decodes to %s %s", strs, v, e)
		}
	}
	return "", ""
}

func c01RunCtor(c *fw.Ctx, cs c01Case) {
	if !c.Mine() {
		return
	}
	c.Eval()
	c.Nontrivial()
	clause, detail := c01CheckCtor(cs)
	if clause != "" {
		c.Violation("C01|ctor|"+clause, detail, cs)
	}
}

func c01Ctors(c *fw.Ctx, lineAlpha, bulkAlpha []byte) {
	c01RunCtor(c, c01Case{Kind: "ctor", Ctor: "ok"})
	c01RunCtor(c, c01Case{Kind: "ctor", Ctor: "nil"})
	eachString(lineAlpha, 3, func(b []byte) {
		c01RunCtor(c, c01Case{Kind: "ctor", Ctor: "status", Str: cp(b)})
		c01RunCtor(c, c01Case{Kind: "ctor", Ctor: "error", Str: cp(b)})
	})
	eachString(bulkAlpha, 3, func(b []byte) {
		c01RunCtor(c, c01Case{Kind: "ctor", Ctor: "bulk", Str: cp(b)})
	})
	// string arrays: arity 0..3 over 5 strings
	strs := []string{"", "a", "\r\n", "$-1\r\n", "\x00\xff"}
	var rec func(cur []string, n int)
	rec = func(cur []string, n int) {
		c01RunCtor(c, c01Case{Kind: "ctor", Ctor: "strarray", Str: resp.Cmd(cur...).Bytes()})
		if n == 3 {
			return
		}
		for _, s := range strs {
			rec(append(append([]string{}, cur...), s), n+1)
		}
	}
	rec(nil, 0)
	// integers
	for i := int64(-70000); i <= 70000; i++ {
		c01RunCtor(c, c01Case{Kind: "ctor", Ctor: "int", Int: i})
	}
	p10 := int64(1)
	for k := 0; k < 19; k++ {
		for _, d := range []int64{-1, 0, 1} {
			c01RunCtor(c, c01Case{Kind: "ctor", Ctor: "int", Int: p10 + d})
			c01RunCtor(c, c01Case{Kind: "ctor", Ctor: "int", Int: -(p10 + d)})
		}
		if k < 18 {
			p10 *= 10
		}
	}
	for k := 0; k < 63; k++ {
		p := int64(1) << uint(k)
		for _, d := range []int64{-1, 0, 1} {
			c01RunCtor(c, c01Case{Kind: "ctor", Ctor: "int", Int: p + d})
			c01RunCtor(c, c01Case{Kind: "ctor", Ctor: "int", Int: -(p + d)})
		}
	}
	c01RunCtor(c, c01Case{Kind: "ctor", Ctor: "int", Int: math.MaxInt64})
	c01RunCtor(c, c01Case{Kind: "ctor", Ctor: "int", Int: math.MinInt64})
	// floats: sign × every finite exponent (0..2046) × mantissa patterns
	mants := []uint64{0, 1, (1 << 52) - 1, 0x5555555555555, 0xAAAAAAAAAAAAA, 1 << 51, 0x8000000000001, 0x123456789ABCD}
	if c.Thorough() {
		// every single-bit and every "all ones up to bit k" mantissa
		for k := uint(0); k < 52; k++ {
			mants = append(mants, 1<<k, (1<<(k+1))-1, ((1<<52)-1)^(1<<k))
		}
	}
	for sign := uint64(0); sign < 2; sign++ {
		for exp := uint64(0); exp <= 2046; exp++ {
			for _, m := range mants {
				c01RunCtor(c, c01Case{Kind: "ctor", Ctor: "float", Float: sign<<63 | exp<<52 | m})
			}
		}
	}
	for _, f := range []float64{0, math.Copysign(0, -1), 1, -1, 0.1, 1.5, 1e21, 1e-7, 123456789.125, math.MaxFloat64, math.SmallestNonzeroFloat64, math.Pi, 1e100, -2.5e-300} {
		c01RunCtor(c, c01Case{Kind: "ctor", Ctor: "float", Float: math.Float64bits(f)})
	}
}

func c01Replay(raw json.RawMessage) (string, bool, error) {
	var cs c01Case
	if err := json.Unmarshal(raw, &cs); err != nil {
		return "", false, err
	}
	if cs.Kind == "value" {
		v, n, derr := resp.Decode(cs.Value, 0)
		if derr != nil || n != len(cs.Value) {
			return "", false, fmt.Errorf("replay case is not a canonical value: %v", derr)
		}
		clause, detail := c01CheckValue(v)
		return fmt.Sprintf("value=%s clause=%q detail=%s", trunc(cs.Value, 200), clause, detail), clause != "", nil
	}
	if cs.Kind == "shared" {
		return "", false, fmt.Errorf("shared-buffer cases are re-derived by the check itself; run ./check C01 quick")
	}
	if cs.Kind == "edit" {
		var ec c01EditCase
		if err := json.Unmarshal(raw, &ec); err != nil {
			return "", false, err
		}
		clause, detail := c01CheckEdits(ec)
		return fmt.Sprintf("source=%s value=%s edits=%v clause=%q detail=%s", ec.Source, trunc(ec.Value, 100), ec.Edits, clause, detail), clause != "", nil
	}
	if cs.Kind == "pair" {
		v1, _, e1 := resp.Decode(cs.Value, 0)
		v2, _, e2 := resp.Decode(cs.Next, 0)
		if e1 != nil || e2 != nil {
			return "", false, fmt.Errorf("replay case is not a pair of canonical values: %v %v", e1, e2)
		}
		clause, detail := c01CheckPair(v1, v2)
		return fmt.Sprintf("first=%s next=%s clause=%q detail=%s", trunc(cs.Value, 100), trunc(cs.Next, 100), clause, detail), clause != "", nil
	}
	clause, detail := c01CheckCtor(cs)
	return fmt.Sprintf("ctor=%s clause=%q detail=%s", cs.Ctor, clause, detail), clause != "", nil
}

func init() {
	fw.Register(&fw.Prop{
		ID:    "C01",
		Level: "exploration",
		Rule:  "bounded-exhaustive value trees: line payloads len<=3 (thorough 5) over {a,0,-,+,:,$,*,SP,NUL,0xff}; bulk payloads len<=4 (thorough 6) over {a,CR,LF,NUL,$,*,+,:,-,0xff} + null; all 256 byte values in 4 shapes; status and error lines of length 2^k-1, 2^k, 2^k+1 (k=6..16), alone and in an array; bulk length sweep 0..65538 (quick: every length <=4096 and 2^k±2); wide arrays of N equal elements (7 element shapes incl. empty and nested arrays, N = 2^k-1, 2^k, 2^k+1 up to 4097 and 100..10000; thorough up to 100000), alone and nested behind a sibling; nesting ladder (chains of arrays 1..128 deep, with and without siblings); every value also parsed from a reader that delivers it in pieces of 3 (and 4093) bytes; arrays arity<=3 depth<=2 over 8 leaves ∪ 73 depth-1 arrays, depth 3 arity<=2; constructors over the same strings, ints -70000..70000 ∪ ±10^k±1 ∪ ±2^k±1 ∪ min/max, floats sign × all 2047 finite exponents × 8 mantissa patterns (thorough: 164, every single-bit, prefix-ones and single-zero mantissa). Plus every ordered pair of 56 representative values (leaves, small arrays, bulk/array sizes around 2^k up to 65536): the encoding of the first and the message parsed from it are retained while the second is serialized/parsed and must be unchanged afterwards. Plus edits between serializations: ~250 trees (depth <= 3), built through the constructors or parsed, serialized, then edited in place at every node with every applicable mutator (Message.Append / Array.Append of 4 values, SetBytes of 3 payloads, SetBytes(nil), SetArray, reading an array to its end) and serialized again, singly and (trees of <= 4 nodes; thorough: all) in every ordered pair, each serialization compared with the reference tree carrying the same edits. Every case is distinct by construction and non-trivial (each exercises serialize+parse+reserialize against an independent codec).",
		Assumptions: []string{
			"the independent strict RESP2 codec in /verif/resp is the reference",
			"null arrays are outside the property's value list and not generated",
			"small-scope: alphabets contain one representative per byte class the code distinguishes; no claim for arbitrary 64KiB content or random values beyond the bound",
		},
		Run:    c01Run,
		Replay: c01Replay,
	})
}
