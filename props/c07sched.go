package props

import (
	"encoding/json"

	"verif/fw"
)

// c07RunAll runs the sequential part and (when built) the SCHED witness part.
func c07RunAll(c *fw.Ctx) {
	defer cleanupKit()
	c07Run(c)
	c07Sched(c)
}

func c07ReplayAll(raw json.RawMessage) (string, bool, error) {
	var probe struct {
		Sched bool `json:"sched"`
	}
	json.Unmarshal(raw, &probe)
	if probe.Sched {
		return c07SchedReplay(raw)
	}
	return c07Replay(raw)
}
