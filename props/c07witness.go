package props

import (
	"crypto/tls"
	"encoding/json"
	"fmt"
	"strings"

	exsrv "github.com/cybergarage/go-redis/examples/go-redisd/server"
	"github.com/cybergarage/go-redis/redis/auth"
	"github.com/cybergarage/go-redis/vrt"
	"verif/fw"
	"verif/resp"
	"verif/sched"
)

// C07, interleaving part: an offending connection and a well-behaved witness
// connection run concurrently through the real accept loop; the witness must
// keep getting exactly its replies and the server must keep accepting.

type c07SchedCase struct {
	Sched    bool   `json:"sched"`
	Offender string `json:"offender"`
	Choices  []int  `json:"choices,omitempty"`
}

type c07Offender struct {
	Name  string
	Setup [][]string // run by the offender first (its own keys)
	Bytes []byte     // then these raw bytes
	End   string     // "close" | "reset" | "wait" (read until the server closes or goes quiet)
	TLS   string     // offender on the TLS port: "junk" | "plain-text" | "untrusting" | "abort" | "no-cert" | "wrong-name" | "self-signed" (End is ignored)
	// Cfg != "": the application hands the server a ready tls.Config whose ClientAuth
	// is weaker than the one the library builds ("request" = RequestClientCert, "any" =
	// RequireAnyClientCert, "if-given" = VerifyClientCertIfGiven), plus a common-name rule
	Cfg string
	// MapRaces: the executions of this offender also run under the happens-before oracle; an
	// unsynchronised access pair on the contents of a map is a verdict (the Go runtime aborts
	// the process on concurrent map access)
	MapRaces bool
}

func c07Offenders() []c07Offender {
	cmd := func(a ...string) []byte { return resp.Cmd(a...).Bytes() }
	return []c07Offender{
		{Name: "empty-array", Bytes: []byte("*0\r\n"), End: "wait"},
		{Name: "null-array", Bytes: []byte("*-1\r\n"), End: "wait"},
		{Name: "null-command-name", Bytes: []byte("*1\r\n$-1\r\n"), End: "wait"},
		{Name: "nested-empty", Bytes: []byte("*1\r\n*0\r\n"), End: "wait"},
		{Name: "nested-null", Bytes: []byte("*2\r\n*1\r\n$-1\r\n$1\r\nk\r\n"), End: "wait"},
		{Name: "integer-command-name", Bytes: []byte("*1\r\n:1\r\n"), End: "wait"},
		{Name: "getrange-empty", Setup: [][]string{{"SET", "o", ""}}, Bytes: cmd("GETRANGE", "o", "0", "5"), End: "wait"},
		{Name: "getrange-inverted", Setup: [][]string{{"SET", "o", "abc"}}, Bytes: cmd("GETRANGE", "o", "2", "1"), End: "wait"},
		{Name: "zrangebyscore-limit", Setup: [][]string{{"ZADD", "oz", "1", "a"}}, Bytes: cmd("ZRANGEBYSCORE", "oz", "-inf", "+inf", "LIMIT", "1", "0"), End: "wait"},
		{Name: "zrangebyscore-limit-big", Setup: [][]string{{"ZADD", "oz", "1", "a", "2", "b"}}, Bytes: cmd("ZRANGEBYSCORE", "oz", "-inf", "+inf", "LIMIT", "5", "9"), End: "wait"},
		{Name: "lrange-huge", Setup: [][]string{{"RPUSH", "ol", "a"}}, Bytes: cmd("LRANGE", "ol", "0", "9223372036854775807"), End: "wait"},
		{Name: "lpop-huge", Setup: [][]string{{"RPUSH", "ol", "a"}}, Bytes: cmd("LPOP", "ol", "9223372036854775807"), End: "wait"},
		{Name: "incr-overflow", Setup: [][]string{{"SET", "o", "9223372036854775807"}}, Bytes: cmd("INCR", "o"), End: "wait"},
		{Name: "zadd-flags", Bytes: cmd("ZADD", "oz", "NX", "CH", "1", "a"), End: "wait"},
		{Name: "mset-odd", Bytes: cmd("MSET", "o"), End: "wait"},
		{Name: "unknown-command", Bytes: cmd("NOSUCH\r\n+OK", "x"), End: "wait"},
		{Name: "huge-bulk-length", Bytes: []byte("*2\r\n$3\r\nGET\r\n$9223372036854775807\r\n"), End: "wait"},
		{Name: "huge-array-count", Bytes: []byte("*4294967296\r\n"), End: "wait"},
		{Name: "bad-type-byte", Bytes: []byte("?what\r\n"), End: "wait"},
		{Name: "mid-request-close", Bytes: []byte("*3\r\n$3\r\nSET\r\n$1\r\no\r\n$5\r\nab"), End: "close"},
		{Name: "mid-request-reset", Bytes: []byte("*2\r\n$3\r\nGET\r\n"), End: "reset"},
		{Name: "after-count-close", Bytes: []byte("*2\r\n"), End: "close"},
		{Name: "quit", Bytes: cmd("QUIT"), End: "wait"},
		{Name: "select-garbage", Bytes: cmd("SELECT", "abc"), End: "wait"},
		{Name: "rename-self", Setup: [][]string{{"SET", "o", "1"}}, Bytes: cmd("RENAME", "o", "o"), End: "wait"},
		// a client that pipelines requests and never reads the replies: once its
		// receive window is full the server's Write to it blocks; nobody else may notice
		{Name: "stops-reading", Bytes: concat(cmd("ECHO", "0123456789abcdef"), cmd("ECHO", "0123456789abcdef"), cmd("ECHO", "0123456789abcdef"), cmd("PING")), End: "stall"},
		// offenders on the TLS port whose handshake cannot succeed: they must be
		// disconnected (they never close themselves), everybody else is served
		{Name: "tls-junk", TLS: "junk"},
		{Name: "tls-plain-text", TLS: "plain-text"},
		{Name: "tls-untrusting-client", TLS: "untrusting"},
		{Name: "tls-abort-after-hello", TLS: "abort"},
		// the same port configured by the application with a tls.Config that does not insist on
		// a (verified) certificate, and a common-name rule: a client without certificate, with
		// the wrong name, with a self-made certificate - all complete the handshake
		{Name: "tls-request-no-cert", TLS: "no-cert", Cfg: "request"},
		{Name: "tls-request-wrong-name", TLS: "wrong-name", Cfg: "request"},
		{Name: "tls-any-wrong-name", TLS: "wrong-name", Cfg: "any"},
		{Name: "tls-if-given-no-cert", TLS: "no-cert", Cfg: "if-given"},
		{Name: "tls-if-given-wrong-name", TLS: "wrong-name", Cfg: "if-given"},
		// configuration writes (several parameters at once, server parameters) while the witness
		// and the late client connect: under the happens-before oracle
		{Name: "config-set-many", Bytes: cmd("CONFIG", "SET", "a", "1", "b", "2", "c", "3"), End: "wait", MapRaces: true},
		{Name: "config-set-server-parameters", Bytes: concat(cmd("CONFIG", "SET", "maxclients", "5", "timeout", "0"), cmd("CONFIG", "GET", "maxclients", "port")), End: "wait", MapRaces: true},
		{Name: "stops-reading-big-reply", Setup: [][]string{{"RPUSH", "ol", "aaaaaaaaaaaaaaaa", "bbbbbbbbbbbbbbbb"}}, Bytes: concat(cmd("LRANGE", "ol", "0", "-1"), cmd("LRANGE", "ol", "0", "-1")), End: "stall"},
	}
}

type c07SchedWorld struct {
	offRaw   *vrt.Conn
	off      c07Offender
	witness  []string
	viol     []string
	late     string
	offNotes []string
}

func (w *c07SchedWorld) body() {
	ex := exsrv.NewServer()
	var kit *tlsKit
	if w.off.TLS != "" {
		k, err := getKit()
		if err != nil {
			w.viol = append(w.viol, "harness\x00"+err.Error())
			return
		}
		kit = k
		ex.SetTLSPort(6380)
		ex.SetTLSCertFile(kit.ServerCert)
		ex.SetTLSKeyFile(kit.ServerKey)
		ex.SetTLSCaCertFile(kit.CAFile)
		if w.off.Cfg != "" {
			mode := map[string]tls.ClientAuthType{"request": tls.RequestClientCert, "any": tls.RequireAnyClientCert, "if-given": tls.VerifyClientCertIfGiven}[w.off.Cfg]
			ex.SetTLSConfig(&tls.Config{MinVersion: tls.VersionTLS12, Certificates: []tls.Certificate{kit.ServerTLS}, ClientCAs: kit.Pool, ClientAuth: mode})
			ex.AddAuthenticator(auth.NewCertificateAuthenticatorWith(auth.WithCommonName("localhost")))
		}
	}
	if err := ex.Start(); err != nil {
		w.viol = append(w.viol, "start-failed\x00"+err.Error())
		return
	}
	if w.off.TLS != "" {
		vrt.Go("offender", func() {
			raw, err := vrt.Dial(":6380")
			if err != nil {
				w.offNotes = append(w.offNotes, "refused")
				return
			}
			w.offRaw = raw
			buf := make([]byte, 256)
			switch w.off.TLS {
			case "junk":
				raw.Write([]byte(strings.Repeat("\x16\x03\x01junk!", 6)))
				raw.ReadOrQuiet(buf)
			case "plain-text":
				raw.Write(resp.Cmd("PING").Bytes())
				raw.ReadOrQuiet(buf)
			case "untrusting":
				tc := tls.Client(raw, &tls.Config{ServerName: "localhost", Certificates: kit.Clients["valid"]}) // no RootCAs: the server certificate is rejected
				w.offNotes = append(w.offNotes, fmt.Sprint("handshake: ", tc.Handshake() != nil))
				raw.ReadOrQuiet(buf)
			case "abort":
				tc := tls.Client(&abortConn{Conn: raw}, kit.clientTLSConfig(kit.Clients["valid"]))
				tc.Handshake()
			case "no-cert", "wrong-name", "self-signed":
				cred := map[string]string{"no-cert": "none", "wrong-name": "wrong-name", "self-signed": "self-signed"}[w.off.TLS]
				tc := tls.Client(raw, kit.clientTLSConfig(kit.Clients[cred]))
				if err := tc.Handshake(); err != nil {
					w.offNotes = append(w.offNotes, "handshake: "+err.Error())
					raw.ReadOrQuiet(buf)
					return
				}
				r := sched.Wrap(tc, raw).Do("SET", "offender", "1")
				w.offNotes = append(w.offNotes, "SET: "+r.String())
				if r.Status == "ok" && !r.Reply.IsError() {
					w.viol = append(w.viol, "offender-served\x00a TLS client whose certificate does not satisfy the common-name rule ("+w.off.TLS+", ClientAuth "+w.off.Cfg+") got its command executed: "+r.String())
				}
				raw.ReadOrQuiet(buf)
			}
		})
	}
	vrt.Go("offender", func() {
		if w.off.TLS != "" {
			return
		}
		cl, o := sched.Dial(":6379")
		if o.Status != "ok" {
			w.offNotes = append(w.offNotes, "refused")
			return
		}
		for _, s := range w.off.Setup {
			cl.Do(s...)
		}
		if w.off.End == "stall" {
			cl.Raw().Capacity = 8
		}
		cl.Send(w.off.Bytes)
		switch w.off.End {
		case "stall":
			// never read, never close
			return
		case "close":
			vrt.Yield("offender-before-close")
			cl.Close()
		case "reset":
			vrt.Yield("offender-before-reset")
			cl.Raw().Reset()
		default:
			r := cl.Recv()
			w.offNotes = append(w.offNotes, r.String())
			cl.Close()
		}
	})
	vrt.Go("witness", func() {
		cl, o := sched.Dial(":6379")
		if o.Status != "ok" {
			w.witness = append(w.witness, "refused")
			return
		}
		for _, c := range [][]string{{"SET", "w", "1"}, {"GET", "w"}, {"INCR", "w"}, {"PING", "x"}, {"RPUSH", "wl", "a", "b"}, {"LRANGE", "wl", "0", "-1"}} {
			w.witness = append(w.witness, cl.Do(c...).String())
		}
		cl.Close()
	})
	vrt.WaitQuiet()
	// afterwards a fresh client must be able to connect and PING
	cl, o := sched.Dial(":6379")
	if o.Status != "ok" {
		w.late = "refused"
		return
	}
	w.late = cl.Do("PING").String()
	cl.Close()
	if w.off.TLS != "" {
		if w.offRaw != nil && !w.offRaw.PeerClosed() && !w.offRaw.ClosedLocally() {
			w.viol = append(w.viol, "offender-not-disconnected\x00the TLS client whose handshake cannot succeed ("+w.off.TLS+") was neither answered nor disconnected by the server")
		}
		// and the TLS port still serves a proper client
		raw, err := vrt.Dial(":6380")
		if err != nil {
			w.viol = append(w.viol, "tls-port-not-accepting-afterwards\x00dial refused after the "+w.off.TLS+" client")
			return
		}
		tc := tls.Client(raw, kit.clientTLSConfig(kit.Clients["valid"]))
		if err := tc.Handshake(); err != nil {
			w.viol = append(w.viol, "tls-port-not-accepting-afterwards\x00handshake of a valid client failed after the "+w.off.TLS+" client: "+err.Error())
			return
		}
		if r := sched.Wrap(tc, raw).Do("PING"); r.String() != `+"PONG"` {
			w.viol = append(w.viol, "tls-port-not-accepting-afterwards\x00a valid TLS client's PING got "+r.String())
		}
		tc.Close()
	}
}

var c07WitnessExpected = []string{`+"OK"`, `$"1"`, `:"2"`, `$"x"`, `:"2"`, `[$"a" $"b"]`}

func c07SchedExplorer(off c07Offender, bound int) *sched.Explorer {
	x := &sched.Explorer{Bound: bound, RaceDetect: off.MapRaces}
	x.New = func() *sched.Run {
		w := &c07SchedWorld{off: off}
		return &sched.Run{Body: w.body, Verdict: func(r *vrt.Result) sched.Verdict {
			if v, ok := panicVerdict(r); ok {
				return v
			}
			for _, rc := range r.Races {
				if strings.HasSuffix(rc.Loc, "[]") {
					return sched.Verdict{Clause: "concurrent-map-access", Detail: "unsynchronised concurrent access to the contents of a map - the Go runtime aborts the process ('concurrent map read and map write'), every connection is cut: " + rc.String(), Obs: "map-race"}
				}
			}
			obs := fmt.Sprintf("witness=%v offender=%v late=%s", w.witness, w.offNotes, w.late)
			if len(w.viol) > 0 {
				p := strings.SplitN(w.viol[0], "\x00", 2)
				return sched.Verdict{Clause: p[0], Detail: p[1], Obs: obs}
			}
			for _, t := range r.Threads {
				if !t.Finished && (t.Name == "witness" || t.ID == 0) {
					return sched.Verdict{Clause: "witness-starved", Detail: fmt.Sprintf("thread %s is parked at %s at quiescence: a reply never came (%s)", t.Name, t.Parked, obs), Obs: obs}
				}
			}
			if strings.Join(w.witness, "|") != strings.Join(c07WitnessExpected, "|") {
				return sched.Verdict{Clause: "witness-wrong-replies", Detail: fmt.Sprintf("the witness connection received %v, expected %v", w.witness, c07WitnessExpected), Obs: obs}
			}
			if w.late != `+"PONG"` {
				return sched.Verdict{Clause: "server-not-accepting-afterwards", Detail: "a client connecting after the offender got " + w.late, Obs: obs}
			}
			return sched.Verdict{Obs: obs}
		}}
	}
	return x
}

func c07Sched(c *fw.Ctx) {
	bound := 2
	if c.Thorough() {
		bound = 3
	}
	for _, off := range c07Offenders() {
		if !c.Mine() {
			continue
		}
		if c.Expired() {
			return
		}
		x := c07SchedExplorer(off, bound)
		x.Expired = c.Expired
		first := true
		x.OnExec = func(choices []int, r *vrt.Result, v sched.Verdict) {
			c.Eval()
			c.Count("sched_executions", 1)
			if strings.HasPrefix(v.Obs, "HARNESS-PANIC") {
				c.HarnessError("C07 %s %s", off.Name, v.Obs)
			}
			if first {
				first = false
				c.Nontrivial()
				if c.WantSample() {
					c.Sample(map[string]any{"kind": "offender x witness interleavings", "offender": off.Name, "bytes": trunc(off.Bytes, 60), "schedule_points": len(r.Points)})
				}
			}
			if v.Clause != "" {
				c.Violation("C07|witness|"+off.Name+"|"+v.Clause, v.Detail+fmt.Sprintf(" offender=%s schedule=%v", off.Name, choices), c07SchedCase{Sched: true, Offender: off.Name, Choices: choices})
			}
		}
		x.Explore()
		st := x.Stats
		c.Count("sched_transitions", st.Transitions)
		for _, d := range st.Diverged {
			c.HarnessError("C07 %s: %s", off.Name, d)
		}
		if st.Deadlines > 0 {
			c.HarnessError("C07 %s: %d executions hit the watchdog (first at schedule %v)", off.Name, st.Deadlines, st.DeadlineAt)
		}
		if st.WarmStart {
			c.Count("warm_start_scenarios", 1)
		}
		if st.Nondeterministic {
			c.HarnessError("C07 %s: replaying the default schedule gave a different execution", off.Name)
		}
	}
}

func c07SchedReplay(raw json.RawMessage) (string, bool, error) {
	var cs c07SchedCase
	if err := json.Unmarshal(raw, &cs); err != nil {
		return "", false, err
	}
	for _, off := range c07Offenders() {
		if off.Name != cs.Offender {
			continue
		}
		x := c07SchedExplorer(off, 0)
		run := x.New()
		r := vrt.Run(vrt.Options{Choices: cs.Choices, RaceDetect: off.MapRaces}, run.Body, run.AtQuiet)
		if r.Diverged != "" {
			return "", false, fmt.Errorf("schedule does not replay: %s", r.Diverged)
		}
		v := run.Verdict(r)
		return fmt.Sprintf("offender=%s schedule=%v clause=%q %s obs=%s", cs.Offender, cs.Choices, v.Clause, v.Detail, v.Obs), v.Clause != "", nil
	}
	return "", false, fmt.Errorf("unknown offender %s", cs.Offender)
}
