package props

import (
	"encoding/json"
	"fmt"
	"strings"

	"github.com/cybergarage/go-redis/vrt"
	"verif/fw"
	"verif/model"
	"verif/sched"
	"verif/srv"
)

// C04, concurrent part: two connections with replies of every type and of
// different lengths, every schedule within the deviation bound; each
// connection's byte stream must decode (strictly) into exactly its own replies.
// Catches reply bytes shared between connections (pooled / aliased buffers).

type c04SchedCase struct {
	Sched   bool  `json:"sched"`
	Variant int   `json:"variant"`
	Choices []int `json:"choices,omitempty"`
}

func c04SchedScripts(variant int) [][][]string {
	mk := func(i int) [][]string {
		k := fmt.Sprintf("k%d", i)
		long := strings.Repeat(string(rune('a'+i)), 20+17*i)
		base := [][]string{
			{"SET", k, long},
			{"GET", k},
			{"NOSUCH" + long[:5]},
			{"RPUSH", "l" + k, "a", long, "b"},
			{"LRANGE", "l" + k, "0", "-1"},
			{"INCR", k},
			{"ECHO", long + long},
			{"HMSET", "h" + k, "f", long},
			{"HGETALL", "h" + k},
			{"STRLEN", k},
		}
		if variant == 1 {
			// short replies first, long ones last
			return [][]string{base[9], base[5], base[1], base[6]}
		}
		if variant == 2 {
			return [][]string{base[0], base[6], base[2], base[4]}
		}
		return base[:6]
	}
	return [][][]string{mk(0), mk(1)}
}

func c04SchedExplorer(variant int, bound int) *sched.Explorer {
	scripts := c04SchedScripts(variant)
	x := &sched.Explorer{Bound: bound}
	x.New = func() *sched.Run {
		w := &mcWorld{Scripts: scripts}
		w.Setup = func(m *mcWorld) { m.Srv = srv.NewServer(srv.NewRefStore()) }
		return &sched.Run{Body: w.body, Verdict: func(r *vrt.Result) sched.Verdict {
			if v, ok := panicVerdict(r); ok {
				return v
			}
			obs := repliesString(w.Replies)
			for ci, sc := range scripts {
				ref := model.New()
				for j, cmd := range sc {
					want := ref.Apply(cmd)
					if j >= len(w.Replies[ci]) {
						return sched.Verdict{Clause: "reply-missing", Detail: fmt.Sprintf("connection %d got %d of %d replies: %s", ci, len(w.Replies[ci]), len(sc), obs), Obs: obs}
					}
					got := w.Replies[ci][j]
					if got.Status != "ok" {
						return sched.Verdict{Clause: "reply-stream-broken", Detail: fmt.Sprintf("connection %d, reply to %v: %s %s (the bytes on this connection are not a valid RESP value)", ci, cmd, got.Status, got.Err), Obs: obs}
					}
					if !sameReply(got.Reply, want) {
						return sched.Verdict{Clause: "reply-corrupted", Detail: fmt.Sprintf("connection %d, %v answered %s, expected %s", ci, cmd, got.Reply, want), Obs: obs}
					}
				}
			}
			return sched.Verdict{Obs: obs}
		}}
	}
	return x
}

func c04Sched(c *fw.Ctx) {
	bound := 2
	if c.Thorough() {
		bound = 3
	}
	for variant := 0; variant < 3; variant++ {
		x := c04SchedExplorer(variant, bound)
		x.ShardDepth = 1
		x.Owned = c.Mine
		x.Expired = c.Expired
		sched.SharedCounter = func() bool { return c.Shard == 0 }
		first := true
		x.OnExec = func(choices []int, r *vrt.Result, v sched.Verdict) {
			c.Eval()
			c.Count("sched_executions", 1)
			if strings.HasPrefix(v.Obs, "HARNESS-PANIC") {
				c.HarnessError("C04 sched %s", v.Obs)
			}
			if first {
				first = false
				c.Nontrivial()
				if c.WantSample() {
					c.Sample(map[string]any{"kind": "two connections, all schedules within the deviation bound", "scripts": c04SchedScripts(variant)})
				}
			}
			if v.Clause != "" {
				c.Violation("C04|concurrent|"+v.Clause, v.Detail+fmt.Sprintf(" variant=%d schedule=%v", variant, choices), c04SchedCase{Sched: true, Variant: variant, Choices: choices})
			}
		}
		x.Explore()
		c.Count("sched_transitions", x.Stats.Transitions)
		for _, d := range x.Stats.Diverged {
			c.HarnessError("C04 sched: %s", d)
		}
		if x.Stats.WarmStart {
			c.Count("warm_start_scenarios", 1)
		}
		if x.Stats.Nondeterministic {
			c.HarnessError("C04 sched: replaying the default schedule gave a different execution")
		}
	}
}

func c04SchedReplay(raw json.RawMessage) (string, bool, error) {
	var cs c04SchedCase
	if err := json.Unmarshal(raw, &cs); err != nil {
		return "", false, err
	}
	x := c04SchedExplorer(cs.Variant, 0)
	run := x.New()
	r := vrt.Run(vrt.Options{Choices: cs.Choices}, run.Body, run.AtQuiet)
	if r.Diverged != "" {
		return "", false, fmt.Errorf("schedule does not replay: %s", r.Diverged)
	}
	v := run.Verdict(r)
	return fmt.Sprintf("variant=%d schedule=%v clause=%q %s", cs.Variant, cs.Choices, v.Clause, v.Detail), v.Clause != "", nil
}
