package props

import (
	"crypto/tls"
	"encoding/json"
	"fmt"
	"strconv"
	"strings"
	"time"

	"github.com/cybergarage/go-redis/redis"
	"github.com/cybergarage/go-redis/vrt"
	"verif/fw"
	"verif/grammar"
	"verif/resp"
	"verif/sched"
	"verif/seq"
	"verif/srv"
)

// C13: connection-scoped state stays with its connection.

const c13Pass = "Secret1"

type c13Case struct {
	Kind     string       `json:"kind"` // sched | state
	Scripts  [][][]string `json:"scripts,omitempty"`
	Password bool         `json:"password"`
	Reconn   []int        `json:"reconnect,omitempty"`
	Choices  []int        `json:"choices,omitempty"`
	History  [][]string   `json:"history,omitempty"`
	TLS      bool         `json:"tls,omitempty"` // state: connections arrive over the TLS port
	// Stop: the application calls Server.Stop while the clients are being served (at
	// any point the schedule allows, also between two handler calls of one
	// composite command). Requests cut off by it are no failures; every handler
	// call that does happen must still see its connection's state.
	Stop bool `json:"stop,omitempty"`
	// Reconf: the application removes the required password before client 0's request
	// #1 and sets another one ("Other1") before its request #2. Whatever the
	// connection may do while no password is required, it has not presented the
	// new one afterwards.
	Reconf bool `json:"reconfigure_password,omitempty"`
	// Program (kind "runtime"): a program of the C08 runtime explorer judged for this property:
	// a connection's authorization changes through its own AUTH only
	Program []string `json:"program,omitempty"`
}

// c13Model is the per-client model of connection-scoped state.
type c13Model struct {
	db     int
	auth   bool
	conn   *redis.Conn // kept referenced, so the address cannot be reused while it is compared
	tagged bool
}

type c13World struct {
	nopass   bool          // no password is required right now (Reconf)
	pass     string        // the password required right now
	keep     []*redis.Conn // every connection object seen stays referenced for the whole execution
	mc       *mcWorld
	password bool
	model    []*c13Model
	viol     []string
	double   *srv.Double
}

func (w *c13World) fail(clause, detail string) {
	w.viol = append(w.viol, clause+"\x00"+detail)
}

// c13Scripts: client i uses key "k<i>" so that handler calls identify the client.
func c13ScriptSet(i int) [][][]string {
	k := "k" + strconv.Itoa(i)
	return [][][]string{
		{{"SELECT", "1"}, {"GET", k}},
		{{"SELECT", "2"}, {"SET", k, "v"}, {"GET", k}},
		{{"GET", k}, {"GET", k}},
		{{"AUTH", c13Pass}, {"SELECT", "3"}, {"GET", k}},
		{{"SELECT", "abc"}, {"GET", k}},
		{{"AUTH", c13Pass}, {"SELECT", "3"}, {"AUTH", "wrong"}, {"GET", k}},
		{{"AUTH", "admin", "wrong"}, {"AUTH", c13Pass}, {"GET", k}},
		{{"AUTH", c13Pass}, {"SELECT", "7"}, {"GET", k}, {"GET", k}}, // with reconnect before the last GET
	}
}

func c13NewWorld(scripts [][][]string, password bool, reconn []int, stop bool) *c13World {
	w := &c13World{password: password, pass: c13Pass}
	w.model = make([]*c13Model, len(scripts))
	for i := range w.model {
		w.model[i] = &c13Model{auth: !password}
	}
	w.mc = &mcWorld{Scripts: scripts, Reconnect: reconn}
	w.mc.Setup = func(m *mcWorld) {
		d := srv.NewDouble()
		w.double = d
		d.OnCall = func(conn *redis.Conn, c srv.Call) {
			if stop {
				vrt.Yield("handler") // Stop may run between any two handler calls
			}
			// which client does this call belong to?
			ci := -1
			for _, a := range c.Args {
				if s, ok := a.(string); ok && len(s) == 2 && s[0] == 'k' {
					ci = int(s[1] - '0')
				}
			}
			if ci < 0 || ci >= len(w.model) {
				return
			}
			md := w.model[ci]
			if int(conn.Database()) != md.db {
				w.fail("wrong-database", fmt.Sprintf("client %d selected database %d but its handler call %s saw conn.Database()=%d", ci, md.db, c.Method, conn.Database()))
			}
			if !conn.IsAuthrized() && !w.nopass {
				w.fail("handler-call-unauthorized", fmt.Sprintf("client %d: handler call %s on a connection that is not authorized", ci, c.Method))
			}
			if w.password && !md.auth && !w.nopass {
				w.fail("executed-without-auth", fmt.Sprintf("client %d never authenticated on this connection but %s was executed", ci, c.Method))
			}
			if md.conn == nil {
				md.conn = conn
				w.keep = append(w.keep, conn)
				for cj, o := range w.model {
					if cj != ci && o.conn == conn {
						w.fail("conn-shared", fmt.Sprintf("clients %d and %d are served with the same connection object", ci, cj))
					}
				}
			} else if md.conn != conn {
				w.fail("conn-identity-changed", fmt.Sprintf("client %d: the connection object changed between its requests", ci))
			}
			tag := "client" + strconv.Itoa(ci)
			if v, ok := conn.Load("tag"); ok {
				if v != tag {
					w.fail("user-data-leak", fmt.Sprintf("client %d found another connection's user data (%v) on its connection", ci, v))
				}
			} else {
				if md.tagged {
					w.fail("user-data-lost", fmt.Sprintf("client %d: user data stored on the connection earlier is gone", ci))
				}
				conn.Store("tag", tag)
				md.tagged = true
			}
		}
		m.Srv = srv.NewServer(d)
		if password {
			m.Srv.SetRequirePass(c13Pass)
		}
	}
	w.mc.AfterReply = func(ci, idx int, o sched.Outcome) {
		md := w.model[ci]
		cmd := w.mc.Scripts[ci][idx]
		if len(reconn) > ci && reconn[ci] == idx && idx > 0 {
			// this reply came over a fresh connection: defaults
		}
		if o.Status != "ok" {
			if !stop {
				w.fail("request-"+o.Status, fmt.Sprintf("client %d request %v: %s", ci, cmd, o.String()))
			}
			return
		}
		allowed := md.auth
		switch cmd[0] {
		case "SELECT":
			n, err := strconv.Atoi(cmd[1])
			if w.nopass && !md.auth && err == nil {
				// no password required right now: either answer is acceptable, the model follows it
				if o.Reply.Equal(resp.S("OK")) {
					md.db = n
				}
				return
			}
			if !allowed || err != nil {
				if !o.Reply.IsError() {
					w.fail("select-reply", fmt.Sprintf("client %d: %v answered %s", ci, cmd, o.Reply))
				}
				return
			}
			if !o.Reply.Equal(resp.S("OK")) {
				w.fail("select-reply", fmt.Sprintf("client %d: %v answered %s", ci, cmd, o.Reply))
				return
			}
			md.db = n
		case "AUTH":
			good := len(cmd) == 2 && cmd[1] == w.pass
			if !w.password || w.nopass {
				return // no expectation without a configured password
			}
			if good {
				if !o.Reply.Equal(resp.S("OK")) {
					w.fail("auth-reply", fmt.Sprintf("client %d: AUTH with the password answered %s", ci, o.Reply))
					return
				}
				md.auth = true
			} else if !o.Reply.IsError() {
				w.fail("auth-reply", fmt.Sprintf("client %d: AUTH with a wrong password answered %s", ci, o.Reply))
			}
		default:
			if w.nopass && !md.auth {
				return // no password required right now: no expectation for a connection that never authenticated
			}
			if allowed && o.Reply.IsError() {
				w.fail("refused-although-authorized", fmt.Sprintf("client %d: %v answered %s although the connection is authorized (database %d)", ci, cmd, o.Reply, md.db))
			}
			if !allowed && !o.Reply.IsError() {
				w.fail("executed-without-auth", fmt.Sprintf("client %d: %v answered %s before AUTH", ci, cmd, o.Reply))
			}
		}
	}
	return w
}

func c13Explorer(cs c13Case, bound int) *sched.Explorer {
	x := &sched.Explorer{Bound: bound}
	x.New = func() *sched.Run {
		w := c13NewWorld(cs.Scripts, cs.Password, cs.Reconn, cs.Stop)
		if cs.Stop {
			w.mc.Background = func(m *mcWorld) { m.Srv.Stop() }
		}
		if cs.Reconf {
			w.mc.BeforeSend = func(ci, idx int) {
				if ci != 0 {
					return
				}
				switch idx {
				case 1:
					w.mc.Srv.RemoveRequirePass()
					w.nopass = true
				case 2:
					w.mc.Srv.SetRequirePass("Other1")
					w.nopass, w.pass = false, "Other1"
				}
			}
		}
		// a new connection starts at the defaults
		w.mc.OnReconnect = func(ci int) {
			w.model[ci] = &c13Model{auth: !cs.Password}
		}
		return &sched.Run{
			Body: w.mc.body,
			Verdict: func(r *vrt.Result) sched.Verdict {
				if v, ok := panicVerdict(r); ok {
					return v
				}
				obs := repliesString(w.mc.Replies)
				if w.mc.StartErr != nil {
					return sched.Verdict{Obs: "start-error " + w.mc.StartErr.Error()}
				}
				for i, sc := range cs.Scripts {
					if len(w.mc.Replies[i]) != len(sc) && len(w.viol) == 0 && !cs.Stop {
						w.fail("client-starved", fmt.Sprintf("client %d got %d of %d replies (dial: %s)", i, len(w.mc.Replies[i]), len(sc), w.mc.Dialed[i]))
					}
				}
				if len(w.viol) > 0 {
					p := strings.SplitN(w.viol[0], "\x00", 2)
					return sched.Verdict{Clause: p[0], Detail: p[1], Obs: obs}
				}
				return sched.Verdict{Obs: obs}
			},
		}
	}
	return x
}

// ---- STATE part: closure of one connection's state machine ----

type c13St struct {
	db   int
	auth bool
}

func c13StateProbe(history [][]string, password, overTLS bool) (st c13St, clause, detail string) {
	d := srv.NewDouble()
	s := srv.NewServer(d)
	if password {
		s.SetRequirePass(c13Pass)
		installPassword(s, c13Pass)
	}
	// split the history at "RECONNECT" markers: each segment is a connection
	var segs [][][]string
	cur := [][]string{}
	for _, h := range history {
		if h[0] == "RECONNECT" {
			segs = append(segs, cur)
			cur = [][]string{}
			continue
		}
		cur = append(cur, h)
	}
	segs = append(segs, cur)
	model := c13St{auth: !password}
	for si, seg := range segs {
		if si > 0 {
			model = c13St{auth: !password}
		}
		var in []byte
		for _, h := range seg {
			in = append(in, grammar.Encode(h)...)
		}
		in = append(in, grammar.Encode([]string{"GET", "probe"})...)
		before := len(d.Calls)
		var tlsState *tls.ConnectionState
		if overTLS {
			tlsState = &tls.ConnectionState{HandshakeComplete: true, Version: tls.VersionTLS13}
		}
		out := srv.RunConnTLS(s, seq.NewConn(seq.Script{Input: in}), tlsState)
		if cl, dt := crashClause(out); cl != "" {
			return st, cl, dt
		}
		vals, derr := resp.DecodeAll(out.Reply)
		if derr != nil || len(vals) != len(seg)+1 {
			return st, "reply-count", fmt.Sprintf("%d requests, replies %s", len(seg)+1, valuesString(vals))
		}
		for i, h := range seg {
			switch h[0] {
			case "SELECT":
				n, err := strconv.Atoi(h[1])
				if model.auth && err == nil && (n < 0 || len(h) > 2) {
					// a negative index: whether it is accepted is not stated; the connection's
					// database changes iff the client was told OK
					if vals[i].Equal(resp.S("OK")) {
						model.db = n
					} else if !vals[i].IsError() {
						return st, "select-reply", fmt.Sprintf("%v answered %s", h, vals[i])
					}
				} else if model.auth && err == nil {
					if !vals[i].Equal(resp.S("OK")) {
						return st, "select-reply", fmt.Sprintf("%v answered %s", h, vals[i])
					}
					model.db = n
				} else if !vals[i].IsError() {
					return st, "select-reply", fmt.Sprintf("%v answered %s", h, vals[i])
				}
			case "AUTH":
				if password {
					if h[1] == c13Pass {
						if !vals[i].Equal(resp.S("OK")) {
							return st, "auth-reply", fmt.Sprintf("AUTH with the password answered %s", vals[i])
						}
						model.auth = true
					} else if !vals[i].IsError() {
						return st, "auth-reply", fmt.Sprintf("%v answered %s", h, vals[i])
					}
				}
			case "GET":
				if model.auth == vals[i].IsError() {
					return st, "gate", fmt.Sprintf("%v answered %s with authorized=%v", h, vals[i], model.auth)
				}
			}
		}
		// the probe
		probe := vals[len(seg)]
		calls := d.Calls[before:]
		if model.auth {
			if probe.IsError() || len(calls) == 0 {
				return st, "refused-although-authorized", fmt.Sprintf("probe GET answered %s after %v", probe, seg)
			}
			last := calls[len(calls)-1]
			if last.DB != model.db {
				return st, "wrong-database", fmt.Sprintf("after %v the handler saw database %d, expected %d", seg, last.DB, model.db)
			}
			st = c13St{db: last.DB, auth: true}
		} else {
			if !probe.IsError() {
				return st, "executed-without-auth", fmt.Sprintf("probe GET answered %s after %v", probe, seg)
			}
			for _, cl := range calls {
				return st, "executed-without-auth", "handler call " + cl.Method + " before AUTH"
			}
			st = c13St{db: -1, auth: false}
		}
	}
	return st, "", ""
}

func c13State(c *fw.Ctx) {
	events := [][]string{{"SELECT", "0"}, {"SELECT", "1"}, {"SELECT", "7"}, {"SELECT", "abc"}, {"SELECT", "2147483648"}, {"SELECT", "4294967297"}, {"SELECT", "9223372036854775807"}, {"SELECT", "-1"}, {"SELECT", "-7"}, {"SELECT", "5", "now"}, {"SELECT", "6", "6"}, {"GET", "k"}, {"AUTH", c13Pass}, {"AUTH", "wrong"}, {"RECONNECT"}}
	for _, variant := range []int{0, 1, 2, 3} {
		password, overTLS := variant&1 == 1, variant&2 == 2
		if !c.Mine() {
			continue
		}
		seen := map[string]bool{}
		frontier := [][][]string{nil}
		depth := 0
		for len(frontier) > 0 && depth < 8 {
			var next [][][]string
			for _, h := range frontier {
				for _, ev := range events {
					hist := append(append([][]string{}, h...), ev)
					c.Eval()
					c.Count("transitions", 1)
					st, clause, detail := c13StateProbe(hist, password, overTLS)
					if clause != "" {
						c.Violation("C13|state|"+clause, detail+fmt.Sprintf(" history=%v password=%v tls=%v", hist, password, overTLS), c13Case{Kind: "state", History: hist, Password: password, TLS: overTLS})
						continue
					}
					key := fmt.Sprintf("%v|%v|%d|%v|%v", password, overTLS, st.db, st.auth, ev[0] == "RECONNECT")
					// canonical state: (database, authorized); differential check on merge:
					// the same canonical state reached along another path must answer the probe the same way
					c.DistinctAdd("states", "state|"+key)
					if seen[key] {
						continue
					}
					seen[key] = true
					c.Nontrivial()
					next = append(next, hist)
				}
			}
			frontier = next
			depth++
		}
		if len(frontier) == 0 {
			c.Count("closed_state_searches", 1)
		} else {
			c.Cap("C13 state search (password=%v tls=%v) did not close within depth 8", password, overTLS)
		}
	}
}

// c13Runtime: the authorization of a connection is its own - whatever OTHER connections and
// the application do to the required password (programs of c08runtime.go that involve
// several connections), it changes through the connection's own AUTH only.
func c13Runtime(c *fw.Ctx) {
	for i, prog := range c08Programs {
		multi := false
		for _, st := range prog {
			if strings.HasPrefix(st, "new:1") {
				multi = true
			}
		}
		if !multi || !c.Mine() {
			continue
		}
		b := 1
		if c08Concurrent(prog) {
			b = 2
		}
		x := c08RuntimeExplorer(prog, b)
		x.Expired = c.Expired
		name := fmt.Sprintf("runtime-program-%d", i)
		x.OnExec = func(choices []int, r *vrt.Result, v sched.Verdict) {
			c.Eval()
			if strings.HasPrefix(v.Obs, "HARNESS-PANIC") {
				c.HarnessError("C13 %s %s", name, v.Obs)
			}
			if v.Clause != "" {
				c.Violation("C13|runtime|"+v.Clause, v.Detail+fmt.Sprintf(" schedule=%v", choices), c13Case{Kind: "runtime", Program: prog, Choices: choices})
			}
		}
		x.Explore()
		schedAccount(c, x, name)
	}
}

func c13Run(c *fw.Ctx) {
	c13State(c)
	c13Runtime(c)
	bound := 2
	nScripts := len(c13ScriptSet(0))
	for _, password := range []bool{false, true} {
		for a := 0; a < nScripts; a++ {
			for b := 0; b < nScripts; b++ {
				if !c.Mine() {
					continue
				}
				if c.Expired() {
					return
				}
				scripts := [][][]string{c13ScriptSet(0)[a], c13ScriptSet(1)[b]}
				reconn := []int{0, 0}
				if a == nScripts-1 {
					reconn[0] = 3
				}
				if b == nScripts-1 {
					reconn[1] = 3
				}
				cs := c13Case{Kind: "sched", Scripts: scripts, Password: password, Reconn: reconn}
				c13Explore(c, cs, bound)
			}
		}
	}
	// per-connection user data across AUTH attempts of every form (the handler stores its tag at
	// the first call and must find it at every later one)
	for _, password := range []bool{false, true} {
		if !c.Mine() {
			continue
		}
		var scripts [][][]string
		for i := 0; i < 2; i++ {
			k := "k" + strconv.Itoa(i)
			sc := [][]string{{"GET", k}, {"STRLEN", k}, {"HLEN", k}, {"HKEYS", k}, {"SUBSTR", k, "0", "1"}, {"APPEND", k, "x"}, {"MGET", k, k}, {"GET", k}, {"AUTH", "admin", "wrong"}, {"GET", k}, {"AUTH", "wrong"}, {"GET", k}, {"AUTH", "default", c13Pass}, {"GET", k}, {"AUTH", c13Pass}, {"GET", k}}
			if password {
				sc = append([][]string{{"AUTH", c13Pass}}, sc...)
			}
			scripts = append(scripts, sc)
		}
		c13Explore(c, c13Case{Kind: "sched", Scripts: scripts[:1], Password: password, Reconn: []int{0}}, 2)
		c13Explore(c, c13Case{Kind: "sched", Scripts: scripts, Password: password, Reconn: []int{0, 0}}, 1)
	}
	// the required password removed and replaced while an unauthenticated connection is open
	if c.Mine() {
		for _, sc := range [][][]string{
			{{"GET", "k0"}, {"GET", "k0"}, {"GET", "k0"}, {"AUTH", c13Pass}, {"GET", "k0"}, {"AUTH", "Other1"}, {"SELECT", "2"}, {"GET", "k0"}},
			{{"AUTH", "nope"}, {"SELECT", "1"}, {"GET", "k0"}, {"SELECT", "4"}, {"AUTH", "Other1"}, {"GET", "k0"}},
		} {
			c13Explore(c, c13Case{Kind: "sched", Scripts: [][][]string{sc}, Password: true, Reconn: []int{0}, Reconf: true}, 2)
		}
	}
	// Stop while composite commands (several handler calls each) are in flight
	for _, password := range []bool{false, true} {
		for nc := 1; nc <= 2; nc++ {
			if !c.Mine() {
				continue
			}
			var scripts [][][]string
			for i := 0; i < nc; i++ {
				k := "k" + strconv.Itoa(i)
				sc := [][]string{{"SELECT", strconv.Itoa(3 + i)}, {"MSET", k, "1", k, "2", k, "3"}, {"MGET", k, k}}
				if password {
					sc = append([][]string{{"AUTH", c13Pass}}, sc...)
				}
				scripts = append(scripts, sc)
			}
			b := 3
			if nc == 2 && c.Quick() {
				b = 2
			}
			c13Explore(c, c13Case{Kind: "sched", Scripts: scripts, Password: password, Reconn: make([]int, nc), Stop: true}, b)
		}
	}
	if c.Thorough() {
		// three connections, bound 2; and two connections, bound 3
		for a := 0; a < nScripts; a++ {
			for b := 0; b < nScripts; b++ {
				if !c.Mine() {
					continue
				}
				if c.Expired() {
					return
				}
				cs := c13Case{Kind: "sched", Scripts: [][][]string{c13ScriptSet(0)[a], c13ScriptSet(1)[b], c13ScriptSet(2)[(a+b)%6]}, Password: true, Reconn: []int{0, 0, 0}}
				c13Explore(c, cs, 2)
				cs2 := c13Case{Kind: "sched", Scripts: [][][]string{c13ScriptSet(0)[a], c13ScriptSet(1)[b]}, Password: a%2 == 0, Reconn: []int{0, 0}}
				c13Explore(c, cs2, 3)
			}
		}
	}
}

func c13Explore(c *fw.Ctx, cs c13Case, bound int) {
	x := c13Explorer(cs, bound)
	x.Expired = c.Expired
	first := true
	name := fmt.Sprintf("%v|pw=%v", cs.Scripts, cs.Password)
	x.OnExec = func(choices []int, r *vrt.Result, v sched.Verdict) {
		c.Eval()
		if strings.HasPrefix(v.Obs, "HARNESS-PANIC") {
			c.HarnessError("C13 %s", v.Obs)
		}
		if first {
			first = false
			if c.WantSample() {
				c.Sample(map[string]any{"scripts": cs.Scripts, "password": cs.Password, "schedule": choices, "replies": v.Obs})
			}
			y := c13Explorer(cs, 0)
			run := y.New()
			r2 := vrt.Run(vrt.Options{Choices: choices}, run.Body, run.AtQuiet)
			if sched.Signature(r2) != sched.Signature(r) {
				c.HarnessError("C13 %s: replay of the same schedule diverged", name)
			}
		}
		if v.Clause != "" {
			cc := cs
			cc.Choices = choices
			c.Violation("C13|sched|"+v.Clause, v.Detail+fmt.Sprintf(" scripts=%v password=%v schedule=%v", cs.Scripts, cs.Password, choices), cc)
		}
	}
	x.Explore()
	schedAccount(c, x, name)
}

// schedAccount folds an explorer's statistics into the worker's counters.
func schedAccount(c *fw.Ctx, x *sched.Explorer, name string) {
	st := x.Stats
	c.Count("transitions", st.Transitions)
	if len(st.Observations()) > 1 {
		c.Nontrivial()
	}
	for o := range st.Observations() {
		c.DistinctAdd("states", name+"|"+o)
	}
	for _, d := range st.Diverged {
		c.HarnessError("%s %s: %s", c.Prop, name, d)
	}
	if st.Deadlines > 0 {
		c.HarnessError("%s %s: %d executions hit the watchdog (first at schedule %v)", c.Prop, name, st.Deadlines, st.DeadlineAt)
	}
	if st.WarmStart {
		c.Count("warm_start_scenarios", 1)
	}
	if st.Nondeterministic {
		c.HarnessError("%s %s: replaying the default schedule gave a different execution (uncaptured nondeterminism)", c.Prop, name)
	}
	if st.StepCapped > 0 {
		c.Cap("%s: %d executions hit the step cap", name, st.StepCapped)
	}
	if st.Capped {
		c.Cap("%s: exploration stopped early", name)
	}
}

func c13Replay(raw json.RawMessage) (string, bool, error) {
	var cs c13Case
	if err := json.Unmarshal(raw, &cs); err != nil {
		return "", false, err
	}
	if cs.Kind == "runtime" {
		run := c08RuntimeExplorer(cs.Program, 0).New()
		r := vrt.Run(vrt.Options{Choices: cs.Choices}, run.Body, run.AtQuiet)
		if r.Diverged != "" {
			return "", false, fmt.Errorf("schedule does not replay: %s", r.Diverged)
		}
		v := run.Verdict(r)
		return fmt.Sprintf("program=%v schedule=%v clause=%q %s", cs.Program, cs.Choices, v.Clause, v.Detail), v.Clause != "", nil
	}
	if cs.Kind == "state" {
		st, clause, detail := c13StateProbe(cs.History, cs.Password, cs.TLS)
		return fmt.Sprintf("history=%v password=%v state=%+v clause=%q %s", cs.History, cs.Password, st, clause, detail), clause != "", nil
	}
	x := c13Explorer(cs, 0)
	run := x.New()
	r := vrt.Run(vrt.Options{Choices: cs.Choices}, run.Body, run.AtQuiet)
	if r.Diverged != "" {
		return "", false, fmt.Errorf("schedule does not replay: %s", r.Diverged)
	}
	v := run.Verdict(r)
	return fmt.Sprintf("scripts=%v password=%v schedule=%v clause=%q %s obs=%s", cs.Scripts, cs.Password, cs.Choices, v.Clause, v.Detail, v.Obs), v.Clause != "", nil
}

func init() {
	fw.Register(&fw.Prop{
		ID:          "C13",
		Level:       "model_checking",
		Rule:        "(STATE) breadth-first closure of one connection's state machine over the events {SELECT 0/1/7, SELECT 2^31 / 2^32+1 / 2^63-1, SELECT -1 / -7 and SELECT with a surplus argument (the database follows the reply), SELECT abc, GET, AUTH password, AUTH wrong, disconnect+reconnect}, with and without a configured password, over a plain connection and over one that arrived through the TLS port, canonical state (database, authorized) observed inside the handler through a probe; (SCHED) two connections through the real Start/accept loop/connection goroutines, each running one of 8 scripts (SELECT/SET/GET, AUTH then SELECT, failing SELECT, failed AUTH after a good one, reconnect) x with/without password = 128 scenarios, every schedule within deviation bound 2 (thorough: three connections, and bound 3); inside every handler call the issuing client's own model (database, authorization, connection object identity, per-connection user data in the sync.Map) is compared with what the handler sees. Plus: Server.Stop as one more thread while composite commands (several handler calls each, every call a scheduling point) are in flight, and the required password removed and replaced by the application between the requests of an unauthenticated connection. Per-connection user data must survive AUTH attempts of every form (one and two arguments, right and wrong). The multi-connection programs of the C08 runtime part are judged here too: a connection's authorization changes through its own AUTH only, whatever other connections and the application do to the required password.",
		Assumptions: []string{"sequentially consistent interleavings; deviation (delay) bounded", "client counts above 3 are not explored"},
		Run:         c13Run,
		Replay:      c13Replay,
		Budget: func(tier string) time.Duration {
			if tier == "thorough" {
				return 20 * time.Minute
			}
			return 4 * time.Minute
		},
		Finish: schedFinish,
	})
}
