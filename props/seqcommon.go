package props

import (
	"fmt"
	"sort"
	"strings"

	"github.com/cybergarage/go-redis/redis"
	"verif/resp"
	"verif/seq"
	"verif/srv"
)

// seqRun is one single-connection execution against a recording double.
type seqRun struct {
	Double  *srv.Double
	Out     srv.Outcome
	Replies []resp.Value
	DecErr  *resp.DecodeError
}

// runDouble feeds script to a fresh server with a fresh recording double.
// setup may adjust the server / double before the run.
func runDouble(script seq.Script, setup func(s *redis.Server, d *srv.Double)) seqRun {
	d := srv.NewDouble()
	s := srv.NewServer(d)
	if setup != nil {
		setup(s, d)
	}
	conn := seq.NewConn(script)
	out := srv.RunConn(s, conn)
	r := seqRun{Double: d, Out: out}
	r.Replies, r.DecErr = resp.DecodeAll(out.Reply)
	return r
}

// crashClause returns a cause clause if the run panicked or spun.
func crashClause(o srv.Outcome) (clause, detail string) {
	if o.Panic != "" {
		return "panic@" + o.PanicSite, "panic escaped the connection loop (would abort the process): " + o.Panic + " at " + o.PanicSite
	}
	if o.Spin != "" {
		return "spin@" + o.Spin, "loop iteration budget exceeded (connection spins) at " + o.Spin
	}
	return "", ""
}

func callsEqual(got []srv.Call, want []srv.Call, multiset bool) bool {
	if len(got) != len(want) {
		return false
	}
	g := srv.CallKeys(got, multiset)
	w := srv.CallKeys(want, multiset)
	for i := range g {
		if g[i] != w[i] {
			return false
		}
	}
	return true
}

func callsString(c []srv.Call) string {
	return "[" + strings.Join(srv.CallKeys(c, false), "; ") + "]"
}

func valuesString(v []resp.Value) string {
	var p []string
	for _, x := range v {
		p = append(p, x.String())
	}
	return "[" + strings.Join(p, " ") + "]"
}

func argsString(args []string) string { return fmt.Sprintf("%q", args) }

func sortedKeys(m map[string]bool) []string {
	var out []string
	for k := range m {
		out = append(out, k)
	}
	sort.Strings(out)
	return out
}

func concat(bs ...[]byte) []byte {
	var out []byte
	for _, b := range bs {
		out = append(out, b...)
	}
	return out
}

func sortedInts(m map[int]bool) []int {
	out := make([]int, 0, len(m))
	for k := range m {
		out = append(out, k)
	}
	sort.Ints(out)
	return out
}
