package props

import (
	"bytes"
	"crypto/tls"
	"encoding/json"
	"fmt"
	"strings"

	exsrv "github.com/cybergarage/go-redis/examples/go-redisd/server"
	"github.com/cybergarage/go-redis/redis"
	"verif/fw"
	"verif/grammar"
	"verif/resp"
	"verif/seq"
	"verif/srv"
)

// C03: exactly one reply per request, in order, without needing more input.

type c03Case struct {
	Requests [][]byte `json:"requests"`
	Labels   []string `json:"labels"`
	Splits   []int    `json:"splits,omitempty"`
	Stride   int      `json:"stride,omitempty"`
	Store    string   `json:"store,omitempty"` // "example": the repeat part against the bundled store
	Kept     string   `json:"kept,omitempty"`  // "shared": the handler keeps its reply per call content and returns the same message object again; "read": it reads the reply to its end before returning it
}

// soloReply runs one request alone and returns its reply (nil if none).
type soloResult struct {
	Reply  []resp.Value
	Calls  []string
	Crash  string
	Detail string
	Quit   bool
}

var soloMemo = map[string]*soloResult{}

func solo(reqBytes []byte) *soloResult {
	if r, ok := soloMemo[string(reqBytes)]; ok {
		return r
	}
	r := runDouble(seq.Script{Input: reqBytes}, func(s *redis.Server, d *srv.Double) {
		s.SetAuthCommandHandler(d)
		catalogueDouble(d)
	})
	sr := &soloResult{Reply: r.Replies, Calls: srv.CallKeys(r.Double.Calls, false)}
	sr.Crash, sr.Detail = crashClause(r.Out)
	if sr.Crash == "" && r.DecErr != nil {
		sr.Crash, sr.Detail = "reply-malformed", r.DecErr.Error()+" in "+trunc(r.Out.Reply, 100)
	}
	soloMemo[string(reqBytes)] = sr
	return sr
}

func isQuit(req []byte) bool {
	v, _, err := resp.Decode(req, 0)
	return err == nil && v.Kind == resp.Array && len(v.Elems) >= 1 && strings.EqualFold(string(v.Elems[0].Data), "QUIT")
}

// c03Check runs the pipeline under the delivery script and checks the
// reply/liveness invariant at every Read and at the end.
func c03Check(cs c03Case) (clause, detail string) {
	var input []byte
	var ends []int
	quitAt := -1
	for i, r := range cs.Requests {
		input = append(input, r...)
		ends = append(ends, len(input))
		if quitAt < 0 && isQuit(r) {
			quitAt = i
		}
	}
	conn := seq.NewConn(seq.Script{Input: input, Splits: cs.Splits, Stride: cs.Stride})
	d := srv.NewDouble()
	catalogueDouble(d)
	if cs.Kept != "" {
		inner := d.Result
		kept := map[string]*redis.Message{}
		d.Result = func(d *srv.Double, c srv.Call) (*redis.Message, error) {
			if m := kept[c.Key()]; m != nil && cs.Kept == "shared" {
				return m, nil
			}
			m, err := inner(d, c)
			if m != nil && err == nil {
				if cs.Kept == "read" {
					readThrough(m)
				}
				kept[c.Key()] = m
			}
			return m, err
		}
	}
	s := srv.NewServer(d)
	s.SetAuthCommandHandler(d)
	lastChecked := -1
	var liveClause, liveDetail string
	conn.OnRead = func(delivered int, starving bool) {
		k := 0
		for k < len(ends) && ends[k] <= delivered {
			k++
		}
		if quitAt >= 0 && k > quitAt {
			if liveClause == "" {
				liveClause, liveDetail = "read-after-quit", fmt.Sprintf("the server asked for more input after QUIT (request #%d) was delivered", quitAt)
			}
			return
		}
		if k == lastChecked && !starving {
			return
		}
		lastChecked = k
		vals, derr := resp.DecodeAll(conn.Out)
		if derr != nil && !derr.Incomplete && liveClause == "" {
			liveClause, liveDetail = "reply-malformed", derr.Error()
			return
		}
		if len(vals) != k && liveClause == "" {
			liveClause = "reply-lag"
			liveDetail = fmt.Sprintf("at a Read with %d bytes delivered, %d requests were complete but %d replies had been written", delivered, k, len(vals))
		}
	}
	out := srv.RunConn(s, conn)
	if cl, dt := crashClause(out); cl != "" {
		return cl, dt
	}
	if liveClause != "" {
		return liveClause, liveDetail
	}
	vals, derr := resp.DecodeAll(out.Reply)
	if derr != nil {
		return "reply-malformed", derr.Error() + " in " + trunc(out.Reply, 120)
	}
	want := len(cs.Requests)
	if quitAt >= 0 {
		want = quitAt + 1
	}
	if len(vals) != want {
		return "reply-count", fmt.Sprintf("%d requests to answer, %d replies: %s", want, len(vals), valuesString(vals))
	}
	var wantCalls []string
	for i := 0; i < want; i++ {
		sr := solo(cs.Requests[i])
		if sr.Crash != "" {
			return "solo-" + sr.Crash, sr.Detail
		}
		if len(sr.Reply) != 1 {
			return "solo-reply-count", fmt.Sprintf("request #%d alone got %d replies", i, len(sr.Reply))
		}
		if cs.Kept != "" {
			// commands the library derives from another handler's reply (HKEYS, HLEN,
			// SCARD, ...) read that reply through its cursor, so what they answer for a
			// reply object that was read before is the application's business: only
			// the reply's type is compared here
			if vals[i].Kind != sr.Reply[0].Kind {
				return "reply-order", fmt.Sprintf("reply #%d is %s but request #%d alone is answered %s", i, vals[i], i, sr.Reply[0])
			}
		} else if !vals[i].Equal(sr.Reply[0]) {
			return "reply-order", fmt.Sprintf("reply #%d is %s but request #%d alone is answered %s", i, vals[i], i, sr.Reply[0])
		}
		wantCalls = append(wantCalls, sr.Calls...)
	}
	got := srv.CallKeys(d.Calls, false)
	if strings.Join(got, ";") != strings.Join(wantCalls, ";") {
		return "handler-calls", fmt.Sprintf("handler calls %v, expected %v", got, wantCalls)
	}
	if quitAt >= 0 {
		if !vals[quitAt].Equal(resp.S("OK")) {
			return "quit-reply", "QUIT answered " + vals[quitAt].String()
		}
		if out.Closes == 0 {
			return "quit-not-closed", "connection not closed after QUIT"
		}
	}
	if !out.Returned || out.Closes == 0 {
		return "not-released", "connection loop did not close the connection at end of stream"
	}
	return "", ""
}

// c03CheckExample runs the pipeline on one connection of the bundled example
// server (populated first on another connection): one well-formed reply per
// request, in order, PING answered PONG at its position, loop released.
func c03CheckExample(cs c03Case) (clause, detail string) {
	ex := exsrv.NewServer()
	var setup []byte
	for _, c := range c07Setups()["3"] {
		setup = append(setup, grammar.Encode(c)...)
	}
	if o := srv.RunConn(ex.Server, seq.NewConn(seq.Script{Input: setup})); o.Panic != "" || o.Spin != "" {
		cl, dt := crashClause(o)
		return "setup-" + cl, dt
	}
	out := srv.RunConn(ex.Server, seq.NewConn(seq.Script{Input: concat(cs.Requests...), Stride: cs.Stride}))
	if cl, dt := crashClause(out); cl != "" {
		return cl, dt
	}
	vals, derr := resp.DecodeAll(out.Reply)
	if derr != nil {
		return "reply-malformed", derr.Error() + " in " + trunc(out.Reply, 120)
	}
	if len(vals) != len(cs.Requests) {
		return "reply-count", fmt.Sprintf("%d requests to answer, %d replies: %s", len(cs.Requests), len(vals), valuesString(vals))
	}
	for i, l := range cs.Labels {
		if l == "PING|probe" && !vals[i].Equal(resp.S("PONG")) {
			return "reply-order", fmt.Sprintf("reply #%d (to PING) is %s", i, vals[i])
		}
	}
	if !out.Returned || out.Closes == 0 {
		return "not-released", "connection loop did not close the connection at end of stream"
	}
	return "", ""
}

// c03ConfigCheck runs one request under a non-default server configuration and
// compares reply and handler calls with the default configuration's (base).
func c03ConfigCheck(req []byte, base *soloResult, cfg string) (clause, detail string) {
	d := srv.NewDouble()
	catalogueDouble(d)
	s := srv.NewServer(d)
	input := req
	skip := 0
	if strings.Contains(cfg, "unauthenticated") {
		// a password is required and the client does not present it: every request is
		// still answered exactly once (with an error), nothing is executed
		s.SetRequirePass("Secret1")
		installPassword(s, "Secret1")
		s.SetTracer(srv.NewTracer())
		out := srv.RunConn(s, seq.NewConn(seq.Script{Input: concat(req, grammar.Encode([]string{"PING"}))}))
		if cl, dt := crashClause(out); cl != "" {
			return cl, dt
		}
		vals, derr := resp.DecodeAll(out.Reply)
		if derr != nil {
			return "reply-malformed", derr.Error()
		}
		// (QUIT may be refused like any other command, or honoured as Redis does)
		if len(vals) != 2 && !(isQuit(req) && len(vals) == 1) {
			return "reply-count", fmt.Sprintf("%d replies to 2 requests on a connection that has not authenticated: %s", len(vals), valuesString(vals))
		}
		if len(d.Calls) != 0 {
			return "executed-before-auth", fmt.Sprintf("handler calls %v on a connection that has not authenticated", srv.CallKeys(d.Calls, false))
		}
		return "", ""
	}
	if strings.Contains(cfg, "requirepass") {
		s.SetRequirePass("Secret1")
		installPassword(s, "Secret1")
		input = concat(grammar.Encode([]string{"AUTH", "Secret1"}), req)
		skip = 1
	}
	if strings.Contains(cfg, "tracer") {
		s.SetTracer(srv.NewTracer())
	}
	var st *tls.ConnectionState
	if strings.Contains(cfg, "tls") {
		st = &tls.ConnectionState{HandshakeComplete: true, Version: tls.VersionTLS13}
	}
	out := srv.RunConnTLS(s, seq.NewConn(seq.Script{Input: input}), st)
	if cl, dt := crashClause(out); cl != "" {
		return cl, dt
	}
	vals, derr := resp.DecodeAll(out.Reply)
	if derr != nil {
		return "reply-malformed", derr.Error()
	}
	if len(vals) != skip+len(base.Reply) {
		return "reply-count", fmt.Sprintf("%d replies under %s, %d by default: %s", len(vals)-skip, cfg, len(base.Reply), valuesString(vals))
	}
	for i, want := range base.Reply {
		if !vals[skip+i].Equal(want) {
			return "reply-differs", fmt.Sprintf("under %s the reply is %s, by default %s", cfg, vals[skip+i], want)
		}
	}
	var calls []srv.Call
	for _, cl := range d.Calls {
		if cl.Method != "Auth" || skip == 0 {
			calls = append(calls, cl)
		}
	}
	got := srv.CallKeys(calls, false)
	if strings.Join(got, ";") != strings.Join(base.Calls, ";") {
		return "handler-calls-differ", fmt.Sprintf("under %s the handler calls are %v, by default %v", cfg, got, base.Calls)
	}
	return "", ""
}

func c03Key(cs c03Case, clause string) string {
	// cause key: the label of the first request whose solo behaviour is at
	// fault if any, else the labels involved (commands only).
	var cmds []string
	for _, l := range cs.Labels {
		cmds = append(cmds, l)
	}
	if len(cmds) > 1 {
		for i := range cmds {
			cmds[i] = cmds[i][:strings.IndexByte(cmds[i], '|')]
		}
	}
	mode := "whole"
	if len(cs.Splits) > 0 {
		mode = "split"
	} else if cs.Stride > 0 {
		mode = "stride"
	}
	return "C03|" + strings.Join(cmds, "+") + "|" + mode + "|" + clause
}

func c03Run(c *fw.Ctx) {
	cat := catalogue()
	reps := representatives(cat)
	runCase := func(cs c03Case, nontrivial bool) {
		c.Eval()
		if nontrivial {
			c.Nontrivial()
		}
		if clause, detail := c03Check(cs); clause != "" {
			// if the first request alone already fails, attribute to it
			if len(cs.Requests) > 1 {
				for i, r := range cs.Requests {
					one := c03Case{Requests: [][]byte{r}, Labels: []string{cs.Labels[i]}}
					if cl, _ := c03Check(one); cl != "" {
						return // reported by the singles pass
					}
				}
			}
			c.Violation(c03Key(cs, clause), detail+" pipeline="+strings.Join(cs.Labels, " ; ")+" input="+trunc(concat(cs.Requests...), 100), cs)
		}
	}
	scripts := func(cs c03Case, n int, all2way bool) {
		runCase(cs, true)
		if all2way {
			for k := 1; k < n; k++ {
				cc := cs
				cc.Splits = []int{k}
				runCase(cc, true)
			}
		} else if len(cs.Requests) > 1 {
			cc := cs
			pos := 0
			for _, r := range cs.Requests[:len(cs.Requests)-1] {
				pos += len(r)
				cc.Splits = append(cc.Splits, pos)
			}
			runCase(cc, true)
		}
		cc := cs
		cc.Stride = 1
		runCase(cc, true)
	}
	// singles: the whole catalogue
	for _, it := range cat {
		if !c.Mine() {
			continue
		}
		cs := c03Case{Requests: [][]byte{it.Bytes}, Labels: []string{it.Label}}
		if c.WantSample() {
			c.Sample(map[string]any{"pipeline": []string{it.Label}, "bytes": trunc(it.Bytes, 80), "scripts": "whole, every 2-way split, 1-byte"})
		}
		scripts(cs, len(it.Bytes), true)
		if it.Kind == "handler-error" {
			// "a handler error becomes an error reply and leaves the connection usable"
			c.Eval()
			c.Nontrivial()
			sr := solo(concat(it.Bytes, grammar.Encode([]string{"PING"})))
			if sr.Crash == "" && (len(sr.Reply) != 2 || !sr.Reply[0].IsError() || !sr.Reply[1].Equal(resp.S("PONG"))) {
				c.Violation("C03|"+it.Label[:strings.IndexByte(it.Label, '|')]+"|handler-error|handler-error-not-reported", fmt.Sprintf("the handler failed for this request, the replies to it and to the PING behind it are %s", valuesString(sr.Reply)), cs)
			}
		}
	}
	// pairs and triples over the representatives
	for _, a := range reps {
		for _, b := range reps {
			if c.Mine() {
				cs := c03Case{Requests: [][]byte{a.Bytes, b.Bytes}, Labels: []string{a.Label, b.Label}}
				scripts(cs, len(a.Bytes)+len(b.Bytes), true)
			}
			for _, d := range reps {
				if !c.Mine() {
					continue
				}
				if c.Expired() {
					return
				}
				cs := c03Case{Requests: [][]byte{a.Bytes, b.Bytes, d.Bytes}, Labels: []string{a.Label, b.Label, d.Label}}
				scripts(cs, len(a.Bytes)+len(b.Bytes)+len(d.Bytes), c.Thorough())
			}
		}
	}
	// size ladder: requests carrying a large argument (around every power of two
	// and every change in the number of length digits), echoed back, between
	// small requests; splits around every structural position of the stream
	ladder := map[int]bool{}
	for k := 6; k <= 16; k++ {
		for d := -1; d <= 1; d++ {
			ladder[1<<k+d] = true
		}
	}
	for _, n := range []int{100, 1000, 10000} {
		for d := -1; d <= 1; d++ {
			ladder[n+d] = true
		}
	}
	if c.Thorough() {
		for d := -1; d <= 1; d++ {
			ladder[1<<17+d], ladder[100000+d] = true, true
		}
	}
	for _, L := range sortedInts(ladder) {
		if !c.Mine() {
			continue
		}
		if c.Expired() {
			return
		}
		big := strings.Repeat("ab\r\n$1\r\n", L/8+1)[:L]
		reqs := [][]string{{"PING"}, {"ECHO", big}, {"SET", "k", big}, {"ECHO", "x"}}
		cs := c03Case{}
		var marks []int
		pos := 0
		for _, r := range reqs {
			b := grammar.Encode(r)
			cs.Requests = append(cs.Requests, b)
			cs.Labels = append(cs.Labels, fmt.Sprintf("%s|ladder-%d", r[0], len(r[len(r)-1])))
			if i := bytes.Index(b, []byte(big)); L > 0 && len(r) > 1 && len(r[len(r)-1]) == L && i >= 0 {
				marks = append(marks, pos+i, pos+i+L)
			}
			pos += len(b)
			marks = append(marks, pos)
		}
		cand := map[int]bool{}
		for _, m := range marks {
			for d := -8; d <= 8; d++ {
				if k := m + d; k > 0 && k < pos {
					cand[k] = true
				}
			}
		}
		direct := func(cs c03Case) {
			c.Eval()
			c.Nontrivial()
			if clause, detail := c03Check(cs); clause != "" {
				if len(detail) > 500 {
					detail = detail[:500] + "..."
				}
				c.Violation("C03|size-ladder|"+clause, fmt.Sprintf("PING, ECHO <%d bytes>, SET k <%d bytes>, ECHO x (splits %v stride %d): %s", L, L, cs.Splits, cs.Stride, detail), cs)
			}
		}
		direct(cs)
		for _, k := range sortedInts(cand) {
			cc := cs
			cc.Splits = []int{k}
			direct(cc)
		}
		for _, st := range []int{1, 3, 4096, 32768} {
			if st == 1 && L > 20000 && c.Quick() {
				continue
			}
			cc := cs
			cc.Stride = st
			direct(cc)
		}
	}
	// configuration invariance: every catalogue request must get the reply and cause the
	// handler calls of the default configuration when the server requires a password
	// (the client AUTHs first), has a tracer installed, or got the connection over TLS
	for _, it := range cat {
		if !c.Mine() || strings.HasPrefix(it.Label, "AUTH|") {
			continue
		}
		base := solo(it.Bytes)
		if base.Crash != "" {
			continue // reported by the singles pass
		}
		for _, cfg := range []string{"requirepass", "tracer", "tls", "requirepass+tracer+tls", "unauthenticated+tracer"} {
			c.Eval()
			c.Nontrivial()
			if clause, detail := c03ConfigCheck(it.Bytes, base, cfg); clause != "" {
				name := it.Label[:strings.IndexByte(it.Label, '|')]
				c.Violation("C03|config:"+cfg+"|"+name+"|"+clause, detail+" request="+it.Label+" input="+trunc(it.Bytes, 80), c03Case{Requests: [][]byte{it.Bytes}, Labels: []string{it.Label}, Store: "config:" + cfg})
			}
		}
	}
	// arity ladder: one request with N arguments between two small ones
	for _, n := range []int{255, 256, 257, 1023, 1024, 1025, 1500, 4097} {
		for _, form := range []string{"DEL", "MGET", "MSET", "SADD", "RPUSH", "HMSET", "ZADD"} {
			if !c.Mine() {
				continue
			}
			args := []string{form}
			switch form {
			case "SADD", "RPUSH", "HMSET", "ZADD":
				args = append(args, "k")
			}
			for i := 0; i < n; i++ {
				switch form {
				case "MSET", "HMSET":
					args = append(args, fmt.Sprintf("f%d", i), "v")
				case "ZADD":
					args = append(args, fmt.Sprint(i), fmt.Sprintf("m%d", i))
				default:
					args = append(args, fmt.Sprintf("e%d", i))
				}
			}
			cs := c03Case{Requests: [][]byte{grammar.Encode([]string{"PING"}), grammar.Encode(args), grammar.Encode([]string{"ECHO", "x"})},
				Labels: []string{"PING|valid", fmt.Sprintf("%s|arity-%d", form, n), "ECHO|valid"}}
			for _, stride := range []int{0, 4096} {
				cs.Stride = stride
				c.Eval()
				c.Nontrivial()
				if clause, detail := c03Check(cs); clause != "" {
					if len(detail) > 500 {
						detail = detail[:500] + "..."
					}
					c.Violation("C03|"+form+"|arity-ladder|"+clause, fmt.Sprintf("%s with %d elements between PING and ECHO: %s", form, n, detail), cs)
				}
			}
		}
	}
	// the same request twice (and once more behind another request) against the
	// bundled example store holding three elements of every type: whatever a
	// request leaves behind in the process must not cost a later one its reply
	extraRepeat := [][]string{{"KEYS", "["}, {"KEYS", "[z-a]"}, {"KEYS", "\\"}, {"KEYS", "a[^"}, {"SCAN", "0", "MATCH", "["}, {"SCAN", "0", "MATCH", "[z-a]", "COUNT", "5"}, {"SCAN", "0", "MATCH", "*"}, {"KEYS", "*"}}
	// numeric arguments at the edges of their domain against the populated store
	// (keys s, h, l, st, z): an overflow in an index or LIMIT computation costs the
	// request - and everything behind it - its reply
	edge := []string{"0", "1", "-1", "2", "2147483648", "9223372036854775807", "-9223372036854775808"}
	for _, a := range edge {
		for _, b := range edge {
			extraRepeat = append(extraRepeat,
				[]string{"ZRANGEBYSCORE", "z", "-inf", "+inf", "LIMIT", a, b},
				[]string{"ZRANGE", "z", "(0", "+inf", "BYSCORE", "LIMIT", a, b},
				[]string{"ZRANGE", "z", "+inf", "-inf", "BYSCORE", "REV", "LIMIT", a, b, "WITHSCORES"},
				[]string{"ZREVRANGEBYSCORE", "z", "+inf", "-inf", "LIMIT", a, b},
				[]string{"ZRANGE", "z", a, b},
				[]string{"ZREVRANGE", "z", a, b},
				[]string{"LRANGE", "l", a, b},
				[]string{"GETRANGE", "s", a, b},
			)
		}
		extraRepeat = append(extraRepeat, []string{"LPOP", "l", a}, []string{"RPOP", "l", a}, []string{"LINDEX", "l", a}, []string{"SCAN", a}, []string{"SCAN", "0", "COUNT", a},
			[]string{"INCRBY", "s", a}, []string{"DECRBY", "n", a}, []string{"EXPIRE", "s", a}, []string{"EXPIREAT", "s", a}, []string{"SETEX", "e", a, "v"}, []string{"SET", "e", "v", "PX", a})
	}
	// every command family against keys that hold ANOTHER type (s string, h hash, l list, st set,
	// z sorted set): an error or a type change, but a reply
	for _, k := range []string{"s", "h", "l", "st", "z"} {
		extraRepeat = append(extraRepeat,
			[]string{"SET", k, "v"}, []string{"GET", k}, []string{"APPEND", k, "x"}, []string{"INCR", k}, []string{"GETRANGE", k, "0", "1"}, []string{"STRLEN", k}, []string{"SETNX", k, "v"}, []string{"GETSET", k, "v"},
			[]string{"HSET", k, "f", "v"}, []string{"HSETNX", k, "f", "v"}, []string{"HMSET", k, "f", "v"}, []string{"HGET", k, "f"}, []string{"HGETALL", k}, []string{"HDEL", k, "f"}, []string{"HLEN", k}, []string{"HKEYS", k},
			[]string{"LPUSH", k, "x"}, []string{"RPUSH", k, "x"}, []string{"LPOP", k}, []string{"RPOP", k, "2"}, []string{"LRANGE", k, "0", "-1"}, []string{"LINDEX", k, "0"}, []string{"LLEN", k},
			[]string{"SADD", k, "m"}, []string{"SREM", k, "m"}, []string{"SMEMBERS", k}, []string{"SCARD", k}, []string{"SISMEMBER", k, "m"},
			[]string{"ZADD", k, "1", "m"}, []string{"ZADD", k, "INCR", "1", "m"}, []string{"ZREM", k, "m"}, []string{"ZRANGE", k, "0", "-1"}, []string{"ZSCORE", k, "m"}, []string{"ZINCRBY", k, "1", "m"}, []string{"ZCARD", k}, []string{"ZREVRANGE", k, "0", "-1"}, []string{"ZRANGEBYSCORE", k, "-inf", "+inf"},
			[]string{"RENAME", k, "s"}, []string{"RENAME", "s", k}, []string{"RENAMENX", k, "h"}, []string{"TYPE", k}, []string{"EXPIRE", k, "10"}, []string{"TTL", k}, []string{"DEL", k, k})
	}
	repeatItems := append([]reqItem{}, cat...)
	for _, a := range extraRepeat {
		repeatItems = append(repeatItems, mkItem(a[0]+"|repeat-extra "+strings.Join(a[1:], " "), "valid", bulkElems(a)))
	}
	for _, it := range repeatItems {
		if !c.Mine() || it.Kind == "quit" {
			continue
		}
		for _, stride := range []int{0, 1} {
			cs := c03Case{Requests: [][]byte{it.Bytes, it.Bytes, grammar.Encode([]string{"PING"}), it.Bytes}, Labels: []string{it.Label, it.Label, "PING|probe", it.Label}, Stride: stride, Store: "example"}
			c.Eval()
			c.Nontrivial()
			if clause, detail := c03CheckExample(cs); clause != "" {
				name := it.Label[:strings.IndexByte(it.Label, '|')]
				c.Violation("C03|repeat:"+name+"|example-store|"+clause, detail+" request="+it.Label+" input="+trunc(it.Bytes, 80), cs)
			}
		}
	}
	// the same request three times against a handler that keeps the reply it built
	// for a call and returns that object again, or that has read its reply before
	// returning it: every request still gets its complete reply
	for _, it := range cat {
		if !c.Mine() || it.Kind == "quit" {
			continue
		}
		for _, kept := range []string{"shared", "read"} {
			ping := grammar.Encode([]string{"PING"})
			cs := c03Case{Requests: [][]byte{it.Bytes, it.Bytes, ping, it.Bytes}, Labels: []string{it.Label, it.Label, "PING|probe", it.Label}, Kept: kept}
			c.Eval()
			c.Nontrivial()
			if clause, detail := c03Check(cs); clause != "" {
				if cl, _ := c03Check(c03Case{Requests: cs.Requests[:1], Labels: cs.Labels[:1]}); cl != "" {
					continue // reported by the singles pass
				}
				name := it.Label[:strings.IndexByte(it.Label, '|')]
				c.Violation("C03|kept-reply:"+kept+":"+name+"|"+clause, detail+" request="+it.Label+" input="+trunc(it.Bytes, 80), cs)
			}
		}
	}
	c.Count("catalogue_requests", 0)
	if c.Shard == 0 {
		c.Count("catalogue_requests", int64(len(cat)))
		c.Count("representatives", int64(len(reps)))
	}
	quads := func() {
		if c.Thorough() {
			// pipelines of four requests over the representatives: whole, request-aligned, 1-byte
			for _, a := range reps {
				for _, b := range reps {
					for _, d := range reps {
						for _, e := range reps {
							if !c.Mine() {
								continue
							}
							if c.Expired() {
								c.Cap("four-request pipelines stopped by the internal deadline")
								return
							}
							cs := c03Case{Requests: [][]byte{a.Bytes, b.Bytes, d.Bytes, e.Bytes}, Labels: []string{a.Label, b.Label, d.Label, e.Label}}
							scripts(cs, 0, false)
						}
					}
				}
			}
		}
	}
	quads()
}

func c03Replay(raw json.RawMessage) (string, bool, error) {
	var cs c03Case
	if err := json.Unmarshal(raw, &cs); err != nil {
		return "", false, err
	}
	if strings.HasPrefix(cs.Store, "config:") {
		base := solo(cs.Requests[0])
		clause, detail := c03ConfigCheck(cs.Requests[0], base, strings.TrimPrefix(cs.Store, "config:"))
		return fmt.Sprintf("config=%s request=%v clause=%q %s", cs.Store, cs.Labels, clause, detail), clause != "", nil
	}
	if cs.Store == "example" {
		clause, detail := c03CheckExample(cs)
		return fmt.Sprintf("example-store pipeline=%v stride=%d clause=%q %s", cs.Labels, cs.Stride, clause, detail), clause != "", nil
	}
	clause, detail := c03Check(cs)
	return fmt.Sprintf("pipeline=%v splits=%v stride=%d clause=%q %s", cs.Labels, cs.Splits, cs.Stride, clause, detail), clause != "", nil
}

func init() {
	fw.Register(&fw.Prop{
		ID:    "C03",
		Level: "exploration",
		Rule:  "request catalogue from the independent grammar: every registered command with its valid shapes (each option word at least once, list arities 1..3, lower-case name), one surplus-argument shape, every option token alone and every ordered pair of option tokens for the 9 option-carrying commands (legal words, a sibling's word, an unknown word, a word without its value), every ill-formed shape of C10, unknown commands, handler errors, QUIT variants. Pipelines: every single request; all ordered pairs and triples over one representative per executor family + QUIT + unknown + argument error + handler error. Delivery: whole, EVERY 2-way split, 1-byte (singles, pairs; triples: whole, request-aligned, 1-byte; thorough: every 2-way split too, and all pipelines of four representatives whole, request-aligned and 1-byte). The reply/liveness invariant (#complete replies written == #complete requests delivered, in order, replies equal to the request's solo reply) is evaluated at every transport Read and at end of stream; a loop-iteration budget turns a spin into a verdict. Size ladder: the pipeline PING, ECHO <L bytes>, SET k <L bytes>, ECHO x for L = 2^k-1, 2^k, 2^k+1 (k=6..16, thorough 17) and 10^k-1..10^k+1 with frame-looking content: whole, every 2-way split within 8 bytes of each structural position (request boundaries, start and end of the large payload), strides 1/3/4096/32768. Configuration invariance: every catalogue request under {requirepass with AUTH first, tracer installed, connection over TLS, all three} must get the default configuration's reply and handler calls, and under requirepass without AUTH (tracer installed) exactly one reply and no handler call. Arity ladder: DEL/MGET/MSET/SADD/RPUSH/HMSET/ZADD with 255..4097 elements between PING and ECHO. Repeat part: every catalogue request (plus KEYS/SCAN MATCH with ill-formed and valid glob patterns) three times on one connection (X X PING X) against the bundled example store holding three elements per type, whole and 1-byte: one well-formed reply per request, PING answered at its position. The repeat part also carries 7 numeric edge values (0, +-1, 2, 2^31, MaxInt64, MinInt64) in every pair at the numeric positions of the range / LIMIT commands and singly for the count / cursor / amount / expiry commands. Kept-reply part: every catalogue request as X X PING X against a handler that returns the same reply object again, and one that has read its reply before returning it (count, order, liveness and reply type judged). Requests whose arguments carry line breaks or format verbs where the server quotes them in an error reply; a handler error (also of the n-th call of a composite command) must become an error reply with the connection still usable.",
		Assumptions: []string{
			"replies are compared with the reply the same request gets when sent alone (stateless recording double with content-derived tokens)",
			"pipelines longer than 3 are not explored",
		},
		Run:    c03Run,
		Replay: c03Replay,
	})
}
