package props

import (
	"encoding/json"
	"fmt"
	"sort"
	"strings"
	"time"

	"github.com/anishathalye/porcupine"
	exsrv "github.com/cybergarage/go-redis/examples/go-redisd/server"
	"github.com/cybergarage/go-redis/redis"
	"github.com/cybergarage/go-redis/vrt"
	"verif/fw"
	"verif/model"
	"verif/resp"
	"verif/sched"
	"verif/srv"
)

// C16: commands are atomic with respect to concurrent clients (linearizability).

type c16Case struct {
	Store   string       `json:"store"` // reference | example
	Initial [][]string   `json:"initial"`
	Ops     [][][]string `json:"ops"` // per client: its commands
	// Password: the server requires a password and every client (and the final
	// reader) first sends AUTH; the AUTH exchanges are not part of the history.
	Password bool  `json:"password,omitempty"`
	Choices  []int `json:"choices,omitempty"`
}

type c16Op struct {
	Args []string
}

// c16Model is the sequential specification given to porcupine: the Redis model.
var c16Model = porcupine.Model{
	Init: func() interface{} { return "" },
	Step: func(state, input, output interface{}) (bool, interface{}) {
		st := c16Decode(state.(string))
		want := st.Apply(input.(c16Op).Args)
		got := output.(string)
		okk := false
		if got == "<any>" {
			okk = true // the reply was lost with the connection
		} else if want.IsError() {
			okk = strings.HasPrefix(got, "-")
		} else {
			okk = want.String() == got
		}
		return okk, c16Encode(st)
	},
	Equal: func(a, b interface{}) bool { return a.(string) == b.(string) },
	DescribeOperation: func(input, output interface{}) string {
		return fmt.Sprintf("%v -> %v", input.(c16Op).Args, output)
	},
}

// states are strings "k\x00v\x01k\x00v" of string keys only (the C16 alphabet is string commands)
func c16Encode(s *model.State) string {
	var ks []string
	for k, e := range s.Keys {
		if e.Type == "string" {
			ks = append(ks, k+"\x00"+e.Str)
		}
	}
	sort.Strings(ks)
	return strings.Join(ks, "\x01")
}

func c16Decode(s string) *model.State {
	st := model.New()
	if s == "" {
		return st
	}
	for _, kv := range strings.Split(s, "\x01") {
		i := strings.IndexByte(kv, 0)
		st.Keys[kv[:i]] = &model.Entry{Type: "string", Str: kv[i+1:]}
	}
	return st
}

type c16World struct {
	cs   c16Case
	mc   *mcWorld
	hist []porcupine.Operation
	init string
}

func c16NewWorld(cs c16Case) *c16World {
	w := &c16World{cs: cs}
	scripts := cs.Ops
	if cs.Password {
		scripts = nil
		for _, ops := range cs.Ops {
			scripts = append(scripts, append([][]string{{"AUTH", c16Pass}}, ops...))
		}
	}
	w.mc = &mcWorld{Scripts: scripts}
	st := model.New()
	for _, c := range cs.Initial {
		st.Apply(c)
	}
	w.init = c16Encode(st)
	w.mc.Setup = func(m *mcWorld) {
		if cs.Store == "example" {
			ex := exsrv.NewServer()
			m.Srv = ex.Server
			// initial state through the store's own handler (before Start: single-threaded)
			for _, c := range cs.Initial {
				c16Prelude(ex, c)
			}
		} else {
			store := srv.NewRefStore()
			store.DBs[0] = st.Clone()
			store.Before = func(op string) { vrt.Yield("primitive " + op) }
			m.Srv = srv.NewServer(store)
		}
		if cs.Password {
			m.Srv.SetRequirePass(c16Pass)
		}
	}
	return w
}

const c16Pass = "Secret1"

// c16Prelude applies one command of the initial history to the example store
// through the store's own handlers (before Start: single-threaded). Beside SET
// it knows the commands with which a key of ANOTHER type is filled and emptied
// again, so that the concurrent history starts on a key that had an earlier life.
func c16Prelude(ex *exsrv.Server, c []string) {
	conn := nil2conn()
	var err error
	switch c[0] {
	case "SET":
		_, err = ex.Set(conn, c[1], c[2], setOptNone)
	case "RPUSH":
		_, err = ex.RPush(conn, c[1], c[2:], redis.PushOption{})
	case "LPUSH":
		_, err = ex.LPush(conn, c[1], c[2:], redis.PushOption{})
	case "LPOP", "RPOP":
		n := 1
		if len(c) > 2 {
			n = int(atoiSafe(c[2]))
		}
		if c[0] == "LPOP" {
			_, err = ex.LPop(conn, c[1], n)
		} else {
			_, err = ex.RPop(conn, c[1], n)
		}
	case "HSET":
		_, err = ex.HSet(conn, c[1], c[2], c[3], redis.HSetOption{})
	case "HDEL":
		_, err = ex.HDel(conn, c[1], c[2:])
	case "SADD":
		_, err = ex.SAdd(conn, c[1], c[2:])
	case "SREM":
		_, err = ex.SRem(conn, c[1], c[2:])
	case "ZADD":
		_, err = ex.ZAdd(conn, c[1], []*redis.ZSetMember{{Score: float64(atoiSafe(c[2])), Member: c[3]}}, redis.ZAddOption{})
	case "ZREM":
		_, err = ex.ZRem(conn, c[1], c[2:])
	case "DEL":
		_, err = ex.Del(conn, c[1:])
	default:
		panic("c16Prelude: unknown command " + c[0])
	}
	if err != nil {
		panic(fmt.Sprintf("c16Prelude %v: %v", c, err))
	}
}

// c16Afterlives: initial histories after which key k (and for the last ones j)
// is absent by Redis semantics but was of another type before: a container that
// lost its last element does not exist.
func c16Afterlives() map[string][][]string {
	return map[string][][]string{
		"list-lpop1":     {{"RPUSH", "k", "a"}, {"LPOP", "k"}},
		"list-rpop1":     {{"RPUSH", "k", "a", "b"}, {"RPOP", "k"}, {"RPOP", "k"}},
		"list-lpop-n":    {{"LPUSH", "k", "a", "b"}, {"LPOP", "k", "2"}},
		"list-lpop-over": {{"RPUSH", "k", "a"}, {"LPOP", "k", "3"}},
		"hash-hdel":      {{"HSET", "k", "f", "v"}, {"HDEL", "k", "f"}},
		"set-srem":       {{"SADD", "k", "m"}, {"SREM", "k", "m"}},
		"zset-zrem":      {{"ZADD", "k", "1", "m"}, {"ZREM", "k", "m"}},
		"string-del":     {{"SET", "k", "5"}, {"DEL", "k"}},
		"both-keys-list": {{"RPUSH", "k", "a"}, {"RPUSH", "j", "b"}, {"LPOP", "j"}, {"RPOP", "k"}},
		"j-hash-k-set":   {{"HSET", "j", "f", "v"}, {"SADD", "k", "m"}, {"SREM", "k", "m"}, {"HDEL", "j", "f"}},
	}
}

func c16Explorer(cs c16Case, bound int) *sched.Explorer {
	x := &sched.Explorer{Bound: bound}
	x.New = func() *sched.Run {
		w := c16NewWorld(cs)
		calls := make([][]int64, len(cs.Ops))
		for i := range calls {
			calls[i] = make([]int64, len(cs.Ops[i]))
		}
		// invocation = when the client starts sending, response = when it has the reply
		inner := w.mc.body
		w.mc.AfterReply = func(ci, idx int, o sched.Outcome) {
			if cs.Password {
				if idx == 0 {
					return // the AUTH exchange
				}
				idx--
			}
			out := "<" + o.Status + ">"
			if o.Status == "ok" {
				out = o.Reply.String()
			}
			start := calls[ci][idx]
			w.hist = append(w.hist, porcupine.Operation{ClientId: ci, Input: c16Op{Args: cs.Ops[ci][idx]}, Call: start, Output: out, Return: vrt.Step()})
		}
		w.mc.BeforeSend = func(ci, idx int) {
			if cs.Password {
				if idx == 0 {
					return
				}
				idx--
			}
			calls[ci][idx] = vrt.Step()
		}
		// final read-out of every key by a fresh connection, after all clients
		// finished: part of the history (it exposes partially applied commands
		// whose replies alone look consistent)
		w.mc.AfterAll = func() {
			cl, o := sched.Dial(":6379")
			if o.Status != "ok" {
				return
			}
			if cs.Password {
				cl.Do("AUTH", c16Pass)
			}
			for _, key := range []string{"k", "j"} {
				st := vrt.Step()
				r := cl.Do("GET", key)
				out := "<" + r.Status + ">"
				if r.Status == "ok" {
					out = r.Reply.String()
				}
				w.hist = append(w.hist, porcupine.Operation{ClientId: len(cs.Ops), Input: c16Op{Args: []string{"GET", key}}, Call: st, Output: out, Return: vrt.Step()})
			}
			cl.Close()
		}
		return &sched.Run{
			Body: inner,
			Verdict: func(r *vrt.Result) sched.Verdict {
				if v, ok := panicVerdict(r); ok {
					return v
				}
				obs := repliesString(w.mc.Replies)
				total := 0
				for _, o := range cs.Ops {
					total += len(o)
				}
				if len(w.hist) != total+2 {
					return sched.Verdict{Clause: "client-starved", Detail: fmt.Sprintf("%d of %d operations completed: %s", len(w.hist), total, obs), Obs: obs}
				}
				m := c16Model
				init := w.init
				m.Init = func() interface{} { return init }
				if !porcupine.CheckOperations(m, w.hist) {
					return sched.Verdict{Clause: "not-linearizable", Detail: "history " + c16HistString(w.hist) + " has no sequential order respecting real time (initial state " + fmt.Sprintf("%q", init) + ")", Obs: obs}
				}
				return sched.Verdict{Obs: obs}
			},
		}
	}
	return x
}

func c16HistString(h []porcupine.Operation) string {
	var p []string
	for _, o := range h {
		p = append(p, fmt.Sprintf("c%d[%d,%d]%v=%v", o.ClientId, o.Call, o.Return, o.Input.(c16Op).Args, o.Output))
	}
	return strings.Join(p, " ")
}

func c16Kinds() map[string][]string {
	return map[string][]string{
		"GET":    {"GET", "k"},
		"SET":    {"SET", "k", "5"},
		"SETNX":  {"SETNX", "k", "7"},
		"GETSET": {"GETSET", "k", "9"},
		"INCR":   {"INCR", "k"},
		"DECRBY": {"DECRBY", "k", "3"},
		"APPEND": {"APPEND", "k", "2"},
		"MSETNX": {"MSETNX", "j", "1", "k", "4"},
		"DEL":    {"DEL", "k"},
		// a zero amount: still a write (it creates the key)
		"INCRBY0": {"INCRBY", "k", "0"},
		// the same key named twice: removed (and counted) once
		"DELDUP": {"DEL", "k", "k"},
	}
}

func c16Run(c *fw.Ctx) {
	c16Databases(c)
	kinds := c16Kinds()
	names := make([]string, 0, len(kinds))
	for k := range kinds {
		names = append(names, k)
	}
	sort.Strings(names)
	variant := func(args []string, ci int) []string {
		// give each client a distinguishable written value where the command writes one
		out := append([]string{}, args...)
		switch out[0] {
		case "SET", "SETNX", "GETSET":
			out[2] = fmt.Sprint(atoiSafe(out[2]) + int64(ci)*10)
		case "MSETNX":
			out[4] = fmt.Sprint(atoiSafe(out[4]) + int64(ci)*10)
		}
		return out
	}
	type scen struct {
		cs    c16Case
		class string
	}
	var pairs, pairReads, triples []scen
	for _, store := range []string{"reference", "example"} {
		for _, initial := range [][][]string{nil, {{"SET", "k", "1"}}} {
			for i, a := range names {
				for _, b := range names[i:] {
					pairs = append(pairs, scen{c16Case{Store: store, Initial: initial, Ops: [][][]string{{variant(kinds[a], 0)}, {variant(kinds[b], 1)}}}, store + "|" + a + "+" + b})
					// two operations per client: the pair followed by a read on each side
					pairReads = append(pairReads, scen{c16Case{Store: store, Initial: initial, Ops: [][][]string{{variant(kinds[a], 0), {"GET", "k"}}, {variant(kinds[b], 1), {"GET", "k"}}}}, store + "|" + a + "+" + b + "+reads"})
				}
			}
		}
	}
	// the shared key holding the EMPTY string (present, but everything "is it there?" shortcut
	// that confuses empty with absent answers differently)
	var pairsEmpty []scen
	for _, store := range []string{"reference", "example"} {
		for i, a := range names {
			for _, b := range names[i:] {
				pairsEmpty = append(pairsEmpty, scen{c16Case{Store: store, Initial: [][]string{{"SET", "k", ""}}, Ops: [][][]string{{variant(kinds[a], 0)}, {variant(kinds[b], 1)}}}, store + "|empty-value|" + a + "+" + b})
			}
		}
	}
	// the shared keys had an earlier life as a list / hash / set / sorted set that was
	// emptied again (or a string that was deleted): they are absent, and every command
	// of the alphabet must treat them so under every interleaving
	var pairsAfter []scen
	{
		lives := c16Afterlives()
		ln := make([]string, 0, len(lives))
		for k := range lives {
			ln = append(ln, k)
		}
		sort.Strings(ln)
		for _, store := range []string{"example", "reference"} {
			for _, life := range ln {
				for i, a := range names {
					for _, b := range names[i:] {
						if store == "reference" && !(a == b) {
							continue // the reference store starts from the model's state: the diagonal only
						}
						pairsAfter = append(pairsAfter, scen{c16Case{Store: store, Initial: lives[life], Ops: [][][]string{{variant(kinds[a], 0)}, {variant(kinds[b], 1)}}}, store + "|after-" + life + "|" + a + "+" + b})
					}
				}
			}
		}
	}
	// the same pairs on a server that requires a password (every client AUTHs first):
	// the path a command takes must not depend on how the connection got authorized
	var pairsPw []scen
	for _, store := range []string{"reference", "example"} {
		for i, a := range names {
			for _, b := range names[i:] {
				if store == "example" && !(a == "INCR" || a == "APPEND" || b == "SETNX" || b == "MSETNX") {
					continue // the example store: the update-heavy pairs only
				}
				pairsPw = append(pairsPw, scen{c16Case{Store: store, Password: true, Ops: [][][]string{{variant(kinds[a], 0)}, {variant(kinds[b], 1)}}}, store + "|requirepass|" + a + "+" + b})
			}
		}
	}
	for i, a := range names {
		for j, b := range names[i:] {
			for _, d := range names[i+j:] {
				triples = append(triples, scen{c16Case{Store: "reference", Ops: [][][]string{{variant(kinds[a], 0)}, {variant(kinds[b], 1)}, {variant(kinds[d], 2)}}}, "reference|" + a + "+" + b + "+" + d})
			}
		}
	}
	// phases in order of increasing cost; each is complete only if every worker
	// finished its share (<phase>_done == <phase>_scenarios in the evidence counters)
	phase := func(name string, list []scen, bound int) bool {
		if c.Shard == 0 {
			c.Count(name+"_scenarios", int64(len(list)))
		}
		for _, sc := range list {
			if !c.Mine() {
				continue
			}
			if c.Expired() {
				c.Cap("phase %s (deviation bound %d) stopped by the internal deadline; see the %s_done counter", name, bound, name)
				return false
			}
			c16Explore(c, sc.cs, bound, sc.class)
			if c.Expired() {
				c.Cap("phase %s (deviation bound %d) stopped by the internal deadline; see the %s_done counter", name, bound, name)
				return false
			}
			c.Count(name+"_done", 1)
		}
		return true
	}
	restarts := func(name string, bound int) bool {
		list := c16RestartScenarios()
		if c.Shard == 0 {
			c.Count(name+"_scenarios", int64(len(list)))
		}
		for _, cs := range list {
			if !c.Mine() {
				continue
			}
			if c.Expired() {
				c.Cap("phase %s (deviation bound %d) stopped by the internal deadline; see the %s_done counter", name, bound, name)
				return false
			}
			c16RestartExplore(c, cs, bound)
			c.Count(name+"_done", 1)
		}
		return true
	}
	if !phase("p1_pairs_bound2", pairs, 2) || !phase("p1_pairs_requirepass_bound2", pairsPw, 2) || !phase("p1_pairs_empty_value_bound1", pairsEmpty, 1) || !phase("p1_pairs_after_earlier_life_bound1", pairsAfter, 1) || !restarts("p1_restart_in_flight_bound1", 1) || !c.Thorough() {
		return
	}
	if !restarts("p2_restart_in_flight_bound2", 2) {
		return
	}
	_ = phase("p2_pairs_bound3", pairs, 3) &&
		phase("p2_pairs_after_earlier_life_bound2", pairsAfter, 2) &&
		phase("p3_pairs_then_reads_bound2", pairReads, 2) &&
		phase("p4_triples_bound2", triples, 2) &&
		phase("p5_pairs_bound4", pairs, 4) &&
		phase("p6_pairs_then_reads_bound3", pairReads, 3) &&
		phase("p7_triples_bound3", triples, 3)
}

func c16Explore(c *fw.Ctx, cs c16Case, bound int, class string) {
	x := c16Explorer(cs, bound)
	x.Expired = c.Expired
	first := true
	x.OnExec = func(choices []int, r *vrt.Result, v sched.Verdict) {
		c.Eval()
		if strings.HasPrefix(v.Obs, "HARNESS-PANIC") {
			c.HarnessError("C16 %s", v.Obs)
		}
		if first {
			first = false
			if c.WantSample() {
				c.Sample(map[string]any{"store": cs.Store, "initial": cs.Initial, "ops": cs.Ops, "schedule": choices, "replies": v.Obs})
			}
		}
		if v.Clause != "" {
			cc := cs
			cc.Choices = choices
			c.Violation("C16|"+class+"|"+v.Clause, v.Detail+fmt.Sprintf(" schedule=%v", choices), cc)
		}
	}
	x.Explore()
	schedAccount(c, x, class+fmt.Sprint(cs.Initial))
}

func c16Replay(raw json.RawMessage) (string, bool, error) {
	var probe struct {
		Kind string `json:"kind"`
	}
	json.Unmarshal(raw, &probe)
	if probe.Kind == "databases" {
		var dc c16DBCase
		if err := json.Unmarshal(raw, &dc); err != nil {
			return "", false, err
		}
		run := c16DBExplorer(dc, 0).New()
		r := vrt.Run(vrt.Options{Choices: dc.Choices}, run.Body, run.AtQuiet)
		if r.Diverged != "" {
			return "", false, fmt.Errorf("schedule does not replay: %s", r.Diverged)
		}
		v := run.Verdict(r)
		return fmt.Sprintf("databases %v schedule=%v clause=%q %s", dc.DBs, dc.Choices, v.Clause, v.Detail), v.Clause != "", nil
	}
	if probe.Kind == "restart" {
		var rc c16Restart
		if err := json.Unmarshal(raw, &rc); err != nil {
			return "", false, err
		}
		run := c16RestartExplorer(rc, 0).New()
		r := vrt.Run(vrt.Options{Choices: rc.Choices}, run.Body, run.AtQuiet)
		if r.Diverged != "" {
			return "", false, fmt.Errorf("schedule does not replay: %s", r.Diverged)
		}
		v := run.Verdict(r)
		return fmt.Sprintf("restart scenario %+v clause=%q %s obs=%s", rc, v.Clause, v.Detail, v.Obs), v.Clause != "", nil
	}
	var cs c16Case
	if err := json.Unmarshal(raw, &cs); err != nil {
		return "", false, err
	}
	x := c16Explorer(cs, 0)
	run := x.New()
	r := vrt.Run(vrt.Options{Choices: cs.Choices}, run.Body, run.AtQuiet)
	if r.Diverged != "" {
		return "", false, fmt.Errorf("schedule does not replay: %s", r.Diverged)
	}
	v := run.Verdict(r)
	return fmt.Sprintf("store=%s initial=%v ops=%v schedule=%v clause=%q %s obs=%s", cs.Store, cs.Initial, cs.Ops, cs.Choices, v.Clause, v.Detail, v.Obs), v.Clause != "", nil
}

func init() {
	_ = resp.S
	fw.Register(&fw.Prop{
		ID:          "C16",
		Level:       "model_checking",
		Rule:        "clients in DIFFERENT databases of the bundled store (5 orders of first use) get the replies they would get alone (bound 1); for every unordered pair of operation kinds from {GET, SET, SETNX, GETSET, INCR, DECRBY, APPEND, MSETNX, DEL, DEL k k, INCRBY 0} (thorough: also triples, and pairs followed by reads): 2 (3) clients issue them concurrently on one shared key (MSETNX over two keys, one shared), initial state absent or '1' (bound 1: also the empty string, and 10 EARLIER LIVES of the shared keys - a list emptied by LPOP / RPOP / a counted or oversized pop, a hash emptied by HDEL, a set by SREM, a sorted set by ZREM, a deleted string, both keys lists, one a hash and one a set - applied through the store's own handlers before the server starts, after which the keys are absent: 660 example-store and 110 reference-store pair scenarios; and once more on a server with requirepass, every client sending AUTH first), through the real accept loop and connection goroutines, against (a) a reference store whose primitives are atomic steps each preceded by a scheduling point and (b) the instrumented example store (sync.Map operations are scheduling points); every schedule within deviation bound 2; plus 144 held-command scenarios (Restart, Stop+Start or nothing issued while a composite command of client A is held between its read and its first write by a slow store, client B writing the same key through the restarted server, then the held handler released; A's lost reply counts as executed-or-not; deviation bound 1, thorough 2); thorough continues in phases, each complete only when its <phase>_done counter equals <phase>_scenarios: pairs at bound 3, earlier-life pairs at bound 2, pairs followed by a read on each side at bound 2, triples (reference store) at bound 2, pairs at bound 4, pairs+reads at bound 3, triples at bound 3; each complete execution yields a client-side history (invocation/response stamped with the scheduler's step counter) to which a final read-out of every key by a fresh connection is appended; porcupine checks the whole history for linearizability against the Redis model. A scenario is non-trivial when its schedules produce more than one distinct reply vector.",
		Assumptions: []string{"sequentially consistent interleavings", "histories of more than 3 clients or 2 operations per client are not explored"},
		Run:         c16Run,
		Replay:      c16Replay,
		Budget: func(tier string) time.Duration {
			if tier == "thorough" {
				return 25 * time.Minute
			}
			return 4 * time.Minute
		},
		Finish: schedFinish,
	})
}
