package props

import (
	"bytes"
	"encoding/json"
	"fmt"
	"strings"

	"github.com/cybergarage/go-redis/redis"
	"verif/fw"
	"verif/grammar"
	"verif/resp"
	"verif/seq"
	"verif/srv"
)

// C11: a request is executed only if it was received completely.

type c11Case struct {
	Requests [][]byte `json:"requests"`
	Labels   []string `json:"labels"`
	Cut      int      `json:"cut"`
	Reset    bool     `json:"reset"`
	Stride   int      `json:"stride,omitempty"`
	// FailWriteFrom > 0 (full close only): the peer is already gone while
	// requests it sent are still readable - the j-th reply write and all later
	// ones fail, the bytes up to Cut can still be read.
	FailWriteFrom int  `json:"fail_write_from,omitempty"`
	CloseErr      bool `json:"close_err,omitempty"` // the transport's Close closes but reports an error (TLS peer gone)
}

func c11Check(cs c11Case) (clause, detail string) {
	var input []byte
	var ends []int
	for _, r := range cs.Requests {
		input = append(input, r...)
		ends = append(ends, len(input))
	}
	complete := 0
	for complete < len(ends) && ends[complete] <= cs.Cut {
		complete++
	}
	end := seq.EndEOF
	if cs.Reset {
		end = seq.EndReset
	}
	d := srv.NewDouble()
	server := srv.NewServer(d)
	server.SetAuthCommandHandler(d)
	catalogueDouble(d)
	conn := seq.NewConn(seq.Script{Input: input[:cs.Cut], Stride: cs.Stride, End: end, FailWriteFrom: cs.FailWriteFrom, CloseErr: cs.CloseErr})
	// what the application sees in the registry while the connection is served
	var during []*redis.Conn
	conn.OnRead = func(int, bool) {
		if during == nil {
			during = append([]*redis.Conn{}, server.Conns()...)
		}
	}
	// Stride 0: the registry is not consulted between this connection's end and
	// the next client's arrival (the leftover check follows after that client)
	srv.NoRegistryProbe = cs.Stride == 0
	r := seqRun{Double: d, Out: srv.RunConn(server, conn)}
	srv.NoRegistryProbe = false
	r.Replies, r.DecErr = resp.DecodeAll(r.Out.Reply)
	if cl, dt := crashClause(r.Out); cl != "" {
		return cl, dt
	}
	var wantCalls []string
	var wantReplies []resp.Value
	quit := false
	for i := 0; i < complete && !quit; i++ {
		sr := solo(cs.Requests[i])
		if sr.Crash != "" {
			return "", "" // the complete request itself misbehaves: not this property's business
		}
		wantCalls = append(wantCalls, sr.Calls...)
		wantReplies = append(wantReplies, sr.Reply...)
		quit = isQuit(cs.Requests[i])
	}
	got := srv.CallKeys(r.Double.Calls, false)
	if strings.Join(got, ";") != strings.Join(wantCalls, ";") {
		if len(got) > len(wantCalls) {
			return "partial-request-executed", fmt.Sprintf("stream cut at byte %d (inside request #%d): handler calls %v, only %v belong to completely received requests", cs.Cut, complete, got, wantCalls)
		}
		return "complete-request-not-executed", fmt.Sprintf("stream cut at byte %d: handler calls %v, expected %v", cs.Cut, got, wantCalls)
	}
	if !cs.Reset {
		if r.DecErr != nil {
			return "reply-malformed", r.DecErr.Error()
		}
		// a reply to the partial request itself (an error reply) is tolerated;
		// the replies of the complete requests must be there, once, in order
		if len(r.Replies) < len(wantReplies) {
			return "complete-request-not-answered", fmt.Sprintf("replies %s, expected %s", valuesString(r.Replies), valuesString(wantReplies))
		}
		for i := range wantReplies {
			if !r.Replies[i].Equal(wantReplies[i]) {
				return "complete-request-reply", fmt.Sprintf("reply #%d is %s, expected %s", i, r.Replies[i], wantReplies[i])
			}
		}
		for _, extra := range r.Replies[len(wantReplies):] {
			if !extra.IsError() {
				return "partial-request-answered", fmt.Sprintf("stream cut at byte %d: a non-error reply %s was written for the partial request", cs.Cut, extra)
			}
		}
		if len(r.Replies) > len(wantReplies)+1 {
			return "extra-replies", valuesString(r.Replies)
		}
	}
	if !r.Out.Returned {
		return "loop-not-ended", "connection loop still running"
	}
	if r.Out.Closes == 0 {
		return "socket-not-closed", "the transport was never closed after the stream ended"
	}
	if r.Out.ConnsLeft != 0 {
		return "registry-not-empty", fmt.Sprintf("%d connections left in the registry", r.Out.ConnsLeft)
	}
	if cs.Stride != 0 {
		return "", ""
	}
	// the next client: the registry lists it, and nothing of the connection that ended
	var next []*redis.Conn
	conn2 := seq.NewConn(seq.Script{Input: grammar.Encode([]string{"PING"})})
	conn2.OnRead = func(int, bool) {
		if next == nil {
			next = append([]*redis.Conn{}, server.Conns()...)
		}
	}
	o2 := srv.RunConn(server, conn2)
	if cl, dt := crashClause(o2); cl != "" {
		return "next-client-" + cl, dt
	}
	if !bytes.Equal(o2.Reply, []byte("+PONG\r\n")) {
		return "next-client-not-served", fmt.Sprintf("after the cut stream, a new connection's PING was answered %s", trunc(o2.Reply, 60))
	}
	if len(during) == 1 && (len(next) != 1 || next[0] == during[0]) {
		return "registry-stale", fmt.Sprintf("while the next client is served the registry lists %d connections (the ended one among them: %v)", len(next), len(next) > 0 && next[0] == during[0])
	}
	if o2.ConnsLeft != 0 {
		return "registry-not-empty", fmt.Sprintf("%d connections left in the registry after the next client ended", o2.ConnsLeft)
	}
	return "", ""
}

func c11Run(c *fw.Ctx) {
	c11Sched(c)
	c11Ladder(c)
	cat := catalogue()
	var valid []reqItem
	perCmd := map[string]int{}
	for _, it := range cat {
		if it.Kind != "valid" && it.Kind != "quit" {
			continue
		}
		name := it.Label[:strings.IndexByte(it.Label, '|')]
		perCmd[name]++
		if perCmd[name] > 4 && c.Quick() {
			continue
		}
		valid = append(valid, it)
	}
	extra := [][]string{{"LPOP", "k", "5"}, {"PING", "m"}, {"SET", "k", "v", "EX", "5"}, {"MSET", "a", "1", "b", "2"}, {"ECHO", strings.Repeat("x", 12)}, {"SET", "k", strings.Repeat("v", 100)}}
	for _, a := range extra {
		valid = append(valid, mkItem(a[0]+"|valid-extra", "valid", bulkElems(a)))
	}
	reps := representatives(cat)
	run := func(reqs [][]byte, labels []string) {
		total := 0
		for _, r := range reqs {
			total += len(r)
		}
		for cut := 0; cut <= total; cut++ {
			for _, mode := range []string{"eof", "reset", "reset+close-error", "reset+write-fails@1", "reset+write-fails@2"} {
				for _, stride := range []int{0, 1} {
					cs := c11Case{Requests: reqs, Labels: labels, Cut: cut, Reset: mode != "eof", Stride: stride, CloseErr: mode == "reset+close-error"}
					if cs.CloseErr && stride != 0 {
						continue
					}
					if i := strings.IndexByte(mode, '@'); i > 0 {
						cs.FailWriteFrom = int(mode[i+1] - '0')
						if cs.FailWriteFrom > len(reqs) || stride != 0 {
							continue
						}
						mode = mode[:i]
					}
					c.Eval()
					if stride == 0 {
						c.Nontrivial()
					}
					if clause, detail := c11Check(cs); clause != "" {
						last := labels[len(labels)-1]
						c.Violation("C11|"+last[:strings.IndexByte(last, '|')]+"|"+mode+"|"+clause, detail+" pipeline="+strings.Join(labels, " ; ")+" input="+trunc(concat(reqs...)[:cut], 100), cs)
					}
				}
			}
		}
	}
	for _, it := range valid {
		if !c.Mine() {
			continue
		}
		if c.WantSample() {
			c.Sample(map[string]any{"pipeline": []string{it.Label}, "bytes": trunc(it.Bytes, 80), "cuts": "every offset 0..len x {EOF, reset} x {whole, 1-byte}"})
		}
		run([][]byte{it.Bytes}, []string{it.Label})
	}
	for _, a := range reps {
		if a.Kind != "valid" {
			continue
		}
		for _, b := range valid {
			if !c.Mine() {
				continue
			}
			if c.Expired() {
				return
			}
			run([][]byte{a.Bytes, b.Bytes}, []string{a.Label, b.Label})
		}
	}
	// size ladder: a request with a large value, cut around its structural positions
	ladder := map[int]bool{}
	for k := 6; k <= 16; k++ {
		for d := -1; d <= 1; d++ {
			ladder[1<<k+d] = true
		}
	}
	for _, n := range []int{100, 1000, 10000} {
		ladder[n-1], ladder[n] = true, true
	}
	for _, L := range sortedInts(ladder) {
		if !c.Mine() {
			continue
		}
		big := strings.Repeat("ab\r\n$1\r\n", L/8+1)[:L]
		reqs := [][]byte{grammar.Encode([]string{"PING"}), grammar.Encode([]string{"SET", "k", big}), grammar.Encode([]string{"ECHO", "x"})}
		labels := []string{"PING|valid", fmt.Sprintf("SET|ladder-%d", L), "ECHO|valid"}
		start := len(reqs[0]) + bytes.Index(reqs[1], []byte(big))
		marks := []int{len(reqs[0]), start, start + L, len(reqs[0]) + len(reqs[1]), len(reqs[0]) + len(reqs[1]) + len(reqs[2])}
		cuts := map[int]bool{}
		for _, m := range marks {
			for d := -6; d <= 6; d++ {
				if k := m + d; k >= 0 && k <= marks[len(marks)-1] {
					cuts[k] = true
				}
			}
		}
		for k := start; k < start+L; k += 4096 {
			cuts[k] = true
		}
		for _, cut := range sortedInts(cuts) {
			for _, mode := range []string{"eof", "reset", "reset+write-fails@1"} {
				cs := c11Case{Requests: reqs, Labels: labels, Cut: cut, Reset: mode != "eof"}
				if strings.HasSuffix(mode, "@1") {
					cs.FailWriteFrom = 1
				}
				c.Eval()
				c.Nontrivial()
				if clause, detail := c11Check(cs); clause != "" {
					c.Violation("C11|SET-ladder|"+strings.SplitN(mode, "@", 2)[0]+"|"+clause, detail+fmt.Sprintf(" value length %d, cut %d", L, cut), cs)
				}
			}
		}
	}
	if c.Thorough() {
		for _, a := range reps {
			for _, b := range reps {
				for _, d := range reps {
					if a.Kind != "valid" || b.Kind != "valid" || !c.Mine() {
						continue
					}
					if c.Expired() {
						return
					}
					run([][]byte{a.Bytes, b.Bytes, d.Bytes}, []string{a.Label, b.Label, d.Label})
				}
			}
		}
	}
}

func c11Replay(raw json.RawMessage) (string, bool, error) {
	var probe struct {
		Kind string `json:"kind"`
	}
	json.Unmarshal(raw, &probe)
	if probe.Kind == "beside-stalled-reader" || probe.Kind == "pipeline-ladder" {
		return c11SchedReplay(raw)
	}
	var cs c11Case
	if err := json.Unmarshal(raw, &cs); err != nil {
		return "", false, err
	}
	clause, detail := c11Check(cs)
	return fmt.Sprintf("pipeline=%v cut=%d reset=%v fail_write_from=%d stride=%d clause=%q %s", cs.Labels, cs.Cut, cs.Reset, cs.FailWriteFrom, cs.Stride, clause, detail), clause != "", nil
}

func init() {
	fw.Register(&fw.Prop{
		ID:          "C11",
		Level:       "fault_enumeration",
		Rule:        "pipelines of 1 valid request (every valid shape of the catalogue, <=4 per command in quick, plus requests with optional tails such as 'LPOP k 5', 'PING m', 'SET k v EX 5', pair lists, 2- and 3-digit lengths) and of 2 requests (representative x valid; thorough: representative triples); EVERY byte offset 0..len as the point where the stream ends x {half-close: Read->EOF, writes succeed; full close: Read->ECONNRESET, writes fail afterwards; full close where the transport's Close reports an error although it closes (a TLS connection whose peer is gone); full close noticed early: reply write #1 or #2 and all later ones fail while the bytes sent before the close are still readable} x {whole, 1-byte delivery}. Size ladder: PING, SET k <L bytes>, ECHO x for L around every power of two up to 65537 and 10^2..10^4, cut within 6 bytes of every structural position and every 4096 bytes inside the value. Oracle: recorded handler calls = the calls of exactly the completely delivered requests (taken from running each alone), their replies once and in order (half-close), then loop returned, transport closed, registry empty. Non-trivial = distinct (pipeline, cut, close mode). Scheduled part: the same (complete requests + partial one, half close and full close) next to a client that never reads its replies, every schedule within deviation bound 2.; pipeline ladder under the scheduler: one client writes 1, 3, 6, 12 or 20 complete SETs and a partial one in ONE write and ends its stream at once - half close (then reads everything) or full close without having read one reply, so that every reply write meets a closed peer: the complete SETs reach the handler once each, in order, the partial one never, the replies arrive after a half close, the server closes the socket (every schedule within deviation bound 2 up to 3 requests, bound 1 above)",
		Assumptions: []string{"an error reply written for the partial request itself is tolerated; any handler call or non-error reply for it is a violation"},
		Run:         c11Run,
		Replay:      c11Replay,
	})
}
