package props

import (
	"github.com/cybergarage/go-redis/redis"
	"github.com/cybergarage/go-redis/redis/auth"
)

// installPassword performs, through the public API, what Server.Start does for
// a configured password (without opening sockets): it registers the clear-text
// password authenticator once.
func installPassword(s *redis.Server, password string) {
	if !s.HasClearTextPasswordAuthenticator("", password) {
		s.AddAuthenticator(auth.NewClearTextPasswordAuthenticatorWith("", password))
	}
}
