package props

import (
	"crypto/tls"
	"encoding/json"
	"fmt"
	"io"
	"net"
	"strings"
	"time"

	"github.com/cybergarage/go-redis/redis"
	"github.com/cybergarage/go-redis/redis/auth"
	"github.com/cybergarage/go-redis/vrt"
	"verif/fw"
	"verif/resp"
	"verif/sched"
	"verif/srv"
)

// C09: TLS client-certificate gate holds and failed handshakes are contained.

const (
	c09TLSPort   = 6380
	c09PlainPort = 6379
	c09Pass      = "Secret1"
)

type c09Case struct {
	Config  string `json:"config"` // norule | rule | rule+pw
	Cred    string `json:"cred"`
	Fault   string `json:"fault"` // complete | abort-after-hello | stall | garbage
	Between bool   `json:"between"`
	Plain   bool   `json:"plain_port"`
	ViaCfg  bool   `json:"via_tls_config,omitempty"` // the server gets a ready tls.Config (SetTLSConfig) instead of certificate files
	Burst   bool   `json:"burst,omitempty"`          // the faulty client and the next valid client connect concurrently
	// Reconf: the trusted CA is replaced by another one after the server has run once
	// ("ca-swap": Stop, SetTLSCaCertFile, Start; "ca-swap-restart": SetTLSCaCertFile,
	// Restart; "cfg-replaced": the same through SetTLSConfig). From then on only
	// certificates of the new CA are acceptable.
	Reconf string `json:"reconfigured,omitempty"`
	// Resume: the client under test keeps a TLS session cache and connects three times;
	// the later connections resume the session of the first and are judged like it.
	Resume bool `json:"resume,omitempty"`
	// PlainFirst: a client of the plain port authenticates (or tries to) before the TLS client
	// under test connects - what one port's clients do must not change the other port's gate.
	PlainFirst bool  `json:"plain_first,omitempty"`
	Choices    []int `json:"choices,omitempty"`
}

func (c c09Case) name() string {
	n := fmt.Sprintf("%s|%s|%s|between=%v|plain=%v|burst=%v|viacfg=%v", c.Config, c.Cred, c.Fault, c.Between, c.Plain, c.Burst, c.ViaCfg)
	if c.Reconf != "" {
		n += "|" + c.Reconf
	}
	if c.Resume {
		n += "|resume"
	}
	if c.PlainFirst {
		n += "|plain-first"
	}
	return n
}

var c09Creds = []string{"none", "plain-text", "self-signed", "foreign-ca", "expired", "wrong-name", "name-on-intermediate", "wrong-name+forged-extra", "wrong-name+san", "valid"}
var c09Faults = []string{"complete", "abort-after-hello", "stall", "garbage"}
var c09Configs = []string{"norule", "rule", "rule+pw"}

// c09Accepted: must a client with this credential get its commands executed?
func c09Accepted(config, cred string) bool {
	switch cred {
	case "valid":
		return true
	case "wrong-name", "name-on-intermediate", "wrong-name+forged-extra", "wrong-name+san":
		return config == "norule"
	}
	return false
}

// accepted: must a client with this credential be served in this scenario?
func (cs c09Case) accepted(cred string) bool {
	if cs.Reconf != "" {
		return cred == "foreign-ca" // CN=localhost under the CA trusted now
	}
	return c09Accepted(cs.Config, cred)
}

// goodCred is the credential of the well-behaved clients.
func (cs c09Case) goodCred() string {
	if cs.Reconf != "" {
		return "foreign-ca"
	}
	return "valid"
}

// abortConn closes the connection at the first Read (i.e. right after the
// ClientHello was written).
type abortConn struct {
	net.Conn
}

func (a *abortConn) Read(p []byte) (int, error) {
	a.Conn.Close()
	return 0, io.EOF
}

type c09Client struct {
	role     string // F | V1 | V2 | P
	dial     string
	hs       string   // handshake outcome
	replies  []string // per request
	done     bool
	raw      *vrt.Conn
	accepted bool
}

type c09World struct {
	cache   tls.ClientSessionCache // of the client under test (Resume)
	cs      c09Case
	kit     *tlsKit
	srv     *redis.Server
	double  *srv.Double
	clients []*c09Client
	err     string
}

func (w *c09World) tlsClient(role, cred string, fault string) *c09Client {
	cl := &c09Client{role: role}
	w.clients = append(w.clients, cl)
	raw, err := vrt.Dial(fmt.Sprintf(":%d", c09TLSPort))
	if err != nil {
		cl.dial = "refused"
		cl.done = true
		return cl
	}
	cl.dial = "ok"
	cl.raw = raw
	key := "k" + role
	switch {
	case fault == "stall":
		cl.hs = "stalled"
		// keep the connection open, send nothing; wait for whatever the server does
		buf := make([]byte, 64)
		_, quiet, rerr := raw.ReadOrQuiet(buf)
		if quiet {
			cl.hs = "stalled:still-open"
		} else if rerr != nil {
			cl.hs = "stalled:closed-by-server"
		}
		cl.done = true
		return cl
	case fault == "garbage":
		raw.Write([]byte(strings.Repeat("\x16\x03\x01garbage!", 8)))
		buf := make([]byte, 256)
		_, quiet, rerr := raw.ReadOrQuiet(buf)
		cl.hs = "garbage:answered"
		if quiet {
			cl.hs = "garbage:ignored"
		} else if rerr != nil {
			cl.hs = "garbage:closed-by-server"
		}
		cl.done = true
		return cl
	case cred == "plain-text":
		c := sched.Wrap(raw, raw)
		c.Send(resp.Cmd("GET", key).Bytes())
		o := c.Recv()
		cl.hs = "plain-text"
		cl.replies = append(cl.replies, o.String())
		cl.done = true
		return cl
	}
	var conn net.Conn = raw
	if fault == "abort-after-hello" {
		conn = &abortConn{Conn: raw}
	}
	ccfg := w.kit.clientTLSConfig(w.kit.Clients[cred])
	if strings.HasPrefix(role, "F") && w.cache != nil {
		ccfg.ClientSessionCache = w.cache
	}
	tc := tls.Client(conn, ccfg)
	if err := tc.Handshake(); err != nil {
		cl.hs = "handshake-failed"
		raw.Close()
		cl.done = true
		return cl
	}
	cl.hs = "handshake-ok"
	if tc.ConnectionState().DidResume {
		cl.hs = "handshake-ok(resumed)"
	}
	c := sched.Wrap(tc, raw)
	do := func(args ...string) string {
		o := c.Do(args...)
		cl.replies = append(cl.replies, o.String())
		return o.Status
	}
	if w.cs.Config == "rule+pw" {
		if do("GET", key) != "ok" {
			cl.done = true
			return cl
		}
		if do("AUTH", c09Pass) != "ok" {
			cl.done = true
			return cl
		}
	}
	do("GET", key)
	if role != "F" {
		do("PING")
	}
	cl.done = true
	return cl
}

func (w *c09World) plainClient() *c09Client {
	cl := &c09Client{role: "P"}
	w.clients = append(w.clients, cl)
	c, o := sched.Dial(fmt.Sprintf(":%d", c09PlainPort))
	cl.dial = o.Status
	if o.Status != "ok" {
		cl.done = true
		return cl
	}
	cl.raw = c.Raw()
	if w.cs.Config == "rule+pw" {
		cl.replies = append(cl.replies, c.Do("AUTH", c09Pass).String())
	}
	cl.replies = append(cl.replies, c.Do("PING").String())
	cl.done = true
	return cl
}

func (w *c09World) body() {
	kit, err := getKit()
	if err != nil {
		w.err = err.Error()
		return
	}
	w.kit = kit
	if w.cs.Resume {
		w.cache = tls.NewLRUClientSessionCache(8)
	}
	d := srv.NewDouble()
	d.ContentTokens = true
	w.double = d
	s := srv.NewServer(d)
	w.srv = s
	if w.cs.Plain {
		s.SetPort(c09PlainPort)
	} else {
		s.SetPort(0)
	}
	s.SetTLSPort(c09TLSPort)
	if w.cs.ViaCfg {
		s.SetTLSConfig(&tls.Config{MinVersion: tls.VersionTLS12, Certificates: []tls.Certificate{kit.ServerTLS}, ClientCAs: kit.Pool, ClientAuth: tls.RequireAndVerifyClientCert})
	} else {
		if e := s.SetTLSCertFile(kit.ServerCert); e != nil {
			w.err = e.Error()
			return
		}
		s.SetTLSKeyFile(kit.ServerKey)
		s.SetTLSCaCertFile(kit.CAFile)
	}
	if w.cs.Reconf == "cfg-replaced" {
		s.SetTLSConfig(&tls.Config{MinVersion: tls.VersionTLS12, Certificates: []tls.Certificate{kit.ServerTLS}, ClientCAs: kit.Pool, ClientAuth: tls.RequireAndVerifyClientCert})
	}
	if w.cs.Config != "norule" {
		s.AddAuthenticator(auth.NewCertificateAuthenticatorWith(auth.WithCommonName("localhost")))
	}
	if w.cs.Config == "rule+pw" {
		s.SetRequirePass(c09Pass)
	}
	if e := s.Start(); e != nil {
		w.err = "start: " + e.Error()
		return
	}
	step := func(name string, f func()) {
		vrt.Go(name, f)
		vrt.WaitQuiet()
	}
	if w.cs.Reconf != "" {
		// a client of the first CA is served, then the trusted CA is replaced
		step("clientV0", func() { w.tlsClient("V0", "valid", "complete") })
		var e error
		switch w.cs.Reconf {
		case "ca-swap":
			s.Stop()
			s.SetTLSCaCertFile(kit.ForeignCA)
			e = s.Start()
		case "ca-swap-restart":
			s.SetTLSCaCertFile(kit.ForeignCA)
			e = s.Restart()
		case "cfg-replaced":
			s.Stop()
			s.SetTLSConfig(&tls.Config{MinVersion: tls.VersionTLS12, Certificates: []tls.Certificate{kit.ServerTLS}, ClientCAs: kit.ForeignPool, ClientAuth: tls.RequireAndVerifyClientCert})
			e = s.Start()
		}
		if e != nil {
			w.err = "second start: " + e.Error()
			return
		}
	}
	if w.cs.PlainFirst {
		step("clientP0", func() {
			c, o := sched.Dial(fmt.Sprintf(":%d", c09PlainPort))
			if o.Status != "ok" {
				return
			}
			c.Do("AUTH", c09Pass)
			c.Do("AUTH", "wrong")
			c.Do("AUTH", "user", c09Pass)
			c.Do("PING")
			c.Close()
		})
	}
	if w.cs.Between {
		step("clientV1", func() { w.tlsClient("V1", w.cs.goodCred(), "complete") })
	}
	if w.cs.Burst {
		// both arrive while the accept loop is busy: their connections may sit in
		// the backlog together and be accepted back to back
		vrt.Go("clientF", func() { w.tlsClient("F", w.cs.Cred, w.cs.Fault) })
		vrt.Go("clientV2", func() { w.tlsClient("V2", w.cs.goodCred(), "complete") })
		vrt.WaitQuiet()
	} else {
		step("clientF", func() { w.tlsClient("F", w.cs.Cred, w.cs.Fault) })
		if w.cs.Resume {
			step("clientF2", func() { w.tlsClient("F2", w.cs.Cred, w.cs.Fault) })
			step("clientF3", func() { w.tlsClient("F3", w.cs.Cred, w.cs.Fault) })
		}
		step("clientV2", func() { w.tlsClient("V2", w.cs.goodCred(), "complete") })
	}
	if w.cs.Plain {
		step("clientP", func() { w.plainClient() })
	}
}

func (w *c09World) verdict(r *vrt.Result) sched.Verdict {
	if v, ok := panicVerdict(r); ok {
		return v
	}
	if w.err != "" {
		return sched.Verdict{Obs: "HARNESS-PANIC setup: " + w.err}
	}
	var parts []string
	for _, c := range w.clients {
		parts = append(parts, fmt.Sprintf("%s:%s/%s/%v/done=%v", c.role, c.dial, c.hs, c.replies, c.done))
	}
	obs := strings.Join(parts, " ") + " calls=" + callsString(w.double.Calls)
	fail := func(clause, detail string) sched.Verdict {
		return sched.Verdict{Clause: clause, Detail: detail + " [" + obs + "]", Obs: obs}
	}
	called := func(role string) bool {
		for _, c := range w.double.Calls {
			for _, a := range c.Args {
				if s, ok := a.(string); ok && s == "k"+role {
					return true
				}
			}
		}
		return false
	}
	find := func(role string) *c09Client {
		for _, c := range w.clients {
			if c.role == role {
				return c
			}
		}
		return nil
	}
	// the faulty client
	for _, fr := range []string{"F", "F2", "F3"} {
		f := find(fr)
		if f == nil {
			continue
		}
		accepted := w.cs.Fault == "complete" && w.cs.accepted(w.cs.Cred)
		if !accepted && called(fr) {
			return fail("gate:command-executed-for-rejected-client", fmt.Sprintf("a command of the client with credential %q (connection %s, %s; fault %s, configuration %s) reached the handler", w.cs.Cred, fr, f.hs, w.cs.Fault, w.cs.Config))
		}
		if !accepted {
			for _, rp := range f.replies {
				if strings.HasPrefix(rp, "$\"tok:") {
					return fail("gate:command-executed-for-rejected-client", "rejected client received a handler result "+rp)
				}
			}
		}
		if !accepted && (w.cs.Fault == "complete" || w.cs.Fault == "garbage") && f.raw != nil && !f.raw.PeerClosed() && !f.raw.ClosedLocally() {
			return fail("gate:rejected-client-not-disconnected", fmt.Sprintf("the client with credential %q (connection %s, %s; fault %s, configuration %s) was refused but the server never closed its connection", w.cs.Cred, fr, f.hs, w.cs.Fault, w.cs.Config))
		}
		if accepted && !called(fr) {
			return fail("gate:accepted-client-not-served", fmt.Sprintf("client with credential %q must be served under configuration %s but its command never reached the handler", w.cs.Cred, w.cs.Config))
		}
	}
	// well-behaved TLS clients
	for _, role := range []string{"V0", "V1", "V2"} {
		v := find(role)
		if v == nil {
			continue
		}
		when := "after"
		if role == "V1" || role == "V0" {
			when = "before"
		}
		if w.cs.Fault == "stall" && role == "V2" {
			when = "while the stalled client is still connected, after"
		}
		if v.dial != "ok" {
			return fail("containment:tls-listener-dead", fmt.Sprintf("a valid TLS client dialling %s the %s/%s client was refused: the TLS listener is gone", when, w.cs.Cred, w.cs.Fault))
		}
		if !v.done || v.hs != "handshake-ok" || len(v.replies) == 0 || v.replies[len(v.replies)-1] != "+\"PONG\"" || !called(role) {
			return fail("containment:valid-tls-client-not-served", fmt.Sprintf("a valid TLS client connecting %s the %s/%s client did not complete handshake+GET+PING (handshake %s, replies %v, finished=%v)", when, w.cs.Cred, w.cs.Fault, v.hs, v.replies, v.done))
		}
		if w.cs.Config == "rule+pw" && !strings.HasPrefix(v.replies[0], "-") {
			return fail("gate:command-before-auth", "GET before AUTH answered "+v.replies[0])
		}
	}
	if p := find("P"); p != nil {
		if p.dial != "ok" {
			return fail("containment:plain-listener-dead", fmt.Sprintf("after the %s/%s TLS client a plain client was refused: the plain listener is gone", w.cs.Cred, w.cs.Fault))
		}
		// With a certificate rule AND a password the plain port cannot authenticate at all
		// (the certificate authenticator refuses connections without TLS state); the
		// statement only promises that the listener keeps accepting and answering.
		last := ""
		if len(p.replies) > 0 {
			last = p.replies[len(p.replies)-1]
		}
		served := last == "+\"PONG\"" || (w.cs.Config == "rule+pw" && strings.HasPrefix(last, "-"))
		if !p.done || !served {
			return fail("containment:plain-client-not-served", fmt.Sprintf("after the %s/%s TLS client a plain client's PING got %v", w.cs.Cred, w.cs.Fault, p.replies))
		}
	}
	return sched.Verdict{Obs: obs}
}

func c09Explorer(cs c09Case, bound int) *sched.Explorer {
	x := &sched.Explorer{Bound: bound}
	x.New = func() *sched.Run {
		w := &c09World{cs: cs}
		return &sched.Run{Body: w.body, Verdict: w.verdict}
	}
	return x
}

func c09Cases() []c09Case {
	var out []c09Case
	for _, cfg := range c09Configs {
		for _, cred := range c09Creds {
			for _, f := range c09Faults {
				for _, between := range []bool{false, true} {
					for _, plain := range []bool{true, false} {
						out = append(out, c09Case{Config: cfg, Cred: cred, Fault: f, Between: between, Plain: plain})
						if plain {
							out = append(out, c09Case{Config: cfg, Cred: cred, Fault: f, Between: between, Plain: plain, Burst: true})
						}
					}
				}
			}
		}
	}
	// the same gate when the application hands the server a ready tls.Config
	for _, cfg := range c09Configs {
		for _, cred := range c09Creds {
			out = append(out, c09Case{Config: cfg, Cred: cred, Fault: "complete", Plain: true, ViaCfg: true})
		}
	}
	// a client with a session cache connecting three times (the later connections resume)
	for _, cfg := range c09Configs {
		for _, cred := range []string{"wrong-name", "name-on-intermediate", "wrong-name+forged-extra", "valid"} {
			out = append(out, c09Case{Config: cfg, Cred: cred, Fault: "complete", Plain: true, Resume: true})
		}
	}
	// a plain-port client that authenticates first
	for _, cfg := range c09Configs {
		for _, cred := range []string{"wrong-name", "wrong-name+san", "none", "valid"} {
			out = append(out, c09Case{Config: cfg, Cred: cred, Fault: "complete", Plain: true, PlainFirst: true})
		}
	}
	// the trusted CA replaced between two runs of the same server object
	for _, re := range []string{"ca-swap", "ca-swap-restart", "cfg-replaced"} {
		for _, cfg := range c09Configs {
			for _, cred := range []string{"valid", "foreign-ca", "wrong-name", "none"} {
				out = append(out, c09Case{Config: cfg, Cred: cred, Fault: "complete", Plain: true, Reconf: re})
			}
		}
	}
	return out
}

func c09Run(c *fw.Ctx) {
	defer cleanupKit()
	bound := 1
	if c.Thorough() {
		bound = 2
	}
	for _, cs := range c09Cases() {
		if !c.Mine() {
			continue
		}
		if c.Expired() {
			return
		}
		c09Explore(c, cs, bound)
	}
}

func c09Key(cs c09Case, clause string) string {
	if cs.Resume {
		return "C09|" + cs.Config + "|resume|" + cs.Cred + "/" + cs.Fault + "|" + clause
	}
	if cs.Reconf != "" {
		return "C09|" + cs.Config + "|" + cs.Reconf + "|" + cs.Cred + "/" + cs.Fault + "|" + clause
	}
	return "C09|" + cs.Config + "|" + cs.Cred + "/" + cs.Fault + "|" + clause
}

func c09Explore(c *fw.Ctx, cs c09Case, bound int) {
	x := c09Explorer(cs, bound)
	x.Expired = c.Expired
	first := true
	x.OnExec = func(choices []int, r *vrt.Result, v sched.Verdict) {
		c.Eval()
		if strings.HasPrefix(v.Obs, "HARNESS-PANIC") {
			c.HarnessError("C09 %s %s", cs.name(), v.Obs)
		}
		if first {
			first = false
			c.Nontrivial()
			if c.WantSample() {
				c.Sample(map[string]any{"scenario": cs, "schedule_points": len(r.Points), "observation": v.Obs})
			}
		}
		if v.Clause != "" {
			cc := cs
			cc.Choices = choices
			c.Violation(c09Key(cs, v.Clause), v.Detail+fmt.Sprintf(" scenario=%s schedule=%v", cs.name(), choices), cc)
		}
	}
	x.Explore()
	st := x.Stats
	c.Count("transitions", st.Transitions)
	for o := range st.Observations() {
		c.DistinctAdd("states", cs.name()+"|"+stripTokens(o))
	}
	for _, d := range st.Diverged {
		c.HarnessError("C09 %s: %s", cs.name(), d)
	}
	if st.Deadlines > 0 {
		c.HarnessError("C09 %s: %d executions hit the watchdog (first at schedule %v)", cs.name(), st.Deadlines, st.DeadlineAt)
	}
	if st.WarmStart {
		c.Count("warm_start_scenarios", 1)
	}
	if st.Nondeterministic {
		c.HarnessError("C09: replaying the default schedule gave a different execution (uncaptured nondeterminism)")
	}
}

func stripTokens(s string) string { return s }

func c09Replay(raw json.RawMessage) (string, bool, error) {
	defer cleanupKit()
	var cs c09Case
	if err := json.Unmarshal(raw, &cs); err != nil {
		return "", false, err
	}
	x := c09Explorer(cs, 0)
	run := x.New()
	r := vrt.Run(vrt.Options{Choices: cs.Choices}, run.Body, run.AtQuiet)
	if r.Diverged != "" {
		return "", false, fmt.Errorf("schedule does not replay: %s", r.Diverged)
	}
	v := run.Verdict(r)
	return fmt.Sprintf("scenario=%s schedule=%v clause=%q %s threads=%s", cs.name(), cs.Choices, v.Clause, v.Detail, sched.ThreadSummary(r)), v.Clause != "", nil
}

func init() {
	fw.Register(&fw.Prop{
		ID:    "C09",
		Level: "model_checking",
		Rule:  "complete product: server configuration {no rule, common-name rule, rule + password} x client credential {none, plain-text bytes, self-signed, foreign CA, expired, right CA wrong name, right name only on an intermediate, right CA wrong name followed by a self-made certificate with the right name, valid} x handshake fault {complete, abort after ClientHello, stall, garbage} x placement {faulty client first; between two valid clients} x plain port {on, off} = 432 scenarios, plus 27 scenarios in which the server is given a ready tls.Config (SetTLSConfig) instead of certificate files, plus 216 'burst' scenarios in which the faulty client and the following valid client connect concurrently (their sockets can be accepted back to back). The server is configured through its public API and started with Start(); the REAL crypto/tls handshake runs on both sides over the in-memory transport under the cooperative scheduler (clients are tls.Client in harness threads). After the faulty client (and while a stalled one is still connected) a valid TLS client must complete handshake, GET and PING, and a plain client must PING; judged at quiescence, no timers. Quick: every schedule with at most one deviation from the default scheduler; thorough: two. Plus 36 scenarios in which the trusted CA is replaced between two runs of the server object and 12 in which the client under test keeps a TLS session cache and connects three times (resumed handshakes are judged like full ones). A refused client whose handshake completed or who sent garbage must have been disconnected by the server. Credentials include a certificate with the wrong common name and the configured name among its subject alternative names; 12 scenarios in which a plain-port client authenticates before the TLS client under test connects.",
		Assumptions: []string{
			"certificates are generated per run with crypto/x509 (ECDSA P-256); their random keys change bytes, not control flow",
			"the in-memory transport stands for TCP; a stalled client is one that connects and never sends",
		},
		Run:    c09Run,
		Replay: c09Replay,
		Budget: func(tier string) time.Duration {
			if tier == "thorough" {
				return 25 * time.Minute
			}
			return 4 * time.Minute
		},
		Finish: schedFinish,
	})
}
