package props

import (
	"encoding/json"
	"fmt"
	"strings"

	"verif/fw"
	"verif/grammar"
	"verif/resp"
	"verif/seq"
	"verif/srv"
)

// C20: tracing spans are balanced for every request outcome.

type c20Case struct {
	Input     []byte   `json:"input"`
	Labels    []string `json:"labels"`
	Cut       int      `json:"cut"` // -1 = whole input
	Reset     bool     `json:"reset,omitempty"`
	FailWrite int      `json:"fail_write_from,omitempty"`
	Password  string   `json:"requirepass,omitempty"`
	// SwapAt > 0: the application calls SetTracer with another tracer while the
	// connection waits for input with exactly SwapAt bytes consumed (a request
	// boundary). NoFirst: no tracer was installed before that.
	// CloseAt > 0: the application closes the connection (the *redis.Conn it finds in the
	// registry, as Stop does) while the loop waits for input with exactly CloseAt bytes consumed.
	CloseAt int `json:"app_close_at,omitempty"`
	// NestedAt > 0: while this connection waits for input with exactly NestedAt bytes consumed, a
	// second client connects, is served (PING, SET, GET, an unknown command) and leaves: two
	// connections are registered at once. Each connection's spans are judged on their own.
	NestedAt int  `json:"second_client_at,omitempty"`
	SwapAt   int  `json:"swap_tracer_at,omitempty"`
	NoFirst  bool `json:"no_first_tracer,omitempty"`
}

func c20Check(cs c20Case) (clause, detail string) {
	in := cs.Input
	if cs.Cut >= 0 && cs.Cut <= len(in) {
		in = in[:cs.Cut]
	}
	end := seq.EndEOF
	if cs.Reset {
		end = seq.EndReset
	}
	d := srv.NewDouble()
	catalogueDouble(d)
	s := srv.NewServer(d)
	tr := srv.NewTracer()
	if !cs.NoFirst {
		s.SetTracer(tr)
	}
	if cs.Password != "" {
		s.SetRequirePass(cs.Password)
		// Start() is what installs the password authenticator; emulate its effect
		// through the public API without opening sockets.
		installPassword(s, cs.Password)
	}
	conn := seq.NewConn(seq.Script{Input: in, End: end, FailWriteFrom: cs.FailWrite})
	tr2 := srv.NewTracer()
	nested := [2]int{-1, -1}
	if cs.NestedAt > 0 {
		conn.OnRead = func(delivered int, starving bool) {
			if nested[0] < 0 && delivered == cs.NestedAt {
				nested[0] = len(tr.Events)
				in2 := concat(grammar.Encode([]string{"PING"}), grammar.Encode([]string{"SET", "k", "v"}), grammar.Encode([]string{"GET", "k"}), grammar.Encode([]string{"NOSUCH"}), grammar.Encode([]string{"INCR", "n"}))
				srv.RunConn(s, seq.NewConn(seq.Script{Input: in2}))
				nested[1] = len(tr.Events)
			}
		}
	}
	if cs.CloseAt > 0 {
		closed := false
		conn.OnRead = func(delivered int, starving bool) {
			if !closed && delivered == cs.CloseAt {
				closed = true
				for _, rc := range s.Conns() {
					rc.Close()
				}
			}
		}
	}
	if cs.SwapAt > 0 {
		swapped := false
		conn.OnRead = func(delivered int, starving bool) {
			if !swapped && delivered == cs.SwapAt {
				swapped = true
				s.SetTracer(tr2)
			}
		}
	}
	out := srv.RunConn(s, conn)
	if cs.NestedAt > 0 {
		if out.Panic != "" || out.Spin != "" || nested[0] < 0 {
			return "", ""
		}
		second := tr.Events[nested[0]:nested[1]]
		first := append(append([]srv.SpanEvent{}, tr.Events[:nested[0]]...), tr.Events[nested[1]:]...)
		for i, ev := range [][]srv.SpanEvent{first, second} {
			if cl, dt, _ := srv.CheckSpans(ev); cl != "" {
				return cl, fmt.Sprintf("connection #%d of two that were open at the same time: %s events=%s", i+1, dt, spanLog(ev))
			}
		}
		return "", ""
	}
	if cs.SwapAt > 0 {
		if out.Panic != "" || out.Spin != "" {
			return "", ""
		}
		for i, t := range []*srv.Tracer{tr, tr2} {
			if cl, dt, _ := srv.CheckSpans(t.Events); cl != "" {
				return cl, fmt.Sprintf("tracer #%d (SetTracer called with the second one after %d bytes): %s events=%s", i+1, cs.SwapAt, dt, spanLog(t.Events))
			}
		}
		return "", ""
	}
	if out.Panic != "" {
		// a crash that only happens with a tracer installed is a span the connection
		// loop finished, or asked for, after it had been popped: differential run
		d2 := srv.NewDouble()
		catalogueDouble(d2)
		s2 := srv.NewServer(d2)
		if cs.Password != "" {
			s2.SetRequirePass(cs.Password)
			installPassword(s2, cs.Password)
		}
		if o2 := srv.RunConn(s2, seq.NewConn(seq.Script{Input: in, End: end, FailWriteFrom: cs.FailWrite})); o2.Panic == "" {
			return "panic-with-tracer", "the connection loop panics only when a tracer is installed (a span was used after it had been popped): " + out.Panic + " at " + out.PanicSite + " events=" + spanLog(tr.Events)
		}
		return "", "" // crashes without a tracer too: C07/C03
	}
	if out.Spin != "" {
		return "", ""
	}
	cl, dt, roots := srv.CheckSpans(tr.Events)
	if cl != "" {
		return cl, dt + " events=" + spanLog(tr.Events)
	}
	// one root per loop iteration: at least one per complete request
	reqs, _ := resp.DecodeAll(in)
	if roots < len(reqs) && !hasQuit(reqs) {
		return "missing-root", fmt.Sprintf("%d complete requests but %d root spans", len(reqs), roots)
	}
	return "", ""
}

func hasQuit(reqs []resp.Value) bool {
	for _, r := range reqs {
		if r.Kind == resp.Array && len(r.Elems) > 0 && strings.EqualFold(string(r.Elems[0].Data), "QUIT") {
			return true
		}
	}
	return false
}

func spanLog(ev []srv.SpanEvent) string {
	var b strings.Builder
	for i, e := range ev {
		if i > 40 {
			b.WriteString(" …")
			break
		}
		fmt.Fprintf(&b, " %s#%d(%s<%d)", e.Kind[:1], e.ID, e.Name, e.Parent)
	}
	return b.String()
}

func c20Run(c *fw.Ctx) {
	cat := catalogue()
	reps := representatives(cat)
	run := func(cs c20Case, key string) {
		c.Eval()
		c.Nontrivial()
		if clause, detail := c20Check(cs); clause != "" {
			c.Violation("C20|"+key+"|"+clause, detail+" input="+trunc(cs.Input, 100), cs)
		}
	}
	tops := []resp.Value{resp.S("PING"), resp.E("x"), resp.I(5), resp.B("PING"), resp.Nil(), resp.A(), resp.A(resp.Nil()), resp.A(resp.A(resp.B("PING"))), resp.A(resp.I(1))}
	// singles: every catalogue request, whole / every cut inside / failing write / unauthorised
	for _, it := range cat {
		if !c.Mine() {
			continue
		}
		name := it.Label[:strings.IndexByte(it.Label, '|')]
		if c.WantSample() {
			c.Sample(map[string]any{"request": it.Label, "variants": "whole; stream end at every offset (EOF and reset); failing write; unauthorised (requirepass set)"})
		}
		run(c20Case{Input: it.Bytes, Labels: []string{it.Label}, Cut: -1}, name+"|"+it.Kind)
		run(c20Case{Input: it.Bytes, Labels: []string{it.Label}, Cut: -1, FailWrite: 1}, name+"|"+it.Kind+"|write-fails")
		run(c20Case{Input: it.Bytes, Labels: []string{it.Label}, Cut: -1, Password: "Secret1"}, name+"|"+it.Kind+"|unauthorised")
		run(c20Case{Input: concat(grammar.Encode([]string{"AUTH", "Secret1"}), it.Bytes), Labels: []string{"AUTH", it.Label}, Cut: -1, Password: "Secret1"}, name+"|"+it.Kind+"|authorised")
		step := 1
		if c.Quick() && it.Kind != "valid" {
			step = 3
		}
		for cut := 0; cut < len(it.Bytes); cut += step {
			run(c20Case{Input: it.Bytes, Labels: []string{it.Label}, Cut: cut}, name+"|"+it.Kind+"|cut")
			run(c20Case{Input: it.Bytes, Labels: []string{it.Label}, Cut: cut, Reset: true}, name+"|"+it.Kind+"|cut-reset")
		}
	}
	// a second client comes and goes while this connection waits between two requests
	for _, it := range cat {
		if !c.Mine() || it.Kind == "quit" {
			continue
		}
		name := it.Label[:strings.IndexByte(it.Label, '|')]
		in := concat(it.Bytes, it.Bytes, grammar.Encode([]string{"PING"}))
		run(c20Case{Input: in, Labels: []string{it.Label, it.Label, "PING"}, Cut: -1, NestedAt: len(it.Bytes)}, name+"|"+it.Kind+"|second-client")
	}
	// the application (or Stop) closes the connection while it waits for the next request
	for _, it := range cat {
		if !c.Mine() || it.Kind == "quit" {
			continue
		}
		name := it.Label[:strings.IndexByte(it.Label, '|')]
		in := concat(it.Bytes, grammar.Encode([]string{"PING"}))
		run(c20Case{Input: in, Labels: []string{it.Label, "PING"}, Cut: -1, CloseAt: len(it.Bytes)}, name+"|"+it.Kind+"|closed-by-application")
	}
	// SetTracer while the connection is open: before and after every catalogue request
	ping := grammar.Encode([]string{"PING"})
	for _, it := range cat {
		if !c.Mine() || it.Kind == "quit" {
			continue
		}
		name := it.Label[:strings.IndexByte(it.Label, '|')]
		in := concat(ping, it.Bytes, ping)
		for _, at := range []int{len(ping), len(ping) + len(it.Bytes)} {
			for _, noFirst := range []bool{false, true} {
				run(c20Case{Input: in, Labels: []string{"PING", it.Label, "PING"}, Cut: -1, SwapAt: at, NoFirst: noFirst}, name+"|"+it.Kind+"|tracer-replaced")
			}
		}
	}
	for _, t := range tops {
		if !c.Mine() {
			continue
		}
		b := t.Bytes()
		run(c20Case{Input: concat(b, grammar.Encode([]string{"PING"})), Labels: []string{"toplevel"}, Cut: -1}, "toplevel|"+c06Shape(b))
		run(c20Case{Input: concat(b, grammar.Encode([]string{"PING"})), Labels: []string{"toplevel"}, Cut: -1, Password: "Secret1"}, "toplevel|"+c06Shape(b)+"|unauthorised")
	}
	// malformed frames
	for _, m := range [][]byte{[]byte("?\r\n"), []byte("*x\r\n"), []byte("$abc\r\n"), []byte("*2\r\n$3\r\nGET\r\n$9999999999\r\n"), []byte("$3\r\nabcde"), []byte("*1\r\n$4\r\nPINGxx")} {
		if !c.Mine() {
			continue
		}
		run(c20Case{Input: concat(grammar.Encode([]string{"PING"}), m), Labels: []string{"malformed"}, Cut: -1}, "malformed")
		run(c20Case{Input: m, Labels: []string{"malformed"}, Cut: -1, Password: "Secret1"}, "malformed|unauthorised")
	}
	// pairs and triples over the representatives, with cuts at request boundaries and inside the last request
	for _, a := range reps {
		for _, b := range reps {
			if !c.Mine() {
				continue
			}
			in := concat(a.Bytes, b.Bytes)
			labels := []string{a.Label, b.Label}
			key := a.Label[:strings.IndexByte(a.Label, '|')] + "+" + b.Label[:strings.IndexByte(b.Label, '|')]
			run(c20Case{Input: in, Labels: labels, Cut: -1}, key)
			run(c20Case{Input: in, Labels: labels, Cut: -1, FailWrite: 1}, key+"|write-fails")
			run(c20Case{Input: in, Labels: labels, Cut: -1, FailWrite: 2}, key+"|write-fails")
			run(c20Case{Input: in, Labels: labels, Cut: -1, Password: "Secret1"}, key+"|unauthorised")
			for cut := len(a.Bytes); cut < len(in); cut += 2 {
				run(c20Case{Input: in, Labels: labels, Cut: cut}, key+"|cut")
			}
			if c.Thorough() {
				for _, d := range reps {
					in3 := concat(in, d.Bytes)
					run(c20Case{Input: in3, Labels: append(labels, d.Label), Cut: -1}, key+"+3")
					for cut := len(in); cut < len(in3); cut++ {
						run(c20Case{Input: in3, Labels: append(labels, d.Label), Cut: cut}, key+"+3|cut")
						run(c20Case{Input: in3, Labels: append(labels, d.Label), Cut: cut, Reset: true}, key+"+3|cut-reset")
					}
					for fw := 1; fw <= 3; fw++ {
						run(c20Case{Input: in3, Labels: append(labels, d.Label), Cut: -1, FailWrite: fw}, key+"+3|write-fails")
					}
					run(c20Case{Input: in3, Labels: append(labels, d.Label), Cut: -1, Password: "Secret1"}, key+"+3|unauthorised")
				}
			}
		}
	}
}

func c20Replay(raw json.RawMessage) (string, bool, error) {
	var cs c20Case
	if err := json.Unmarshal(raw, &cs); err != nil {
		return "", false, err
	}
	clause, detail := c20Check(cs)
	return fmt.Sprintf("labels=%v cut=%d reset=%v failwrite=%d pass=%q clause=%q %s", cs.Labels, cs.Cut, cs.Reset, cs.FailWrite, cs.Password, clause, detail), clause != "", nil
}

func init() {
	fw.Register(&fw.Prop{
		ID:          "C20",
		Level:       "fault_enumeration",
		Rule:        "every request of the catalogue (every command: valid, ill-formed, surplus, unknown, handler error, QUIT) x {whole; a failing Write; unauthorised (requirepass set); authorised after AUTH; end of stream at every byte offset (quick: every 3rd for non-valid shapes) with EOF and with reset}; non-command top-level values and malformed frames, also unauthorised; all ordered pairs of representatives (whole, a write failing from reply 1 or 2, unauthorised, cuts at the boundary and at every 2nd offset of the last request; thorough: all triples with every cut offset of the last request under EOF and reset, a write failing from reply 1, 2 or 3, unauthorised). A recording tracer built on the library's own span-stack context logs every start/finish; the log is replayed against the stack discipline (one open root at a time, child inside parent, nothing finished twice, nothing left open, a root per request). Plus PING X PING for every catalogue request X with SetTracer(second tracer) called while the connection waits right before / after X, with and without a first tracer: both logs balanced. Plus X PING with every registered connection closed by the application while the loop waits right after X. Plus X X PING with a second client connecting, being served (PING, SET, GET, unknown command, INCR) and leaving while the first connection waits between its requests: each connection's spans balanced on their own.",
		Assumptions: []string{"the password authenticator is installed through the public API the way Server.Start does"},
		Run:         c20Run,
		Replay:      c20Replay,
	})
}
