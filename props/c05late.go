package props

import (
	"fmt"
	"strings"

	"github.com/cybergarage/go-redis/redis"
	"verif/fw"
	"verif/grammar"
	"verif/resp"
	"verif/seq"
	"verif/srv"
)

// C05, late registration: an application may register (or replace) an executor
// after the server has already answered requests. From then on every request
// naming that command - in any letter case, whatever spellings were seen
// before - must reach the executor registered last, with its arguments.

type c05LateCase struct {
	Kind    string   `json:"kind"` // "late"
	Command string   `json:"command"`
	Before  []string `json:"before"` // spellings requested before the registration
	Twice   bool     `json:"twice"`  // a second registration (another executor) after more traffic
	After   string   `json:"after"`  // spelling requested after the last registration
}

func spellings(name string) []string {
	mixed := []byte(strings.ToLower(name))
	for i := 0; i < len(mixed); i += 2 {
		mixed[i] = strings.ToUpper(string(mixed[i]))[0]
	}
	return []string{strings.ToUpper(name), strings.ToLower(name), string(mixed)}
}

func c05LateCheck(cs c05LateCase) (clause, detail string) {
	d := srv.NewDouble()
	s := srv.NewServer(d)
	s.SetAuthCommandHandler(d)
	var appCalls []string
	exec := func(tag string) redis.Executor {
		return func(conn *redis.Conn, cmd string, args redis.Arguments) (*redis.Message, error) {
			var rest []string
			for {
				a, err := args.NextString()
				if err != nil {
					break
				}
				rest = append(rest, a)
			}
			appCalls = append(appCalls, fmt.Sprintf("%s %q", tag, rest))
			return redis.NewBulkMessage(tag), nil
		}
	}
	send := func(spelling string) (resp.Value, string, string) {
		out := srv.RunConn(s, seq.NewConn(seq.Script{Input: grammar.Encode([]string{spelling, "k"})}))
		if cl, dt := crashClause(out); cl != "" {
			return resp.Value{}, cl, dt
		}
		vals, derr := resp.DecodeAll(out.Reply)
		if derr != nil || len(vals) != 1 {
			return resp.Value{}, "reply-count", fmt.Sprintf("%s k answered %s", spelling, trunc(out.Reply, 80))
		}
		return vals[0], "", ""
	}
	for _, sp := range cs.Before {
		if _, cl, dt := send(sp); cl != "" {
			return cl, dt
		}
	}
	s.RegisterExexutor(cs.Command, exec("first"))
	want := "first"
	if cs.Twice {
		for _, sp := range cs.Before {
			if _, cl, dt := send(sp); cl != "" {
				return cl, dt
			}
		}
		s.RegisterExexutor(cs.Command, exec("second"))
		want = "second"
	}
	appCalls = nil
	n := len(d.Calls)
	rep, cl, dt := send(cs.After)
	if cl != "" {
		return cl, dt
	}
	if len(appCalls) != 1 || appCalls[0] != fmt.Sprintf("%s %q", want, []string{"k"}) || len(d.Calls) != n || !rep.Equal(resp.B(want)) {
		return "registered-executor-not-reached", fmt.Sprintf("after requests spelled %q, RegisterExexutor(%q) (twice=%v): the request %s k was answered %s; executor calls %q, handler calls %s",
			cs.Before, cs.Command, cs.Twice, cs.After, rep, appCalls, callsString(d.Calls[n:]))
	}
	return "", ""
}

func c05Late(c *fw.Ctx) {
	for _, name := range []string{"GET", "HGETALL", "TTL", "MYCMD", "PING", "SMEMBERS"} {
		sp := spellings(name)
		for mask := 0; mask < 8; mask++ {
			var before []string
			for i := 0; i < 3; i++ {
				if mask&(1<<i) != 0 {
					before = append(before, sp[i])
				}
			}
			for _, twice := range []bool{false, true} {
				for _, after := range sp {
					if !c.Mine() {
						continue
					}
					cs := c05LateCase{Kind: "late", Command: name, Before: before, Twice: twice, After: after}
					c.Eval()
					c.Nontrivial()
					if clause, detail := c05LateCheck(cs); clause != "" {
						c.Violation("C05|"+name+"|late-registration|"+clause, detail, cs)
					}
				}
			}
		}
	}
}

// c05HandlerErrors: what the handler returns is what the client receives - also when it is an
// error, and also when it is the n-th call of a composite command that fails.
func c05HandlerErrors(c *fw.Ctx) {
	for _, it := range catalogue() {
		if it.Kind != "handler-error" || !c.Mine() {
			continue
		}
		c.Eval()
		c.Nontrivial()
		r := runDouble(seq.Script{Input: it.Bytes}, func(s *redis.Server, d *srv.Double) { catalogueDouble(d) })
		if cl, _ := crashClause(r.Out); cl != "" {
			continue // C07
		}
		if len(r.Replies) != 1 || !r.Replies[0].IsError() || !strings.Contains(string(r.Replies[0].Data), "handler failed") {
			c.Violation("C05|"+it.Label[:strings.IndexByte(it.Label, '|')]+"|handler-error|reply-not-handler-result", fmt.Sprintf("the handler returned the error \"handler failed\" for one of its calls (%s), the client received %s", callsString(r.Double.Calls), valuesString(r.Replies)), c05Case{Kind: "handler-error", Args: nil, Shape: it.Label})
		}
	}
}

// c05Counters: the value INCR / DECR / INCRBY / DECRBY hand to the handler's Set is the exact
// sum - also when it is the largest or the smallest 64-bit integer.
func c05Counters(c *fw.Ctx) {
	type cc struct {
		stored string // "" = the key is missing
		cmd    []string
		want   string
	}
	cases := []cc{
		{"10", []string{"INCRBY", "k", "5"}, "15"}, {"", []string{"INCR", "k"}, "1"}, {"", []string{"DECR", "k"}, "-1"},
		{"9223372036854775806", []string{"INCR", "k"}, "9223372036854775807"},
		{"", []string{"INCRBY", "k", "9223372036854775807"}, "9223372036854775807"},
		{"0", []string{"INCRBY", "k", "9223372036854775807"}, "9223372036854775807"},
		{"9223372036854775800", []string{"INCRBY", "k", "7"}, "9223372036854775807"},
		{"9223372036854775800", []string{"DECRBY", "k", "-7"}, "9223372036854775807"},
		{"-9223372036854775807", []string{"DECR", "k"}, "-9223372036854775808"},
		{"0", []string{"INCRBY", "k", "-9223372036854775808"}, "-9223372036854775808"},
		{"-9223372036854775800", []string{"DECRBY", "k", "8"}, "-9223372036854775808"},
		{"-1", []string{"INCRBY", "k", "-9223372036854775807"}, "-9223372036854775808"},
		{"9223372036854775807", []string{"DECRBY", "k", "9223372036854775807"}, "0"},
		{"-9223372036854775808", []string{"INCRBY", "k", "9223372036854775807"}, "-1"},
	}
	for _, x := range cases {
		if !c.Mine() {
			continue
		}
		c.Eval()
		c.Nontrivial()
		r := runDouble(seq.Script{Input: grammar.Encode(x.cmd)}, func(s *redis.Server, d *srv.Double) {
			d.Result = func(d *srv.Double, call srv.Call) (*redis.Message, error) {
				if call.Method == "Get" {
					if x.stored == "" {
						return redis.NewNilMessage(), nil
					}
					return redis.NewBulkMessage(x.stored), nil
				}
				return redis.NewOKMessage(), nil
			}
		})
		if cl, _ := crashClause(r.Out); cl != "" {
			continue
		}
		set := ""
		for _, call := range r.Double.Calls {
			if call.Method == "Set" && len(call.Args) >= 2 {
				set = fmt.Sprint(call.Args[1])
			}
		}
		if set != x.want || len(r.Replies) != 1 || !r.Replies[0].Equal(resp.I(atoiSafe(x.want))) {
			c.Violation("C05|"+x.cmd[0]+"|counter|call-mismatch", fmt.Sprintf("stored %q, %s: the handler calls are %s and the reply %s; expected Set(k, %q) and :%s", x.stored, argsString(x.cmd), callsString(r.Double.Calls), valuesString(r.Replies), x.want, x.want), c05Case{Kind: "handler-error", Shape: "counter"})
		}
	}
}

// c05Windows: for ZREVRANGEBYSCORE the framework applies LIMIT to what the handler returned.
// With and without WITHSCORES, the client receives exactly the offset/count window of the
// handler's members (a member and its score travel together).
func c05Windows(c *fw.Ctx) {
	members := []string{"m1", "m2", "m3", "m4", "m5"}
	for _, withScores := range []bool{false, true} {
		for off := 0; off <= 6; off++ {
			for cnt := -1; cnt <= 6; cnt++ {
				if !c.Mine() {
					continue
				}
				args := []string{"ZREVRANGEBYSCORE", "k", "+inf", "-inf"}
				if withScores {
					args = append(args, "WITHSCORES")
				}
				args = append(args, "LIMIT", fmt.Sprint(off), fmt.Sprint(cnt))
				c.Eval()
				c.Nontrivial()
				r := runDouble(seq.Script{Input: grammar.Encode(args)}, func(s *redis.Server, d *srv.Double) {
					d.Result = func(d *srv.Double, call srv.Call) (*redis.Message, error) {
						// what a store returns for the ascending range; the framework reverses and limits it
						var flat []string
						for i, m := range members {
							flat = append(flat, m)
							if withScores {
								flat = append(flat, fmt.Sprint(i+1))
							}
						}
						return redis.NewStringArrayMessage(flat), nil
					}
				})
				if cl, _ := crashClause(r.Out); cl != "" {
					continue
				}
				want := resp.A()
				n := 0
				for i := len(members) - 1; i >= 0; i-- {
					pos := len(members) - 1 - i
					if pos < off || (cnt >= 0 && n >= cnt) {
						continue
					}
					n++
					want.Elems = append(want.Elems, resp.B(members[i]))
					if withScores {
						want.Elems = append(want.Elems, resp.B(fmt.Sprint(i+1)))
					}
				}
				if len(r.Replies) != 1 || !r.Replies[0].Equal(want) {
					c.Violation("C05|ZREVRANGEBYSCORE|window|reply-not-handler-result", fmt.Sprintf("%s over the handler's members %v (scores 1..5): the client received %s, the window is %s", argsString(args), members, valuesString(r.Replies), want), c05Case{Kind: "handler-error", Shape: "window"})
				}
			}
		}
	}
}
